"""Oracle-only suites: the harness drives the real implementation through schedules / latency patterns the sequential
Lean model does not interleave, and evaluates the property statements directly on what clients observe.  Every
`oracle-failure` line is a concrete failing history (replayable with --only <case>).  These suites validate the atomicity
assumptions of the model and search for schedule-dependent failures; they are not the proof."""
import json
import os
import subprocess
import tempfile

from check_common import NVH, oracle_key


def run(R, sname, conf):
    tier = R.tier
    cases = conf.get("cases", {}).get(tier, 300 if tier == "quick" else 20000)
    tags = conf.get("oracle_tags", [R.pid])
    seeds = [R.seed] if tier == "quick" else [R.seed + i for i in range(conf.get("thorough_seeds", 3))]
    cov = {"cases": 0, "stats": []}
    for seed in seeds:
        with tempfile.NamedTemporaryFile("w+", suffix=".txt", delete=False) as tf:
            path = tf.name
        extra = []
        for k, v in conf.get("args", {}).items():
            extra += ["--" + k, str(v)]
        cmd = [NVH, conf["nvh_suite"], "--seed", str(seed), "--cases", str(cases), "--out", path] + extra
        p = subprocess.run(cmd, capture_output=True, text=True)
        if p.returncode != 0:
            R.problems.append(("harness-run", f"{' '.join(cmd)} failed (rc={p.returncode}): {p.stderr[-2000:]}"))
            continue
        text = open(path).read()
        os.unlink(path)
        for l in text.split("\n"):
            if l.startswith("stats "):
                try:
                    st = json.loads(l[6:])
                    cov["stats"].append(st)
                    if st.get("aborted"):
                        R.problems.append(("harness-run", f"suite {sname} seed={seed} was aborted by its watchdog"))
                except Exception:
                    pass
            elif l.startswith("oracle-failure "):
                parts = l.split(" ", 2)
                c = parts[1].split("=")[1]
                msg = parts[2]
                t = msg.split(":")[0]
                if t in tags:
                    R.violations.append((oracle_key(msg), f"implementation violates the property oracle in suite {sname} seed={seed} case={c}: {msg}",
                                         {"suite": sname, "seed": seed, "case": c, "cmd": " ".join(cmd) + f" --only {c}", "oracle": msg}))
        cov["cases"] += cases
        R.cov["evaluations"] += cases
        R.cov["traces_validated_against_impl"] += cases
        R.distinct.add(hash((sname, seed)))
    R.cov["suites"][sname] = cov
