"""Per-property configuration of ./check: theorem modules, expected theorem names, suites, projections."""

NOT_APPLICABLE = {}
HOOK_COMMITS = []

LEVEL_NOTE_SRV = ("Theorems are about the sequential Lean model of the C2S server (one request handled to quiescence at a time); "
                  "the model is tied to /repo by running the real server in-process on the same histories (srv/acl suites) and by "
                  "the translator's regenerated tables. Trusted: Lean kernel, harness, rustc/std/tokio/dashmap; thread-level interleavings "
                  "inside one request are not exhibited by the model.")

AUTHED_OPS = ["join", "join-onbehalf", "leave", "leave-onbehalf", "broadcast", "members", "channels", "getacl", "setacl",
              "getconfig", "setconfig", "moddirect", "other", "malformed"]

SRV_TRUST = ["modelled, not verified: control logic of server/src/channel/mod.rs, c2s/conn.rs, c2s/router.rs, notifier (tied by the srv correspondence)",
             "hash-order choices (pick_new_owner, event order within one clean-up) are oracle inputs validated by the model"]

SRV_RULE = ("random histories (<=80 ops, <=7 connections, 5 users, 5 channels, 7 modulator variants, boundary integers, "
            "odd identifiers) on the real server; a case is distinct by (op kind, multiset of frame kinds it produced); "
            "non-trivial = relevant to the property's projection")

PROPS = {
    "C12": {
        "theorems": ["Narwhal.Theorems.C12"],
        "audit_files": ["Narwhal/Model/Server.lean", "Narwhal/Lemmas/Emit.lean", "Narwhal/Lemmas/Assoc.lean"],
        "expect_theorems": ["Narwhal.Server.C12_one_reply", "Narwhal.Server.C12_no_foreign_id", "Narwhal.Server.C12_idless_closes"],
        "suites": {"srv": {"kind": "srv", "projection": {"ops": AUTHED_OPS, "phases": ["2"], "requester_only": True},
                           "oracle_tags": ["C12"]}},
        "rule": SRV_RULE, "trusted_base": SRV_TRUST,
        "level_text": "Proved in Lean for every state, request kind and parameter value: the frames queued to the requester contain exactly one frame "
                      "with the request's id or a closing ERROR, and no frame with another id. Tied to the code by the srv correspondence and a "
                      "per-request reply-count oracle on the real server.",
        "level_note": LEVEL_NOTE_SRV,
        "assumptions": ["requests are handled to quiescence one at a time (sequential model); pipelining and request timeouts are decided under C13",
                        "RESPONSE_TOO_LARGE substitution happens in the connection loop and is not part of this model"],
    },
    "C03": {
        "theorems": ["Narwhal.Theorems.C03"],
        "audit_files": ["Narwhal/Model/Acl.lean"],
        "expect_theorems": ["Narwhal.Acl.C03_allowed_iff_reported", "Narwhal.Acl.add_present", "Narwhal.Acl.remove_absent",
                            "Narwhal.Acl.remove_no_bare_domain"],
        "suites": {"srv": {"kind": "srv", "projection": {"ops": ["setacl", "getacl", "join", "join-onbehalf", "broadcast"]},
                           "oracle_tags": ["C03"]},
                   "acl": {"kind": "srv", "args": {"mode": "acl"}, "cases": {"quick": 200, "thorough": 5000},
                           "projection": {"ops": ["setacl", "getacl", "join", "join-onbehalf", "broadcast"]}, "oracle_tags": ["C03"]}},
        "rule": "random histories (<=80 ops, <=7 connections, 5 users, 5 channels, 7 modulator variants) on the real server; a case is "
                "distinct by (op kind, multiset of frame kinds it produced); non-trivial = relevant to the property's projection",
        "trusted_base": SRV_TRUST,
        "assumptions": ["ACL entries over domains outside the ASCII subset of the domain regex are not generated"],
        "level_text": "Proved in Lean for every ACL reachable by any update sequence and every NID: is_allowed agrees with the reported allow-list "
                      "(empty / lists the NID / lists its bare domain); add puts and remove takes the named user NIDs; removal never widens to a bare domain. "
                      "Enforcement sites (JOIN, BROADCAST, delivery cache) are tied by the srv and acl correspondence suites and an oracle that compares "
                      "every decision with the list the owner last read back.",
        "level_note": LEVEL_NOTE_SRV,
    },
}
