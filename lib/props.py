"""Per-property configuration of ./check: theorem modules, expected theorem names, suites, projections."""

NOT_APPLICABLE = {}
HOOK_COMMITS = ["4cf513d", "81f8cfa"]

LEVEL_NOTE_SRV = ("Theorems are about the sequential Lean model of the C2S server (one request handled to quiescence at a time); "
                  "the model is tied to /repo by running the real server in-process on the same histories (srv/acl suites) and by "
                  "the translator's regenerated tables. Trusted: Lean kernel, harness, rustc/std/tokio/dashmap; thread-level interleavings "
                  "inside one request are not exhibited by the model.")

AUTHED_OPS = ["join", "join-onbehalf", "leave", "leave-onbehalf", "broadcast", "members", "channels", "getacl", "setacl",
              "getconfig", "setconfig", "moddirect", "other", "malformed"]

SRV_TRUST = ["modelled, not verified: control logic of server/src/channel/mod.rs, c2s/conn.rs, c2s/router.rs, notifier (tied by the srv correspondence)",
             "hash-order choices (pick_new_owner, event order within one clean-up) are oracle inputs validated by the model"]

SRV_RULE = ("random histories (<=80 ops, <=7 connections, 5 users, 5 channels, 7 modulator variants, boundary integers, "
            "odd identifiers) on the real server; a case is distinct by (op kind, multiset of frame kinds it produced); "
            "non-trivial = relevant to the property's projection")

PROPS = {
    "C12": {
        "theorems": ["Narwhal.Theorems.C12"],
        "audit_files": ["Narwhal/Model/Server.lean", "Narwhal/Lemmas/Emit.lean", "Narwhal/Lemmas/Assoc.lean"],
        "expect_theorems": ["Narwhal.Server.C12_one_reply", "Narwhal.Server.C12_no_foreign_id", "Narwhal.Server.C12_idless_closes"],
        "suites": {"srv": {"kind": "srv", "projection": {"ops": AUTHED_OPS, "phases": ["2"], "requester_only": True},
                           "oracle_tags": ["C12"]}},
        "rule": SRV_RULE, "trusted_base": SRV_TRUST,
        "level_text": "Proved in Lean for every state, request kind and parameter value: the frames queued to the requester contain exactly one frame "
                      "with the request's id or a closing ERROR, and no frame with another id. Tied to the code by the srv correspondence and a "
                      "per-request reply-count oracle on the real server.",
        "level_note": LEVEL_NOTE_SRV,
        "assumptions": ["requests are handled to quiescence one at a time (sequential model); pipelining and request timeouts are decided under C13",
                        "RESPONSE_TOO_LARGE substitution happens in the connection loop and is not part of this model"],
    },
    "C03": {
        "theorems": ["Narwhal.Theorems.C03"],
        "audit_files": ["Narwhal/Model/Acl.lean"],
        "expect_theorems": ["Narwhal.Acl.C03_allowed_iff_reported", "Narwhal.Acl.add_present", "Narwhal.Acl.remove_absent",
                            "Narwhal.Acl.remove_no_bare_domain"],
        "suites": {"srv": {"kind": "srv", "projection": {"ops": ["setacl", "getacl", "join", "join-onbehalf", "broadcast"]},
                           "oracle_tags": ["C03"]},
                   "acl": {"kind": "srv", "args": {"mode": "acl"}, "cases": {"quick": 200, "thorough": 5000},
                           "projection": {"ops": ["setacl", "getacl", "join", "join-onbehalf", "broadcast"]}, "oracle_tags": ["C03"]}},
        "rule": "random histories (<=80 ops, <=7 connections, 5 users, 5 channels, 7 modulator variants) on the real server; a case is "
                "distinct by (op kind, multiset of frame kinds it produced); non-trivial = relevant to the property's projection",
        "trusted_base": SRV_TRUST,
        "assumptions": ["ACL entries over domains outside the ASCII subset of the domain regex are not generated"],
        "level_text": "Proved in Lean for every ACL reachable by any update sequence and every NID: is_allowed agrees with the reported allow-list "
                      "(empty / lists the NID / lists its bare domain); add puts and remove takes the named user NIDs; removal never widens to a bare domain. "
                      "Enforcement sites (JOIN, BROADCAST, delivery cache) are tied by the srv and acl correspondence suites and an oracle that compares "
                      "every decision with the list the owner last read back.",
        "level_note": LEVEL_NOTE_SRV,
    },
}

def srv_prop(mod, expect, proj, text, extra_suites=None, tags=None, assumptions=None, audit=None):
    suites = {"srv": {"kind": "srv", "projection": proj}}
    if extra_suites:
        suites.update(extra_suites)
    for sv in suites.values():
        sv.setdefault("projection", proj)
        if tags:
            sv.setdefault("oracle_tags", tags)
    return {
        "theorems": [mod], "expect_theorems": expect,
        "audit_files": ["Narwhal/Model/Server.lean", "Narwhal/Model/Id.lean", "Narwhal/Model/Acl.lean", "Narwhal/Lemmas/Emit.lean",
                        "Narwhal/Lemmas/Assoc.lean", "Narwhal/Lemmas/Checks.lean", "Narwhal/Lemmas/Invariants.lean"] + (audit or []),
        "suites": suites, "rule": SRV_RULE, "trusted_base": SRV_TRUST, "level_text": text, "level_note": LEVEL_NOTE_SRV,
        "assumptions": assumptions or [],
    }

ACL_SUITE = {"acl": {"kind": "srv", "args": {"mode": "acl"}, "cases": {"quick": 200, "thorough": 5000}}}
# three users / two channels; kicks, disconnects, same-name reconnects, hand-overs, broadcasts (dense in stale-membership histories)
CHURN_SUITE = {"churn": {"kind": "srv", "args": {"mode": "churn"}, "cases": {"quick": 250, "thorough": 6000}}}
# deterministic replay of the known finding `cleanup-event-lost-when-forwarding-fails`
KF_CLEANUP = {"kf": {"kind": "srv", "args": {"mode": "kf_cleanup"}, "cases": {"quick": 1, "thorough": 1}, "steps": 20}}
# observations that reveal the membership / ownership state every channel property rests on: a model/implementation
# disagreement there breaks the tie for those properties even when it is outside the property's own projection
STATE_DEPENDS = {"frames": ["JOIN_ACK", "LEAVE_ACK", "EVENT", "CHANNELS_ACK", "MEMBERS_ACK", "MESSAGE", "IDENTIFY_ACK", "AUTH_ACK",
                            "ERROR:CHANNEL_NOT_FOUND", "ERROR:USER_NOT_IN_CHANNEL", "ERROR:USER_IN_CHANNEL", "ERROR:FORBIDDEN",
                            "ERROR:POLICY_VIOLATION", "ERROR:CHANNEL_IS_FULL", "ERROR:USERNAME_IN_USE", "ERROR:USER_NOT_REGISTERED",
                            "ERROR:SERVER_OVERLOADED", "ERROR:NOT_ALLOWED"]}

PROPS.update({
    "C01": srv_prop("Narwhal.Theorems.C01",
        ["Narwhal.Server.C01_confinement_step", "Narwhal.Server.C01_confinement_members", "Narwhal.Server.C01_confinement",
         "Narwhal.Server.message_only_from_broadcast"],
        {"frames": ["MESSAGE"]},
        "Proved in Lean: in every state reachable by any history (any modulator outcomes), a MESSAGE is produced only by a BROADCAST, goes only to "
        "connections of current members permitted by the read list (reader cache = members filtered by read ACL is an inductive invariant), names the "
        "request's channel and the sender's own NID, and the publisher is a member permitted by the publish list. Departed users: C05. Tied by srv/acl "
        "correspondence and a membership oracle on the real server.",
        extra_suites={"acl": dict(ACL_SUITE["acl"], projection={"frames": ["MESSAGE"]})}, tags=["C01"],
        assumptions=["interleavings of concurrently suspended requests (modulator latency) are covered by the `sched` suite where claimed, not by these theorems"]),
    "C02": srv_prop("Narwhal.Theorems.C01",
        ["Narwhal.Server.C02_ack_iff_delivered", "Narwhal.Server.C02_exactly_once"],
        {"ops": ["broadcast"], "frames": ["MESSAGE", "BROADCAST_ACK", "ERROR"]},
        "Proved in Lean: BROADCAST_ACK is sent iff the admission check passed, and then the MESSAGE frames are exactly one per connection (other than "
        "the sender's) of every user in the reader list, with the accepted payload; exactly-once is proved from list-level hypotheses (no duplicate "
        "readers, a connection registered once under one user). Queueing/batching/partial writes: C15. Tied by srv/acl correspondence (payload bytes "
        "compared) and a delivery oracle.",
        extra_suites={"acl": dict(ACL_SUITE["acl"], projection={"ops": ["broadcast"], "frames": ["MESSAGE", "BROADCAST_ACK", "ERROR"]})}, tags=["C02"]),
    "C04": srv_prop("Narwhal.Theorems.C04",
        ["Narwhal.Server.refused_is_fail", "Narwhal.Server.C04_refused_noop", "Narwhal.Server.C04_refused_closes", "Narwhal.Server.C04_owner_gates",
         "Narwhal.Server.C04_on_behalf_gates", "Narwhal.Server.C04_member_gates", "Narwhal.Server.C04_ack_requires_check",
         "Narwhal.Server.C04_one_owner", "Narwhal.Server.C04_successor_is_member"],
        {"ops": ["setacl", "getacl", "setconfig", "getconfig", "members", "join-onbehalf", "leave-onbehalf", "leave", "close", "broadcast", "join"]},
        "Proved in Lean for every state and caller: owner-only and member-only requests are acknowledged only when the caller was owner / member in the "
        "pre-state; a refused request is exactly `fail` (state unchanged and one ERROR when recoverable; otherwise only the caller's own disconnection); "
        "in every reachable state each channel has members and one owner who is a member; a successor is a remaining member.",
        tags=["C04"]),
    "C06": srv_prop("Narwhal.Theorems.C06",
        ["Narwhal.Server.C06_connecting_inert", "Narwhal.Server.C06_connected_inert", "Narwhal.Server.C06_handshake_no_channel_effect",
         "Narwhal.Server.C06_authed_terminal"],
        {"phases": ["0", "1"]},
        "Proved in Lean (C2S): before CONNECT resp. IDENTIFY/AUTH every other frame yields one ERROR + close and changes neither channels, index nor "
        "router; handshake steps never touch channel state; after authentication CONNECT/IDENTIFY/AUTH are refused. S2M/M2S dispatch: table obligations "
        "regenerated from modulator/src/conn.rs and the `links` suite.",
        tags=["C06"]),
    "C07": srv_prop("Narwhal.Theorems.C06",
        ["Narwhal.Server.C07_nid_wellformed", "Narwhal.Server.C07_identify_exclusive", "Narwhal.Server.whitespace_not_alnum"],
        {"ops": ["identify", "auth", "broadcast", "moddirect", "close"], "frames": ["IDENTIFY_ACK", "AUTH_ACK", "MESSAGE", "ERROR", "EVENT"]},
        "Proved in Lean: an assigned username is non-empty and free of whitespace and '@' for every input string (uses the regenerated Unicode tables: no "
        "whitespace code point is alphanumeric, decided by the kernel on every run); IDENTIFY is acknowledged only for a name no live connection holds; "
        "MESSAGE `from` is the sender's identity (C01_confinement_step). Simultaneous IDENTIFY across worker threads is trusted to DashMap's entry lock.",
        tags=["C07"]),
    "C08": srv_prop("Narwhal.Theorems.C01", ["Narwhal.Server.C08_gate"],
        {"ops": ["broadcast"], "phases": ["2"]},
        "Proved in Lean: with a modulator, every MESSAGE of a broadcast carries exactly the payload the modulator declared valid for that request (the "
        "altered one if altered), and an invalid / failed verdict yields no MESSAGE, only an ERROR with the broadcast's id that closes the publisher. "
        "The S2M client's reply-to-verdict mapping is tied by the `s2m` suite.",
        tags=["C08"]),
    "C09": srv_prop("Narwhal.Theorems.C06", ["Narwhal.Server.C09_auth_only_on_success", "Narwhal.Server.C09_identify_refused"],
        {"ops": ["auth", "identify"], "phases": ["1"]},
        "Proved in Lean: with modulator auth a connection becomes authenticated only in the step that handled an AUTH on that connection whose outcome "
        "was success(u), with identity exactly u@domain; failure, challenge and error outcomes never authenticate; IDENTIFY is refused.",
        tags=["C09"]),
    "C14": srv_prop("Narwhal.Theorems.C14",
        ["Narwhal.Server.C14_join_admission", "Narwhal.Server.C14_members_after_join", "Narwhal.Server.C14_config_caps",
         "Narwhal.Server.C14_acl_cap", "Narwhal.Server.C14_payload_caps"],
        {"ops": ["join", "join-onbehalf", "setacl", "setconfig", "broadcast"]},
        "Proved in Lean for every limit value: JOIN is admitted only below max_clients, max_subscriptions and (when creating) max_channels; config "
        "changes stay within the server caps; an accepted ACL has at most max_clients entries; accepted payloads are within server and channel limits. "
        "max_connections / max_inflight / counter release are checked by the `limits` suite on the real server.",
        tags=["C14"]),
    "C18": srv_prop("Narwhal.Theorems.C18",
        ["Narwhal.Server.C18_refused_no_event", "Narwhal.Server.C18_join_events", "Narwhal.Server.C18_join_targets",
         "Narwhal.Server.C18_join_notify_failed", "Narwhal.Server.C18_leave_events", "Narwhal.Server.C18_handover_events",
         "Narwhal.Server.C18_no_spurious_handover", "Narwhal.Server.C18_one_event_per_connection"],
        {"frames": ["EVENT"]},
        "Proved in Lean: the exact EVENT set of each admitted JOIN / LEAVE / hand-over (kind, channel, NID, owner flag; every member connection except "
        "the requester's), none for refused requests or for a join whose notification the modulator refused; one copy per connection under the router "
        "invariants.",
        tags=["C18"]),
})

PROPS["C10"] = {
    "theorems": ["Narwhal.Theorems.C10"],
    "audit_files": ["Narwhal/Model/Reader.lean"],
    "expect_theorems": ["Narwhal.Reader.frames_eq_spec", "Narwhal.Reader.C10_segmentation_independent",
                        "Narwhal.Reader.C10_payload_lengths_accepted", "Narwhal.Reader.C10_documented_errors",
                        "Narwhal.Reader.C10_stall_segmentation_independent", "Narwhal.Reader.C10_stall_inside_payload_times_out",
                        "Narwhal.Reader.C10_missing_terminator_is_inside_payload"],
    "suites": {"reader": {"kind": "lines", "nvh_suite": "reader", "driver_suite": "reader", "op_prefixes": ["chunks", "stall"],
                          "cases": {"quick": 150, "thorough": 3000}, "thorough_args": {"exhaustive": 1}, "oracle_tags": ["C10"]}},
    "rule": "byte streams of 1-6 frames (PING / BROADCAST with payloads at 1, 255-257, limit, limit+1, binary incl. LF/NUL/header-like text, truncated, "
            "bad terminator, over-long and exactly-full headers, partial header at EOF) x segmentations (whole, 1-byte, random cuts; thorough: every single "
            "cut) x buffer sizes x payload limits (bucket and non-bucket sizes) x pool budgets; each run drives the real ConnManager::run_connection; "
            "distinct = distinct observation strings",
    "trusted_base": ["modelled, not verified: util/src/codec.rs StreamReader and the inbound half of common/src/conn.rs run_connection_loop",
                     "the header interpretation is a parameter of the theorems; the suite uses a restricted header menu whose interpretation the driver re-implements"],
    "level_text": "Proved in Lean for every buffer capacity, payload limit, header interpretation and reader state: the frames produced by the "
                  "buffer-and-chunks model of StreamReader + connection loop equal a stream-level specification, hence are independent of segmentation; "
                  "payload bytes are opaque; every announced length up to the limit is accepted; over-long headers, oversized payloads and missing terminators "
                  "end in the documented close. Tied to the code by running the real connection loop under many segmentations (and an implementation-only "
                  "oracle that two segmentations of one stream must be acted on identically).",
    "level_note": "Theorems are about the Lean reader model; tie = differential runs of the real ConnManager::run_connection with a recording dispatcher. "
                  "Pool geometry (a buffer exists for every legal length) is proved under C19 and exercised here with small budgets and non-bucket limits.",
    "assumptions": ["transport reads return at least one byte unless EOF", "payload_read_timeout not reached (timeouts: C20)"],
}

PROPS["C15"] = {
    "theorems": ["Narwhal.Theorems.C15"],
    "audit_files": ["Narwhal/Model/Writer.lean"],
    "expect_theorems": ["Narwhal.Writer.writeAll_prefix", "Narwhal.Writer.writeAll_terminates", "Narwhal.Writer.iov_layout",
                        "Narwhal.Writer.C15_bytes_are_frames", "Narwhal.Writer.trySend_total", "Narwhal.Writer.C15_non_interference",
                        "Narwhal.Writer.C15_overflow_closes_self", "Narwhal.Writer.C15_close_between_frames"],
    "suites": {"writer": {"kind": "lines", "nvh_suite": "writer", "driver_suite": "writer", "op_prefixes": ["frames", "wav", "overflow", "interrupted"],
                          "cases": {"quick": 60, "thorough": 1500}, "oracle_tags": ["C15"]}},
    "rule": "bursts of 1..300 mixed frames (with/without payload, payload sizes 1..257 incl. LF bytes) injected through the real ConnTx of a real "
            "connection whose pipe holds 1, 7, 64, 4096 or 2^20 bytes and whose peer reads 1/3/64/64K bytes at a time; queue overflow cases; and "
            "write_all_vectored against a scripted vectored writer (accept sizes 0..7 per call, empty slices); distinct = distinct received byte strings",
    "trusted_base": ["modelled, not verified: outbound half of common/src/conn.rs run_connection_loop, prepare_iovs (unsafe raw-pointer code: functional "
                     "output covered by the suite, memory safety not proved), util/src/io.rs",
                     "IoSlice::advance_slices, async-channel FIFO order, tokio duplex"],
    "level_text": "Proved in Lean for every batch, every batching of the queue (<= MAX_IOVS) and every sequence of accepted write sizes: the bytes that "
                  "reach the transport are a prefix of, and on completion exactly, the concatenation of the frames' renderings (header, payload, LF) in "
                  "queue order; a 0-byte accept is an error; sending never blocks: a full queue requests the close of that connection only, and what "
                  "routing does to one connection is independent of every other connection's queue. Tied by driving real connections through tiny pipes.",
    "level_note": "Known findings (DESIGN.md D21, D25): a writer blocked inside a write never polls its close branch, and writers wait for message-pool "
                  "buffers while holding a partial batch; both are about runtime blocking that this model does not exhibit and are recorded, not proved absent.",
    "assumptions": ["the transport eventually accepts bytes (stalled-forever transports: known finding D21)"],
}

# C02 also rests on the outbound path: an enqueued MESSAGE is written whole and in order, or the receiver is closed (C15 theorems + writer suite)
PROPS["C02"]["theorems"] = ["Narwhal.Theorems.C01", "Narwhal.Theorems.C15"]
PROPS["C02"]["expect_theorems"] += ["Narwhal.Writer.C15_bytes_are_frames", "Narwhal.Writer.trySend_total"]
PROPS["C02"]["audit_files"] += ["Narwhal/Model/Writer.lean"]
PROPS["C02"]["suites"]["writer"] = {"kind": "lines", "nvh_suite": "writer", "driver_suite": "writer", "op_prefixes": ["frames", "wav", "overflow", "interrupted"],
                                    "cases": {"quick": 60, "thorough": 1500}, "oracle_tags": ["C15", "C02"]}

PROPS["C19"] = {
    "theorems": ["Narwhal.Theorems.C19"],
    "audit_files": ["Narwhal/Model/Pool.lean"],
    "expect_theorems": ["Narwhal.Pool.inv_step", "Narwhal.Pool.excl_step", "Narwhal.Pool.C19_run_safe", "Narwhal.Pool.C19_exclusive",
                        "Narwhal.Pool.C19_pop_never_panics", "Narwhal.Pool.C19_conservation", "Narwhal.Pool.C19_all_back",
                        "Narwhal.Pool.C19_waits_only_when_empty", "Narwhal.Pool.C19_choose_ok"],
    "suites": {"pool": {"kind": "lines", "nvh_suite": "pool", "driver_suite": "pool", "op_prefixes": ["pool ", "bpool ", "cpool "],
                        "cases": {"quick": 300, "thorough": 6000}, "oracle_tags": ["C19"]}},
    "rule": "random sequences of acquire / freeze / clone / drop / batch release on real Pools of 1..5 buffers with stamped contents; random bucket "
            "geometries (min, growth 2-4, non-bucket maxima, budgets 1..10^6, caps) and the payload pool ConnManager::new builds for limits incl. "
            "1, 255-257, 300, 1000, 5000, 70000 with budgets down to 1 byte; selection probed under partial exhaustion; distinct = distinct observations",
    "trusted_base": ["modelled, not verified: util/src/pool.rs; the step granularity (one ArrayQueue or Semaphore operation per step) is an assumption about "
                     "those lock-free containers (crossbeam ArrayQueue, tokio Semaphore are trusted to be linearizable)",
                     "bytes of a shared buffer cannot change because only MutablePoolBuffer exposes &mut [u8] (Rust's type system; pool.rs has no unsafe)"],
    "level_text": "Proved in Lean over every schedule of the pool's micro-steps (any number of tasks/threads interleaving acquire, freeze, clone, drop and "
                  "batch release): a buffer id is in exactly one of {available queue, one mutable holder, one shared group}; permits + holders = capacity, "
                  "so pop().unwrap() never sees an empty queue; available + in-use = capacity; with no holder left every buffer and permit is back; an "
                  "acquirer is refused a permit only when none exists, which at rest means the queue is empty; bucket selection returns a large-enough "
                  "bucket iff one exists. Tied by op-by-op counter comparison and content stamping on the real pools, and geometry comparison through the "
                  "narwhal_verif hook.",
    "level_note": "Thread-level atomicity of ArrayQueue/Semaphore is trusted; connection life cycles returning all buffers are exercised by the limits suite (C14).",
    "assumptions": ["each ArrayQueue / Semaphore call is atomic"],
}

PROPS["C16"] = {
    "theorems": ["Narwhal.Theorems.C16"],
    "audit_files": ["Narwhal/Model/Client.lean"],
    "expect_theorems": ["Narwhal.Client.inv_step", "Narwhal.Client.C16_window", "Narwhal.Client.C16_capacity_conserved",
                        "Narwhal.Client.C16_completed_by_own_id", "Narwhal.Client.C16_result_stable",
                        "Narwhal.Client.C16_timeout_always_ends", "Narwhal.Client.C16_ping_inert"],
    "suites": {"client": {"kind": "lines", "nvh_suite": "client", "driver_suite": "client", "op_prefixes": ["req ", "reply ", "ping ", "advance "],
                          "cases": {"quick": 80, "thorough": 2000}, "oracle_tags": ["C16"]}},
    "rule": "the real generic Client (window 1/2/3/5, 100 ms timeout, virtual time) against a scripted peer: requests, replies in any order incl. "
            "duplicates, late and unsolicited ones, PINGs carrying ids of in-flight requests, time advances across deadlines, then a full window of new "
            "requests after everything ended; distinct = distinct observation strings",
    "trusted_base": ["modelled, not verified: common/src/client.rs ClientConn (send_message, perform_request, reader_task)",
                     "which waiter a released permit wakes is decided by async-lock/event-listener (observed NOT to be FIFO): grant decisions are "
                     "oracle inputs that the model validates for admissibility (waiting request, free permit, deadline not passed)",
                     "tokio timers; timer expiry at the very instant of an observation is avoided by the generator"],
    "level_text": "Proved in Lean over every sequence of submissions, grants, peer frames (any permutation, duplication, omission, injection), PINGs and "
                  "timeouts: permits + permit-holding requests = negotiated window (so at most max_inflight are outstanding and, once nobody holds a "
                  "permit, the whole window is available again, after any run of timeouts); a request obtains a result only from a frame carrying its own "
                  "id while it is in flight, and keeps it; a live request can always be ended by its timeout; a PING never completes a request. Tied by "
                  "running the real engine under virtual time and a capacity oracle.",
    "level_note": "Correlation ids of simultaneously live requests are assumed distinct (the engine's id counter wraps after 2^32-1 ids). The S2M/M2S "
                  "wrappers' reply-to-result mapping belongs to C08/C09.",
    "assumptions": ["distinct correlation ids among live requests"],
}


PROPS["C05"] = srv_prop("Narwhal.Theorems.C05",
    ["Narwhal.Server.C05_views_agree", "Narwhal.Server.C05_join_adds_exactly", "Narwhal.Server.C05_leave_removes_exactly",
     "Narwhal.Server.C05_no_empty_channel", "Narwhal.Server.C05_fresh_after_empty", "Narwhal.Server.C05_last_leave_deletes",
     "Narwhal.Server.C05_last_close_cleans", "Narwhal.Server.C05_members_are_live", "Narwhal.Server.C05_new_session_not_member",
     "Narwhal.Server.C05_index_complete", "Narwhal.Server.reachable_WF"],
    {"frames": ["JOIN_ACK", "LEAVE_ACK", "EVENT", "CHANNELS_ACK", "MEMBERS_ACK", "CHAN_CONFIG", "ERROR:CHANNEL_NOT_FOUND",
                "ERROR:USER_NOT_IN_CHANNEL", "ERROR:USER_IN_CHANNEL"]},
    "Proved in Lean by induction over every history (every modulator outcome an arbitrary input of every step): the reverse index and the member "
    "sets are the same relation (so the CHANNELS and MEMBERS listings agree), a JOIN adds and a LEAVE/removal deletes exactly one pair, no channel is "
    "empty, a channel is deleted with its last member and re-created with default configuration, empty ACLs and the joiner as owner, the clean-up run "
    "when a user's last connection ends (for any reason, whatever the modulator answers) leaves the user in no channel, every member of every channel "
    "has a live authenticated connection, and a new session under a free name is a member of nothing. Tied by the srv and churn correspondence suites and "
    "an auditor oracle (listings, existence probes, fresh configuration, clean-up announcements) on the real server.",
    extra_suites=dict(CHURN_SUITE, **KF_CLEANUP), tags=["C05"], audit=["Narwhal/Lemmas/Views.lean"],
    assumptions=["sequential model: operations of different connections are atomic with respect to each other; the repairs 03c00bb, ae22d9a, 823c396 "
                 "(index update under the channel lock before any suspension point, rollback, single-critical-section unregister) are what make the "
                 "handlers' effects atomic at the points where a task can be suspended or cancelled; true multi-worker races (DESIGN D23, D27) are "
                 "not exhibited by this model",
                 "a dropped connection = a prefix of its requests followed by close (C10)"])
PROPS["C05"]["level_note"] = ("Known finding (cleanup-event-lost-when-forwarding-fails): when the modulator refuses the forwarded MEMBER_LEFT during a "
                              "disconnect clean-up the member is removed but the remaining members are not told; stated in the model (`leaveOne`), "
                              "replayed on every run. " + LEVEL_NOTE_SRV)
for _p in ("C01", "C14", "C18", "C04"):
    PROPS[_p]["suites"]["churn"] = dict(CHURN_SUITE["churn"], projection=PROPS[_p]["suites"]["srv"]["projection"], oracle_tags=[_p])
PROPS["C18"]["suites"]["kf"] = dict(KF_CLEANUP["kf"], projection=PROPS["C18"]["suites"]["srv"]["projection"], oracle_tags=["C18"])
PROPS["C18"]["level_note"] = ("Known finding (cleanup-event-lost-when-forwarding-fails, shared with C05): no EVENT reaches the remaining members when the "
                              "modulator refuses the forwarded MEMBER_LEFT of a disconnect clean-up. " + LEVEL_NOTE_SRV)
for _p in ("C01", "C02", "C04", "C05", "C07", "C14", "C18"):
    for _s in PROPS[_p]["suites"].values():
        if _s.get("kind") == "srv":
            _s["depends"] = STATE_DEPENDS

# the real server under modulator latency: handlers suspended at their await points while other requests, socket closes and
# re-identifications proceed; auditor at quiescence (oracle-only, see lib/suite_oracle.py and harness/src/lat_suite.rs)
LAT_SUITE = {"kind": "oracle", "nvh_suite": "lat", "cases": {"quick": 1500, "thorough": 15000}}
for _p in ("C01", "C05", "C12", "C14", "C07"):
    PROPS[_p]["suites"]["lat"] = dict(LAT_SUITE, oracle_tags=[_p])


PROPS["C11"] = {
    "theorems": ["Narwhal.Theorems.C11"],
    "audit_files": ["Narwhal/Model/Codec.lean", "Narwhal/Lemmas/CodecValues.lean"],
    "expect_theorems": ["Narwhal.Codec.C11_decode_never_panics", "Narwhal.Codec.C11_value_roundtrip", "Narwhal.Codec.C11_encStr_refuses",
                        "Narwhal.Codec.C11_param_name_roundtrip", "Narwhal.Codec.C11_param_count_roundtrip",
                        "Narwhal.Codec.C11_encode_one_line", "Narwhal.Codec.schema_ok"],
    "suites": {"codec": {"kind": "lines", "nvh_suite": "codec", "driver_suite": "codec", "op_prefixes": ["dec", "encs"],
                         "cases": {"quick": 30000, "thorough": 400000}, "thorough_args": {"exhaustive": 1}, "oracle_tags": ["C11"]}},
    "rule": "lines built from the regenerated schema for all 45 kinds (fields included / omitted / duplicated / shuffled, five space bytes, vector "
            "counts right, wrong, 0, +n, huge; values: boundary integers with signs and leading zeros, booleans, strings over an adversarial alphabet "
            "(all whitespace bytes, backslash runs, the four delimiters, LF, NUL, multi-byte UTF-8, invalid UTF-8), escaped with every delimiter, "
            "unterminated), random mutations and truncations of such lines, and arbitrary UTF-8 strings straight into the value writer; thorough adds every "
            "string of up to 3 alphabet symbols and every 2-byte tail; distinct = distinct observations",
    "trusted_base": ["modelled, not verified: protocol/src/{serialize,deserialize}.rs, the code generated by protocol-macros (encode order, decode matching, "
                     "validation), Message::{from_name,name,validate_parameters}",
                     "the schema table is regenerated from message.rs by the translator (syn) and from the enum parsers by evaluation; "
                     "std: str::parse for unsigned integers and bool, str::from_utf8 (modelled by hand, compared on every run)"],
    "level_text": "Proved in Lean for every byte string: deserialize returns a message or an error and the only overflow-checked arithmetic (the value-count "
                  "decrement) is never reached with zero; for every value of every field type (all strings the encoder accepts, all integers, both "
                  "booleans) and every continuation of the line the scanner reads back exactly the value written; parameter names and value counts "
                  "round-trip; the encoder refuses exactly the strings it cannot write losslessly; every accepted message is written as exactly one "
                  "LF-terminated line (all kinds of any well-formed schema; well-formedness of the schema regenerated from message.rs is re-decided by the "
                  "kernel on every run). The composition to whole messages (parameter loop + field assignment) is stated (C11_roundtrip_full) and "
                  "validated, not yet proved: every message the real decoder accepts is re-encoded and decoded again by an implementation-side oracle, "
                  "and model and code agree byte for byte in both directions.",
    "level_note": "Partial at message level: the whole-message round trip is covered by correspondence + oracle, the proof covers values, names, counts, "
                  "totality, panic-freedom and the one-line property. Encoding the same message twice gives the same bytes because serialize is a pure "
                  "function of the message (checked by the oracle).",
    "assumptions": ["output buffer capacity only decides MessageTooLarge", "UTF-8 validity of Rust strings (type invariant)"],
}


PROPS["C13"] = {
    "theorems": ["Narwhal.Theorems.C13", "Narwhal.Theorems.C13Table"],
    "audit_files": ["Narwhal/Model/Sched.lean"],
    "expect_theorems": ["Narwhal.Sched.C13_discipline_invariant", "Narwhal.Sched.C13_no_wedge", "Narwhal.Sched.C13_holder_can_run",
                        "Narwhal.Sched.C13_abort_frees", "Narwhal.Sched.C13_cancel_frees", "Narwhal.Sched.C13_run_decreases",
                        "Narwhal.Sched.C13_no_guard_across_await", "Narwhal.Sched.C13_handlers_disciplined", "Narwhal.Sched.C13_table_covers",
                        "Narwhal.Sched.C13_handlers_never_wedge"],
    "suites": {"lat": dict(LAT_SUITE, oracle_tags=["C13"])},
    "rule": "per case: a populated server (3 users, 2 channels), then a burst of 2-6 requests / socket closes / re-identifications issued while every "
            "modulator call is parked (handlers suspended at their await points holding their locks), released in random order with ok / error / "
            "never (request_timeout fires), more operations in between; oracle: every request answered once or its connection closed within "
            "request_timeout, canary connection served afterwards, wall-clock watchdog on the worker thread",
    "trusted_base": ["modelled, not verified: the lock / suspension structure of the async handlers, extracted syntactically by the translator (syn) — "
                     "a syntactic over-approximation of guard lifetimes; tokio's LocalSet scheduling and async-lock's RwLock are trusted "
                     "(observation: async_lock readers chain-notify each other while a writer holds the lock, a busy wait that ends with the writer)",
                     "only locks that are write-locked somewhere can block (the manager lock is read-only)"],
    "level_text": "Proved in Lean for every set of handler programs respecting the lock discipline (a channel lock is acquired only while holding none; "
                  "guards are released), every scheduler interleaving, every outcome / delay of every modulator call and every cancellation: the "
                  "discipline is invariant; whenever no task waits for the modulator some unfinished task can run (no state in which tasks only wait "
                  "for each other); the holder of a contended lock never itself waits for a lock; a cancelled, timed-out or failed task holds nothing; "
                  "every scheduled action shortens the remaining work. Table obligations regenerated from the source on every run: the programs of "
                  "the real handlers respect the discipline and no DashMap guard is alive across an .await. Tied dynamically by the latency suite "
                  "on the real server (answers within request_timeout, canary, thread watchdog).",
    "level_note": "Partial: fairness of tokio's scheduler and the real blocking behaviour of threads are not modelled. Known findings recorded in DESIGN.md "
                  "(D21 a writer blocked inside a socket write never polls its close branch; D25 writers hold-and-wait on the message pool) concern the "
                  "outbound path, which this model does not cover. The in-flight slot is released when the request task ends by reply, error, timeout or "
                  "cancellation (conn.rs submit_request; exercised by the lat and limits suites).",
    "assumptions": ["each DashMap operation is atomic and short; the worker runs one task at a time"],
}


PROPS["C17"] = {
    "theorems": ["Narwhal.Theorems.C17"],
    "audit_files": ["Narwhal/Model/Direct.lean"],
    "expect_theorems": ["Narwhal.Direct.C17_exactly_once", "Narwhal.Direct.C17_faithful", "Narwhal.Direct.C17_m2s_ack", "Narwhal.Direct.C17_c2s"],
    "suites": {"direct": {"kind": "lines", "nvh_suite": "direct", "driver_suite": "direct", "op_prefixes": ["m2s ", "c2s "],
                          "cases": {"quick": 250, "thorough": 6000}, "oracle_tags": ["C17"]},
               "srv": {"kind": "srv", "projection": {"ops": ["moddirect"]}, "oracle_tags": ["C17"]}},
    "rule": "per case: the real C2S server (modulator with/without auth and send-private-payload, or none), a real M2S link (M2sConnManager + "
            "M2sDispatcher) publishing into the real routing task over a broadcast channel of capacity 1/2/16; users with 1-3 connections each "
            "(modulator auth), connections opened and closed in between; M2S_MOD_DIRECT with 1-5 targets drawn with repetition from present and "
            "absent users, payloads 1..64 bytes incl. LF/NUL; client MOD_DIRECT with every modulator outcome, with and without id; "
            "distinct = distinct observations",
    "trusted_base": ["modelled, not verified: server/src/c2s/mod.rs route_m2s_private_payload, modulator/src/conn.rs M2sDispatcher::dispatch_mod_direct_message, "
                     "server/src/c2s/conn.rs dispatch_mod_direct_message", "tokio broadcast channel; the router state is an oracle input taken from the handshake acknowledgements"],
    "level_text": "Proved in Lean for every router state in which a connection is registered once under one user, every target list and payload: each live "
                  "connection of each listed user receives exactly one MOD_DIRECT and every other connection none, wherever and however often a user is "
                  "repeated; every delivered frame carries the modulator's bytes and the server's domain; the modulator's request is acknowledged with "
                  "its id; a client's MOD_DIRECT reaches the modulator exactly when a modulator with the capability exists and the request is well-formed, "
                  "with the sender's own username and the exact payload, is acknowledged iff the modulator accepted it, and is refused with "
                  "UNEXPECTED_MESSAGE otherwise. Tied by the direct suite (real M2S link, routing task and C2S server) and per-connection copy-count oracles.",
    "level_note": "Interleaving with connects / disconnects is exercised by the suite (connections opened and closed between direct messages); delivery to a "
                  "connection that closes while the payload is being routed is not modelled. Lagged broadcast receivers (repair 17b3b88) are reached with the "
                  "capacity-1 channel.",
    "assumptions": ["a connection is registered once, under one username (Router invariant, C05/C07)"],
}


# the real S2mClient against a scripted S2M peer (hook H1): reply -> verdict mapping, broken / late / unsolicited replies
S2M_SUITE = {"kind": "lines", "nvh_suite": "s2m", "driver_suite": "s2m", "op_prefixes": ["s2m "], "cases": {"quick": 400, "thorough": 12000}}
for _p, _tags in (("C08", ["C08", "C16"]), ("C09", ["C09", "C16"]), ("C16", ["C16"])):
    PROPS[_p]["suites"]["s2m"] = dict(S2M_SUITE, oracle_tags=_tags)
for _p in ("C08", "C09"):
    PROPS[_p]["theorems"] = list(PROPS[_p]["theorems"]) + ["Narwhal.Theorems.C08S2m"]
    PROPS[_p]["audit_files"] = list(PROPS[_p]["audit_files"]) + ["Narwhal/Model/S2m.lean"]
PROPS["C08"]["expect_theorems"] = list(PROPS["C08"]["expect_theorems"]) + ["Narwhal.S2m.C08_valid_only_on_positive_ack", "Narwhal.S2m.C08_C09_everything_else_fails"]
PROPS["C09"]["expect_theorems"] = list(PROPS["C09"]["expect_theorems"]) + ["Narwhal.S2m.C09_success_only_on_positive_ack", "Narwhal.S2m.C09_continue_only_with_challenge",
                                                                       "Narwhal.S2m.C08_C09_everything_else_fails"]
PROPS["C08"]["level_text"] += (" The S2M client layer is proved fail-closed (Valid only from valid=true without attachment, altered only to the bytes of an "
                               "attachment that arrived intact, everything else — errors, other frames, silence, broken attachments — an error) and tied by "
                               "running the real S2mClient against a scripted peer.")
PROPS["C09"]["level_text"] += (" The S2M client layer is proved fail-closed (Success only from S2M_AUTH_ACK succeeded=true with a username, then that username) "
                               "and tied by running the real S2mClient against a scripted peer.")


# D21 replay: a peer that stops reading stalls the connection's writer inside `write_all_vectored`; the loop then never polls its
# close / shutdown arms (known finding, see known_findings.txt)
KF_STALL_SCRIPT = "open;connect 1 1000;auth 1 ok;stall 1;req 1;req 1;req 1;req 1;req 1;req 1;adv 10;shutdown;adv 5000"
PROPS["C20"] = {
    "theorems": ["Narwhal.Theorems.C20"],
    "audit_files": ["Narwhal/Model/Timers.lean"],
    "expect_theorems": ["Narwhal.Timers.timers_table_ok", "Narwhal.Timers.clampC2s_spec", "Narwhal.Timers.clampS2m_spec",
                        "Narwhal.Timers.clampM2s_spec", "Narwhal.Timers.C20_clamp", "Narwhal.Timers.shape_step", "Narwhal.Timers.outInv_step",
                        "Narwhal.Timers.C20_connect_deadline", "Narwhal.Timers.C20_auth_deadline", "Narwhal.Timers.C20_announced_is_clamped",
                        "Narwhal.Timers.C20_ping_only_when_silent", "Narwhal.Timers.C20_silent_is_pinged", "Narwhal.Timers.C20_pong_in_time",
                        "Narwhal.Timers.C20_pong_wrong_id", "Narwhal.Timers.C20_no_pong_times_out",
                        "Narwhal.Timers.C20_ping_timeout_only_unanswered", "Narwhal.Timers.C20_unsolicited_pong_parked",
                        "Narwhal.Timers.C20_second_unsolicited_pong_closes", "Narwhal.Timers.C20_active_not_pinged",
                        "Narwhal.Timers.C20_shutdown_closes", "Narwhal.Timers.C20_shutdown_all", "Narwhal.Timers.C20_closed_is_final",
                        "Narwhal.Timers.C20_auth_retry_keeps_deadline", "Narwhal.Timers.C20_deliveries_invisible",
                        "Narwhal.Timers.C20_deliver_inert"],
    "suites": {"timers": {"kind": "lines", "nvh_suite": "timers", "driver_suite": "timers", "op_prefixes": ["t "],
                          "cases": {"quick": 400, "thorough": 8000}, "oracle_tags": ["C20"]},
               "kf_stall": {"kind": "oracle", "nvh_suite": "timers", "cases": {"quick": 1, "thorough": 1},
                            "args": {"script": KF_STALL_SCRIPT, "ka": 1000, "pipe": 64}, "oracle_tags": ["C20"]}},
    "rule": "per case one link type (C2S with IDENTIFY or modulator AUTH, S2M, M2S), a configuration (connect / authenticate timeouts 15..600 ms, "
            "keep-alive maximum 10..100 ms, minimum 1..max) and 1-4 real connections driven through ConnManager::run_connection under virtual time at "
            "1 ms resolution: CONNECT with requested heartbeats {0, 1, min-1, min, min+1, mid, max-1, max, max+1, 100000, u32::MAX}, completed / refused / "
            "partial authentication, requests, PONGs (matching, stale, unknown id, unsolicited, duplicated), client closes, time steps aimed at every "
            "deadline -1/0/+1 ms, shutdown at a random moment; scenarios random / silent / active / shutdown; every frame is compared with its time "
            "stamp; distinct = distinct observation strings",
    "trusted_base": ["modelled, not verified: Conn::{dispatch_message (state transitions, re-arming), schedule_timeout, run_ping_loop}, the close / shutdown "
                     "arms of run_connection_loop, ConnManager::shutdown (common/src/conn.rs); the heartbeat negotiation of the three CONNECT handlers is "
                     "translated from the source (syn) on every run, as are the PING timeout factor and the shape of the re-arming code",
                     "tokio's timer wheel, select! (which of two simultaneously ready arms runs first is random: a PING in the same instant as the closing "
                     "BAD_REQUEST is dropped from the comparison), TaskTracker, CancellationToken"],
    "level_text": "Proved in Lean for every configuration with positive timeouts and min <= max, every requested heartbeat, every event list (any "
                  "timing of CONNECT, authentication attempts, requests and PONGs relative to the expiries) and every state at shutdown: an unconnected / "
                  "unauthenticated connection is never open at its deadline and a deadline TIMEOUT is written only at exactly that instant and only to a "
                  "connection that did not complete the phase (failed attempts do not move it); the announced interval is the requested one clamped "
                  "(0 = the maximum), for the three CONNECT handlers as regenerated from the source; a PING is written only when the last activity is a "
                  "whole interval old, and from any sleeping state one is written within two intervals of the last activity; a matching PONG within three "
                  "intervals keeps the connection open, another id closes it with BAD_REQUEST, none closes it with TIMEOUT exactly three intervals "
                  "after the PING, and a keep-alive TIMEOUT is only ever written that way; a connection whose last request is always less than one "
                  "interval old is never pinged or closed; shutdown writes SERVER_SHUTTING_DOWN to and closes a connection in every state, and "
                  "afterwards every connection is closed. Tied by the timers suite (real engine, all three link types, millisecond-exact comparison) and an "
                  "independent oracle that evaluates the property on the clients' observations.",
    "level_note": "Partial: a connection whose writer is blocked inside a socket write (peer stopped reading, buffer full) is outside the model; on the "
                  "real code it never observes shutdown (known finding shutdown-blocked-by-stalled-writer, replayed on every run). Repaired while building "
                  "this check: shutdown neither waited for nor reliably notified connections (4078404); a second unsolicited PONG stalled the "
                  "connection loop until the next PING (57ff38e); PING id 0 (31863f4).",
    "assumptions": ["positive timeouts, 0 < min_keep_alive <= keep_alive_interval, intervals below 2^32 ms",
                    "the transport accepts what the connection writes (stalled writers: known finding)",
                    "an event at the same instant as an expiry is handled after it"],
}


# C14: connection admission (all interleavings of the counter's atomic steps), the per-connection in-flight gate and slot release,
# tied by the `limits` suite on the real server (counters read through hook H2)
PROPS["C14"]["theorems"] = ["Narwhal.Theorems.C14", "Narwhal.Theorems.C14Limits"]
PROPS["C14"]["audit_files"] = list(PROPS["C14"]["audit_files"]) + ["Narwhal/Model/Limits.lean"]
PROPS["C14"]["expect_theorems"] = list(PROPS["C14"]["expect_theorems"]) + [
    "Narwhal.Limits.C14_conn_admission", "Narwhal.Limits.C14_conn_counter_exact", "Narwhal.Limits.C14_conn_admitted_below_limit",
    "Narwhal.Limits.C14_open_bound", "Narwhal.Limits.C14_open_refused_iff", "Narwhal.Limits.C14_close_bound", "Narwhal.Limits.C14_close_frees",
    "Narwhal.Limits.C14_inflight_bound", "Narwhal.Limits.C14_release_frees", "Narwhal.Limits.C14_failed_requests_free_their_slots"]
PROPS["C14"]["suites"]["limits"] = {"kind": "lines", "nvh_suite": "limits", "driver_suite": "limits", "op_prefixes": ["l "],
                                    "cases": {"quick": 300, "thorough": 6000}, "oracle_tags": ["C14"]}
PROPS["C14"]["level_text"] = (
    "Proved in Lean for every limit value (0 and 1 included): JOIN is admitted only below max_clients, max_subscriptions and (when creating) "
    "max_channels; config changes stay within the server caps; an accepted ACL has at most max_clients entries; accepted payloads are within server "
    "and channel limits; for every interleaving of the connection counter's atomic operations on any number of threads at most max_connections "
    "connections run, the counter equals the number of connections that hold it and is zero when nobody is left; a connection is refused exactly at "
    "the limit; after any burst of pipelined requests no connection has more than max_inflight_requests handlers executing (an over-limit burst "
    "closes the connection), and slots are free again when handlers finish or the connection goes away. Tied by the srv / churn suites and by the "
    "limits suite on the real server: admission, refusal bytes, peak executing handlers under a parked modulator, and the manager's own counters and "
    "pool occupancy (hook H2) after clean, mid-frame, mid-payload and garbage closes.")
PROPS["C14"]["rule"] = SRV_RULE + "; limits suite: max_connections 0..6, max_inflight 1..5, opens beyond the limit, bursts of 1..limit+3 pipelined JOINs in one write under a parked modulator, releases, four kinds of close, counters compared after every step"


# C06: the S2M / M2S links (handshake, shared secret, dispatch tables regenerated from the match arms), `links` suite on the real dispatchers
PROPS["C06"]["theorems"] = ["Narwhal.Theorems.C06", "Narwhal.Theorems.C06Links"]
PROPS["C06"]["audit_files"] = list(PROPS["C06"]["audit_files"]) + ["Narwhal/Model/Links.lean"]
PROPS["C06"]["expect_theorems"] = list(PROPS["C06"]["expect_theorems"]) + [
    "Narwhal.Links.dispatch_table_ok", "Narwhal.Links.C06_link_pre_auth_inert", "Narwhal.Links.C06_link_secret_exact",
    "Narwhal.Links.C06_link_state_monotone", "Narwhal.Links.C06_link_run_inert"]
PROPS["C06"]["suites"]["links"] = {"kind": "lines", "nvh_suite": "links", "driver_suite": "links", "op_prefixes": ["k "],
                                   "cases": {"quick": 400, "thorough": 8000}, "oracle_tags": ["C06"]}
PROPS["C06"]["level_text"] = (
    "Proved in Lean. C2S: before CONNECT resp. IDENTIFY/AUTH every other frame yields one ERROR + close and changes neither channels, index nor "
    "router; handshake steps never touch channel state; after authentication CONNECT/IDENTIFY/AUTH are refused. S2M / M2S: for every message kind "
    "and parameter value an unauthenticated link reaches no operational handler — everything but the acknowledgement of the link's own CONNECT with "
    "version 1 and (when one is configured) exactly the configured secret is a refusal that closes the link; an authenticated link stays "
    "authenticated and refuses a second CONNECT. The dispatch tables (which kinds each state of each link type accepts), the shape of the secret "
    "and version tests and the engine's state-order assertion are regenerated from the match arms of the source on every run and re-decided by the "
    "kernel. Tied by the srv suite (C2S) and the links suite: all 45 kinds with valid parameters plus CONNECT variants (versions 0/1/2/65535, secrets "
    "absent / empty / proper prefix / one character short / extended / other case / wrong / right) against the real S2M and M2S dispatchers, with a "
    "recording modulator and the private-payload channel watching for effects.")
PROPS["C06"]["rule"] = SRV_RULE + "; links suite: per case one link type and configured secret, 2-5 connections, 2-6 frames each"


# slow consumers behind small pipes + a flooding publisher + a small message pool (oracle-only): backlog delivered or receiver closed,
# everybody else still served (D25 regression; residual finding: writers that hold a whole batch while blocked starve the others)
PRESSURE = {"kind": "oracle", "nvh_suite": "pressure", "cases": {"quick": 40, "thorough": 2000}}
for _p in ("C15", "C13", "C02"):
    PROPS[_p]["suites"]["pressure"] = dict(PRESSURE, oracle_tags=[_p])
PROPS["C15"]["level_note"] = (
    "Known findings: `slow-consumers-starve-others` — a writer blocked inside a socket write keeps its whole batch (up to 128 message-pool "
    "buffers); two members that stop reading with long queues can empty the pool, and then no other connection's replies are written until "
    "they read again (replayed by the pressure suite on every run); and DESIGN D21: such a writer never polls its close branch, so the "
    "slow consumer is not disconnected when its queue overflows until it reads again. Repaired: the permanent variant (writers holding partial "
    "batches waiting for each other for ever, DESIGN D25) — see known_findings.txt.")


# C11: the whole-message round trip is proved (Theorems/C11Full.lean)
PROPS["C11"]["theorems"] = ["Narwhal.Theorems.C11", "Narwhal.Theorems.C11Full"]
PROPS["C11"]["expect_theorems"] = list(PROPS["C11"]["expect_theorems"]) + ["Narwhal.Codec.C11_roundtrip", "Narwhal.Codec.C11_roundtrip_schema"]
PROPS["C11"]["level_text"] = (
    "Proved in Lean: for every well-formed schema (well-formedness of the schema regenerated from message.rs is re-decided by the kernel on every "
    "run) every well-typed message of every kind that the encoder accepts is written as exactly one LF-terminated line whose body the decoder reads "
    "back as exactly that message (C11_roundtrip: the composition of the value, name and count lemmas over the parameter loop and the field "
    "assignment, for the canonical parameter order of the derive macro); for every byte string deserialize returns a message or an error and the only "
    "overflow-checked arithmetic (the value-count decrement) is never reached with zero; the encoder refuses exactly the strings it cannot write "
    "losslessly. Tied by the codec suite: model and code agree byte for byte in both directions on structured, mutated and exhaustive small inputs, "
    "and every message the real decoder accepts is re-encoded and decoded again by an implementation-side oracle.")
PROPS["C11"]["level_note"] = ("Vectors are assumed to hold fewer than 2^64 elements (VecBounded; a Rust Vec cannot hold more). Encoding the same message "
                              "twice gives the same bytes because serialize is a pure function of the message (checked by the oracle).")


# C16: multi-thread stress of the real engine (oracle-only): simultaneous timeouts on 8 worker threads, then the whole window must be usable
PROPS["C16"]["suites"]["client_mt"] = {"kind": "oracle", "nvh_suite": "client_mt", "cases": {"quick": 6, "thorough": 120}, "oracle_tags": ["C16"]}
PROPS["C16"]["level_note"] += (" Thread interleavings inside the engine (the pending table's lock, drop guards running on several worker threads) are "
                               "outside the model; the client_mt suite searches them by stress on a multi-thread runtime in real time — support for finding a "
                               "failing history, not part of the proof.")


# C12: replies that do not fit max_message_size are replaced by ERROR RESPONSE_TOO_LARGE with the same id (connection loop; oracle-only)
PROPS["C12"]["suites"]["toolarge"] = {"kind": "oracle", "nvh_suite": "toolarge", "cases": {"quick": 60, "thorough": 3000}, "oracle_tags": ["C12"]}
PROPS["C12"]["assumptions"] = ["requests are handled to quiescence one at a time (sequential model); pipelining and request timeouts are decided under C13 and by the lat suite",
                               "the RESPONSE_TOO_LARGE substitution of the connection loop is outside the Lean model; it is checked on the real server by the "
                               "toolarge suite (exactly one frame per id, the substituted ERROR carries the id, the connection stays open)"]


# writers sharing the message pool: no hold-and-wait after 02d0f5c (Batch model), loop shape regenerated from the source
for _p in ("C13", "C15"):
    PROPS[_p]["theorems"] = list(PROPS[_p]["theorems"]) + ["Narwhal.Theorems.C13Batch"]
    PROPS[_p]["audit_files"] = list(PROPS[_p]["audit_files"]) + ["Narwhal/Model/Batch.lean"]
    PROPS[_p]["expect_theorems"] = list(PROPS[_p]["expect_theorems"]) + ["Narwhal.Batch.batch_table_ok", "Narwhal.Batch.C13_writers_never_deadlock",
                                                                       "Narwhal.Batch.old_batching_deadlocks"]
    PROPS[_p]["level_text"] += (" Writers sharing the message pool: proved for every interleaving of routing, writer steps and peers accepting or not "
                                "accepting bytes that a writer waiting for a pool buffer holds none, so writers never wait only for each other (the "
                                "old batching rule is disproved by a 10-step witness); the shape of the batch-filling loop (try_acquire, no await, buffer "
                                "before dequeue, MAX_IOVS) is regenerated from the source on every run.")


# C19: operation order of the pool regenerated from the source (table obligation) + multi-thread stress on the real pool
PROPS["C19"]["theorems"] = ["Narwhal.Theorems.C19", "Narwhal.Theorems.C19Table"]
PROPS["C19"]["expect_theorems"] = list(PROPS["C19"]["expect_theorems"]) + ["Narwhal.Pool.pool_table_ok"]
PROPS["C19"]["suites"]["pool_mt"] = {"kind": "oracle", "nvh_suite": "pool_mt", "cases": {"quick": 16, "thorough": 200}, "oracle_tags": ["C19"]}
PROPS["C19"]["level_text"] += (" The order of semaphore and queue operations the micro-step model assumes (permit before pop in acquire and "
                               "try_acquire, push before permits in release_buffers, no unsafe) is read from pool.rs on every run; the pool_mt suite "
                               "stresses the real pool with 6 threads (exclusive stamps, no panic, everything back, capacity re-acquirable).")


# C07: name reuse after disconnects is dense in the churn histories (same-name reconnects, failing notifications)
PROPS["C07"]["suites"]["churn"] = dict(CHURN_SUITE["churn"], projection=PROPS["C07"]["suites"]["srv"]["projection"], oracle_tags=["C07"], depends=STATE_DEPENDS)


# C07 (identities cannot be forged): what the modulator is told about the sender of a client's MOD_DIRECT (direct suite oracle)
PROPS["C07"]["suites"]["direct"] = dict(PROPS["C17"]["suites"]["direct"], oracle_tags=["C07"])


# C05 (and the properties that rest on it): the membership operations cut at their suspension points — every interleaving, every
# notification outcome, every cancellation (Model/Micro.lean); the segment structure is regenerated from the source (Generated/Steps)
MICRO_THMS = ["Narwhal.Micro.C05_micro_invariant", "Narwhal.Micro.C05_views_agree_at_quiescence", "Narwhal.Micro.C05_no_orphan_membership",
              "Narwhal.Micro.C05_removed_channel_is_empty", "Narwhal.Micro.old_recheck_breaks_views", "Narwhal.Micro.steps_table_ok",
              "Narwhal.Micro.C05_micro_invariant_code"]
PROPS["C05"]["theorems"] = list(PROPS["C05"]["theorems"]) + ["Narwhal.Theorems.C05Micro"]
PROPS["C05"]["audit_files"] = list(PROPS["C05"]["audit_files"]) + ["Narwhal/Model/Micro.lean"]
PROPS["C05"]["expect_theorems"] = list(PROPS["C05"]["expect_theorems"]) + MICRO_THMS
for _p in ("C01", "C14", "C18"):
    # departed users (C01), released slots (C14) and the change log (C18) rest on the clean-up invariant: the module is rebuilt
    # (table obligation `steps_table_ok` re-decided when the source changes); its theorems are audited under C05
    PROPS[_p]["build_only"] = ["Narwhal.Theorems.C05Micro"]
PROPS["C05"]["level_text"] += (
    " Interleavings: a second model (Model/Micro.lean) cuts JOIN, LEAVE, on-behalf requests and the disconnect clean-up at their "
    "suspension points (waiting for a channel lock, the modulator call of a notification), gives channel objects an identity (a removed "
    "channel can still be locked by a task that looked it up earlier) and lets the environment choose every notification outcome and "
    "cancel any suspended request; proved for every schedule: the index and the member sets agree up to the channels a running clean-up "
    "still owes, a removed channel object has no members, no mapped channel is empty, and at quiescence the two listings agree. The "
    "re-check `join_channel` made before repair a26f788 is disproved by a 13-step schedule (replayed on the real code by the lat suite's "
    "directed history). Where the shared-state writes stand relative to the suspension points is read from the source on every run "
    "(table obligation `steps_table_ok`).")
PROPS["C05"]["assumptions"] = list(PROPS["C05"]["assumptions"]) + [
    "micro-step model: a segment between two suspension points is atomic (literally so on one worker thread; across workers the channel "
    "lock serialises segments of one channel, the cross-map check-then-act pairs D23 / D27 are not covered)"]
PROPS["C19"]["expect_theorems"] = list(PROPS["C19"]["expect_theorems"])


# C12 / C06: error reasons (recoverable subset, evaluated on the real type) and error sites (request id present on every
# recoverable refusal of a request handler), regenerated from the source on every run
PROPS["C12"]["theorems"] = list(PROPS["C12"]["theorems"]) + ["Narwhal.Theorems.C12Table"]
PROPS["C12"]["expect_theorems"] = list(PROPS["C12"]["expect_theorems"]) + ["Narwhal.Server.errors_table_ok", "Narwhal.Server.error_sites_ok"]
PROPS["C12"]["level_text"] += (" Table obligations regenerated from the source on every run: the model's recoverable / closing split of "
                               "the error reasons is the code's `Error::is_recoverable` (evaluated on the real type), and every "
                               "`narwhal_protocol::Error::new(..)` in the channel manager and the C2S dispatcher whose reason is recoverable "
                               "carries `.with_id(..)` unless it belongs to the id-less handshake.")
PROPS["C06"]["theorems"] = list(PROPS["C06"]["theorems"]) + ["Narwhal.Theorems.C12Table"]
PROPS["C06"]["expect_theorems"] = list(PROPS["C06"]["expect_theorems"]) + ["Narwhal.Server.errors_table_ok", "Narwhal.Server.closing_reasons_ok"]


# C05: correspondence of the micro-step model with the real server (every modulator call parked; the harness decides which
# notification returns when and with what, which connections close; the same schedule in the model's labels)
PROPS["C05"]["suites"]["micro"] = {"kind": "lines", "nvh_suite": "micro", "driver_suite": "micro", "op_prefixes": ["mi "],
                                   "cases": {"quick": 1500, "thorough": 60000}, "oracle_tags": ["C05"]}


# C07: who holds a username, for every interleaving of registrations and connection ends (atomic steps = one map critical section each,
# read from the source); C12: replies replaced by RESPONSE_TOO_LARGE keep the verdict
PROPS["C07"]["theorems"] = list(PROPS["C07"]["theorems"]) + ["Narwhal.Theorems.C07Names"]
PROPS["C07"]["audit_files"] = list(PROPS["C07"]["audit_files"]) + ["Narwhal/Model/Names.lean"]
PROPS["C07"]["expect_theorems"] = list(PROPS["C07"]["expect_theorems"]) + [
    "Narwhal.Names.C07_unique_holder", "Narwhal.Names.C07_identify_iff_free", "Narwhal.Names.C07_holder_keeps_name",
    "Narwhal.Names.C07_name_reusable", "Narwhal.Names.C07_reserved_during_cleanup", "Narwhal.Names.names_table_ok"]
PROPS["C07"]["level_text"] += (" Every interleaving: registration and the end of a connection are each one critical section on the connection map "
                               "(read from c2s/router.rs on every run), and for every sequence of them a name has at most one holder, an IDENTIFY is "
                               "acknowledged exactly when the name is neither held nor reserved by a clean-up still in progress, nothing but its own end "
                               "takes the name from its holder, and the name is free again once the holder has ended and its clean-up has finished "
                               "(Model/Names.lean). Name reuse during a slow clean-up is probed on the real server by the lat suite.")
PROPS["C12"]["expect_theorems"] = list(PROPS["C12"]["expect_theorems"]) + ["Narwhal.Server.C12_substitution_keeps_answer", "Narwhal.Server.C12_substitution_no_foreign_id"]
PROPS["C12"]["assumptions"] = ["requests are handled to quiescence one at a time (sequential model); pipelining and request timeouts are decided under C13 and by the lat suite",
                               "which replies exceed max_message_size is a parameter (`fits`) of the substitution theorems; the real sizes are exercised by the toolarge suite"]


# the per-connection in-flight gate also belongs to C12 (a client within the advertised limit is always answered) and C13 (a finished
# request does not keep its slot): the limits suite's slot-leak oracle serves them too
for _p in ("C12", "C13"):
    PROPS[_p]["suites"]["limits"] = dict(PROPS["C14"]["suites"]["limits"], oracle_tags=[_p])


# C14 (limits do not drift): churn-style traffic under tight limits (max_channels 1-2, max_clients 1-3, max_subscriptions 1-2) where half the
# JOINs of users without memberships fail in the modulator and are rolled back
PROPS["C14"]["suites"]["drift"] = {"kind": "srv", "args": {"mode": "drift"}, "cases": {"quick": 250, "thorough": 6000},
                                   "projection": PROPS["C14"]["suites"]["srv"]["projection"], "oracle_tags": ["C14"], "depends": STATE_DEPENDS}


# C13: no reply shape of the modulator may make the client engine panic (the server's panic hook ends the process): s2m suite's engine-panic oracle
PROPS["C13"]["suites"]["s2m"] = dict(S2M_SUITE, oracle_tags=["C13"])


# C16: the ids of requests that are live at the same time differ (generator shape read from the source; any window of fewer than
# 2^32-1 consecutive ids is injective); pooled client: a hung handshake ends in an error (s2m suite)
PROPS["C16"]["theorems"] = list(PROPS["C16"]["theorems"]) + ["Narwhal.Theorems.C16Ids"]
PROPS["C16"]["expect_theorems"] = list(PROPS["C16"]["expect_theorems"]) + ["Narwhal.Client.C16_ids_nonzero", "Narwhal.Client.C16_ids_distinct_in_window",
                                                                       "Narwhal.Client.client_ids_table_ok"]
PROPS["C16"]["assumptions"] = ["fewer than 2^32-1 requests are issued on one client during the lifetime of a request (then live ids are distinct: C16_ids_distinct_in_window)"]
PROPS["C16"]["level_note"] = PROPS["C16"]["level_note"].replace("Correlation ids of simultaneously live requests are assumed distinct (the engine's id counter wraps after 2^32-1 ids).",
    "Correlation ids of simultaneously live requests are distinct because the generator steps a 32-bit counter (shape read from the source, C16Ids.lean).")
# C02 / C20 also rest on the lat suite (deliveries through the router under slow clean-ups; shutdown with requests in flight)
PROPS["C02"]["suites"]["lat"] = dict(LAT_SUITE, oracle_tags=["C02"])
PROPS["C20"]["suites"]["lat"] = dict(LAT_SUITE, oracle_tags=["C20"])


# C01 / C02 / C04 under interleaving: readers (BROADCAST, MEMBERS) as a product with the writers' micro-step model (Model/MicroB.lean)
READER_THMS = ["Narwhal.MicroB.C01_micro_snapshot_is_a_moment_of_the_request", "Narwhal.MicroB.C02_micro_member_throughout_is_reached",
               "Narwhal.MicroB.reader_refused_on_removed_object", "Narwhal.MicroB.reader_waits_for_writer",
               "Narwhal.MicroB.readers_do_not_interfere", "Narwhal.MicroB.readers_table_ok"]
for _p in ("C01", "C02", "C04"):
    PROPS[_p]["theorems"] = list(PROPS[_p]["theorems"]) + ["Narwhal.Theorems.C01Micro"]
    PROPS[_p]["audit_files"] = list(PROPS[_p].get("audit_files", [])) + ["Narwhal/Model/MicroB.lean", "Narwhal/Model/Micro.lean"]
    PROPS[_p]["expect_theorems"] = list(PROPS[_p]["expect_theorems"]) + READER_THMS
    PROPS[_p]["level_text"] += (
        " Interleavings: BROADCAST and MEMBERS are modelled as readers running between the suspension points of the membership writers "
        "(Model/MicroB.lean, a product with Model/Micro.lean). Proved for every schedule: the member list such a request obtains is the "
        "channel's current list at one moment of its own processing, the requester is in it, no writer is suspended inside the channel at "
        "that moment (so no recipient is a tentative member whose JOIN can still be rolled back, and a member throughout the request is "
        "reached); a reader that waited on a channel object which has meanwhile left the map is refused; readers never change the "
        "membership state. That both requests read under the channel's lock in one segment, and that the broadcast target list is "
        "recomputed at every member insertion and removal, is read from the source on every run (table obligation `readers_table_ok`).")
    PROPS[_p]["assumptions"] = list(PROPS[_p].get("assumptions", [])) + [
        "reader/writer micro-step model: a segment between two suspension points is atomic; async-lock's RwLock grants a read lock only "
        "while no writer holds it (trusted)"]
READERS_SUITE = {"kind": "lines", "nvh_suite": "readers", "driver_suite": "readers", "op_prefixes": ["bi "],
                 "cases": {"quick": 600, "thorough": 30000}}
for _p in ("C01", "C02", "C04"):
    PROPS[_p]["suites"]["readers"] = dict(READERS_SUITE, oracle_tags=[_p])
    PROPS[_p]["level_text"] += (
        " The `readers` suite ties that model to the server: a BROADCAST or MEMBERS request is issued while a JOIN or LEAVE of the same "
        "channel is parked in its modulator notification; the harness observes that the reader is not answered before the writer finishes "
        "(including across the hand-over announcement) and which member list it then works with (recipients of the broadcast plus the "
        "sender, or the MEMBERS reply), after acknowledged and refused notifications; the Lean driver replays the same schedule.")


# C05 / C01 with connections: liveness over the micro-step model (Model/MicroL.lean)
LIVE_THMS = ["Narwhal.MicroL.C05_micro_no_ghost_member", "Narwhal.MicroL.C05_micro_members_are_live_at_quiescence",
             "Narwhal.MicroL.C01_micro_fresh_session_has_no_memberships", "Narwhal.MicroL.live_table_ok"]
for _p in ("C05", "C01"):
    PROPS[_p]["theorems"] = list(PROPS[_p]["theorems"]) + ["Narwhal.Theorems.C05MicroL"]
    PROPS[_p]["audit_files"] = list(PROPS[_p].get("audit_files", [])) + ["Narwhal/Model/MicroL.lean"]
    PROPS[_p]["expect_theorems"] = list(PROPS[_p]["expect_theorems"]) + LIVE_THMS
    PROPS[_p]["level_text"] += (
        " Connections over the micro-steps (Model/MicroL.lean): one liveness bit per user; a JOIN writes a member only if that user is "
        "live in the writing segment, the end of the last connection makes the user not live in the step that takes the index entry, and a "
        "name is identified again only when no connection holds it and its clean-up has finished. Proved for every reachable state: a "
        "listed member is live or owed to a clean-up that is still running; at quiescence every member is live; a name that can be "
        "identified again is a member of nothing. Where the code makes the liveness check (under the channel lock, same segment as the "
        "insertion), what `has_connection` asks for, and that request tasks end before the clean-up starts are read from the source on "
        "every run (table obligation `live_table_ok`); the lat suite's ghost-member and departed-user oracles exercise the same statements "
        "on the server.")
    PROPS[_p]["assumptions"] = list(PROPS[_p].get("assumptions", [])) + [
        "MicroL: a user's own JOIN is written only while that user is live — rests on `Conn::shutdown` awaiting the request tasks before "
        "the dispatcher's shutdown (order read from the source; tokio's TaskTracker trusted)"]


# C08 / C02: an alteration to nothing is refused at the gate; every MESSAGE of a broadcast carries a non-empty payload (D35)
for _p in ("C08", "C02"):
    PROPS[_p]["expect_theorems"] = list(PROPS[_p]["expect_theorems"]) + ["Narwhal.Server.C08_message_payload_nonempty"]


# C16 / C13: cancel-safety of `perform_request` (the model's `timeout` step returns the permit of any in-flight request)
for _p in ("C16", "C13"):
    if "Narwhal.Theorems.C16Ids" not in PROPS[_p]["theorems"]:
        PROPS[_p]["theorems"] = list(PROPS[_p]["theorems"]) + ["Narwhal.Theorems.C16Ids"]
    PROPS[_p]["expect_theorems"] = list(PROPS[_p]["expect_theorems"]) + ["Narwhal.Client.client_cancel_safe_table_ok"]
