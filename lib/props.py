"""Per-property configuration of ./check: theorem modules, expected theorem names, suites, projections."""

AUTHED_OPS = ["join", "join-onbehalf", "leave", "leave-onbehalf", "broadcast", "members", "channels", "getacl", "setacl",
              "getconfig", "setconfig", "moddirect", "other", "malformed"]

SRV_TRUST = ["modelled, not verified: control logic of server/src/channel/mod.rs, c2s/conn.rs, c2s/router.rs, notifier (tied by the srv correspondence)",
             "hash-order choices (pick_new_owner, event order within one clean-up) are oracle inputs validated by the model"]

PROPS = {
    "C03": {
        "theorems": ["Narwhal.Theorems.C03"],
        "audit_files": ["Narwhal/Model/Acl.lean"],
        "expect_theorems": ["Narwhal.Acl.C03_allowed_iff_reported", "Narwhal.Acl.add_present", "Narwhal.Acl.remove_absent",
                            "Narwhal.Acl.remove_no_bare_domain"],
        "suites": {"srv": {"kind": "srv", "projection": {"ops": ["setacl", "getacl", "join", "join-onbehalf", "broadcast"]},
                           "oracle_tags": ["C03"]},
                   "acl": {"kind": "srv", "args": {"mode": "acl"}, "cases": {"quick": 200, "thorough": 5000},
                           "projection": {"ops": ["setacl", "getacl", "join", "join-onbehalf", "broadcast"]}, "oracle_tags": ["C03"]}},
        "rule": "random histories (<=80 ops, <=7 connections, 5 users, 5 channels, 7 modulator variants) on the real server; a case is "
                "distinct by (op kind, multiset of frame kinds it produced); non-trivial = relevant to the property's projection",
        "trusted_base": SRV_TRUST,
        "assumptions": ["ACL entries over domains outside the ASCII subset of the domain regex are not generated"],
    },
}
