"""Correspondence suite `srv`: the real C2S server (in-process) vs the Lean sequential server model.

The harness (`nvh srv`) runs random histories against the implementation and writes a transcript
(`case`, `cfg`, `tag`, `env`, `op`, `impl` lines + `oracle-failure` lines + `stats`).  The Lean driver replays
the `cfg/case/env/op` lines on the model and prints one `obs` line per `op`.  Observations are compared
per step as multisets of `conn:frame` entries; for a connection the step closes, frames queued before the
closing ERROR may or may not have been written (the connection loop's `select!` is unordered), so they
are optional.  A property's check only looks at its *projection* of each step (see props.py); after the
first full divergence the rest of that history is not compared (the model state is no longer meaningful).
"""
import json
import os
import subprocess
import tempfile

from check_common import NVH, DRIVER, oracle_key


def entries(line):
    return [x for x in line.strip().split(" | ") if x]


def split_entry(e):
    # "12:FRAME..." or "12!FRAME..."
    i = 0
    while i < len(e) and e[i].isdigit():
        i += 1
    return e[:i], e[i:i + 1], e[i + 1:]


def frame_kind(text):
    k = text.split(" ", 1)[0]
    return k


def frame_kind_reason(text):
    # "ERROR reason=X ..." -> "ERROR:X"
    k = text.split(" ", 1)[0]
    if k == "ERROR":
        for tok in text.split(" "):
            if tok.startswith("reason="):
                return "ERROR:" + tok[7:]
    return k


def depends_hit(a, b, dep):
    # does the disagreement between impl entries a and model entries b involve a frame kind the property depends on?
    kinds = set(dep.get("frames", []))
    da = sorted(x for x in a if x not in b)
    db = sorted(x for x in b if x not in a)
    return any(frame_kind_reason(split_entry(x)[2]) in kinds or frame_kind(split_entry(x)[2]) in kinds for x in da + db)


def step_equal(a, b):
    """full comparison of one step: impl entries a, model entries b"""
    if sorted(a) == sorted(b):
        return True
    closing = {split_entry(x)[0] for x in b if split_entry(x)[1] == "!"}
    a2 = [x for x in a if not (split_entry(x)[0] in closing and split_entry(x)[1] == ":")]
    b2 = [x for x in b if not (split_entry(x)[0] in closing and split_entry(x)[1] == ":")]
    return sorted(a2) == sorted(b2) and all(x in b for x in a)


def project(ents, proj, tag):
    out = []
    for e in ents:
        conn, sep, text = split_entry(e)
        if proj.get("requester_only") and conn != tag.get("conn"):
            continue
        kinds = proj.get("frames")
        if kinds is not None and frame_kind(text) not in kinds and frame_kind_reason(text) not in kinds:
            continue
        if proj.get("drop_payload_bytes") and " #" in text:
            text = text.split(" #")[0]
        out.append(conn + sep + text)
    return out


def relevant(proj, tag):
    ops = proj.get("ops")
    if ops is not None and tag.get("kind") not in ops:
        return False
    ph = proj.get("phases")
    if ph is not None and tag.get("phase") not in ph:
        return False
    return True


def run(R, sname, conf):
    tier = R.tier
    cases = conf.get("cases", {}).get(tier, 400 if tier == "quick" else 8000)
    steps = conf.get("steps", 80)
    proj = conf.get("projection", {})
    tags = conf.get("oracle_tags", [R.pid])
    seeds = [R.seed] if tier == "quick" else [R.seed + i for i in range(conf.get("thorough_seeds", 4))]
    cov = {"cases": 0, "steps": 0, "relevant_steps": 0, "first_divergences_elsewhere": 0, "ops": {}, "frames": {}}
    for seed in seeds:
        with tempfile.NamedTemporaryFile("w+", suffix=".txt", delete=False) as tf:
            path = tf.name
        extra = []
        for k, v in conf.get("args", {}).items():
            extra += ["--" + k, str(v)]
        cmd = [NVH, conf.get("nvh_suite", "srv"), "--seed", str(seed), "--cases", str(cases), "--steps", str(steps), "--out", path] + extra
        p = subprocess.run(cmd, capture_output=True, text=True)
        if p.returncode != 0:
            R.problems.append(("harness-run", f"{' '.join(cmd)} failed: {p.stderr[-2000:]}"))
            continue
        text = open(path).read()
        os.unlink(path)
        lines = text.split("\n")
        m = subprocess.run([DRIVER, "srv"], input=text, capture_output=True, text=True)
        model = [l[4:] if len(l) > 3 else "" for l in m.stdout.split("\n") if l.startswith("obs")]
        impl = [l[5:] if len(l) > 4 else "" for l in lines if l.startswith("impl")]
        if len(model) != len(impl):
            R.problems.append(("driver", f"model produced {len(model)} observations for {len(impl)} operations"))
            continue
        # walk the transcript
        i = 0
        case = None
        case_lines = []
        diverged = False
        tag = {}
        for l in lines:
            if l.startswith("case "):
                case = l.split(" ")[1]
                case_lines = [l]
                diverged = False
                cov["cases"] += 1
                continue
            if l.startswith("stats "):
                st = json.loads(l[6:])
                for k, v in st.get("ops", {}).items():
                    cov["ops"][k] = cov["ops"].get(k, 0) + v
                for k, v in st.get("frames", {}).items():
                    cov["frames"][k] = cov["frames"].get(k, 0) + v
                continue
            if l.startswith("oracle-failure "):
                parts = l.split(" ", 2)
                c = parts[1].split("=")[1]
                msg = parts[2]
                t = msg.split(":")[0]
                if t in tags:
                    key = oracle_key(msg)
                    R.violations.append((key, f"implementation violates the property oracle in suite {sname} seed={seed} case={c}: {msg}",
                                         {"suite": sname, "seed": seed, "case": int(c), "cmd": f"{NVH} srv --seed {seed} --cases {cases} --steps {steps} --only {c} --out /dev/stdout", "oracle": msg}))
                continue
            if case is not None:
                case_lines.append(l)
            if l.startswith("tag "):
                tag = dict(kv.split("=", 1) for kv in l.split(" ")[1:])
            if l.startswith("op "):
                a, b = entries(impl[i]), entries(model[i])
                i += 1
                cov["steps"] += 1
                if diverged:
                    continue
                rel = relevant(proj, tag)
                if rel:
                    cov["relevant_steps"] += 1
                    R.distinct.add(hash((tag.get("kind"), tuple(sorted(frame_kind(split_entry(x)[2]) for x in a)))))
                    if len(R.cov["samples"]) < 6 and a:
                        R.cov["samples"].append({"suite": sname, "op": l, "impl": impl[i - 1], "model": model[i - 1]})
                if not step_equal(a, b):
                    diverged = True
                    pa, pb = project(a, proj, tag), project(b, proj, tag)
                    if rel and not step_equal(pa, pb):
                        R.problems.append(("correspondence", f"suite {sname} seed={seed} case={case}: model and implementation disagree at `{l}`\n  impl : {impl[i-1]}\n  model: {model[i-1]}\n  history:\n    " + "\n    ".join(x for x in case_lines[-40:] if x.startswith(('op ', 'env ', 'cfg ')))))
                    elif conf.get("depends") and depends_hit(a, b, conf["depends"]):
                        R.problems.append(("correspondence", f"suite {sname} seed={seed} case={case}: model and implementation disagree at `{l}` on state this property's theorems depend on (membership / ownership / identity)\n  impl : {impl[i-1]}\n  model: {model[i-1]}\n  history:\n    " + "\n    ".join(x for x in case_lines[-40:] if x.startswith(('op ', 'env ', 'cfg ')))))
                    else:
                        cov["first_divergences_elsewhere"] += 1
        R.cov["evaluations"] += cov["steps"]
        R.cov["traces_validated_against_impl"] += cov["cases"]
    # violation protocol: a tie is broken but no concrete failing input yet -> search more histories with the oracles
    if R.problems and not R.violations:
        budget = 8 if tier == "quick" else 40
        searched = 0
        for extra in range(1, budget + 1):
            seed = 1000003 * extra + R.seed
            with tempfile.NamedTemporaryFile("w+", suffix=".txt", delete=False) as tf:
                path = tf.name
            extra_args = []
            for k, v in conf.get("args", {}).items():
                extra_args += ["--" + k, str(v)]
            cmd = [NVH, conf.get("nvh_suite", "srv"), "--seed", str(seed), "--cases", str(cases), "--steps", str(steps), "--out", path] + extra_args
            p = subprocess.run(cmd, capture_output=True, text=True)
            searched += 1
            if p.returncode != 0:
                continue
            for l in open(path):
                if l.startswith("oracle-failure "):
                    parts = l.rstrip("\n").split(" ", 2)
                    c = parts[1].split("=")[1]
                    msg = parts[2]
                    t = msg.split(":")[0]
                    if t in tags:
                        key = oracle_key(msg)
                        R.violations.append((key, f"implementation violates the property oracle in suite {sname} seed={seed} case={c}: {msg}",
                                             {"suite": sname, "seed": seed, "case": int(c), "cmd": " ".join(cmd) + f" --only {c}", "oracle": msg}))
            os.unlink(path)
            if R.violations:
                break
        cov["search_runs"] = searched
    R.cov["suites"][sname] = cov
