"""Generic correspondence runner: the harness writes a transcript with `impl <obs>` lines after each
operation line; the Lean driver prints `obs <obs>` for each operation line; they must be equal.
`oracle-failure` lines are concrete property violations found by the harness on the implementation."""
import json
import os
import subprocess
import tempfile

from check_common import NVH, DRIVER, oracle_key


def run_once(R, sname, conf, seed, cases, collect_cmp=True):
    with tempfile.NamedTemporaryFile("w+", suffix=".txt", delete=False) as tf:
        path = tf.name
    extra = []
    for k, v in conf.get("args", {}).items():
        extra += ["--" + k, str(v)]
    if R.tier == "thorough":
        for k, v in conf.get("thorough_args", {}).items():
            extra += ["--" + k, str(v)]
    cmd = [NVH, conf["nvh_suite"], "--seed", str(seed), "--cases", str(cases), "--out", path] + extra
    p = subprocess.run(cmd, capture_output=True, text=True)
    if p.returncode != 0:
        R.problems.append(("harness-run", f"{' '.join(cmd)} failed (rc={p.returncode}): {p.stderr[-2000:]}"))
        return None
    text = open(path).read()
    os.unlink(path)
    return text, " ".join(cmd)


def run(R, sname, conf):
    tier = R.tier
    cases = conf.get("cases", {}).get(tier, 200 if tier == "quick" else 4000)
    tags = conf.get("oracle_tags", [R.pid])
    op_prefixes = tuple(conf.get("op_prefixes", ["op "]))
    seeds = [R.seed] if tier == "quick" else [R.seed + i for i in range(conf.get("thorough_seeds", 3))]
    cov = {"cases": 0, "ops": 0, "stats": []}
    for seed in seeds:
        r = run_once(R, sname, conf, seed, cases)
        if r is None:
            continue
        text, cmd = r
        lines = text.split("\n")
        m = subprocess.run([DRIVER, conf["driver_suite"]], input=text, capture_output=True, text=True)
        model = [l[4:] if len(l) > 3 else "" for l in m.stdout.split("\n") if l.startswith("obs")]
        impl = [l[5:] if len(l) > 4 else "" for l in lines if l.startswith("impl")]
        if len(model) != len(impl):
            R.problems.append(("driver", f"suite {sname}: model produced {len(model)} observations for {len(impl)} operations; stderr: {m.stderr[-500:]}"))
            continue
        i = 0
        case = "?"
        ctx = []
        for l in lines:
            if l.startswith("case "):
                case = l.split(" ")[1]
                cov["cases"] += 1
                ctx = []
                continue
            if l.startswith("stats "):
                try:
                    cov["stats"].append(json.loads(l[6:]))
                except Exception:
                    pass
                continue
            if l.startswith("oracle-failure "):
                parts = l.split(" ", 2)
                msg = parts[2]
                t = msg.split(":")[0]
                if t in tags:
                    key = oracle_key(msg)
                    R.violations.append((key, f"implementation violates the property oracle in suite {sname} seed={seed}: {msg}",
                                         {"suite": sname, "seed": seed, "cmd": cmd, "oracle": msg}))
                continue
            if l.startswith(op_prefixes):
                a, b = impl[i].strip(), model[i].strip()
                i += 1
                cov["ops"] += 1
                R.distinct.add(hash((sname, a)))
                if len(R.cov["samples"]) < 6 and a:
                    R.cov["samples"].append({"suite": sname, "op": l[:300], "impl": a[:300], "model": b[:300]})
                if "SPEC-DIFFERS" in b:
                    R.problems.append(("model-spec", f"suite {sname} seed={seed} case={case}: executable model and its specification differ on `{l[:200]}`: {b[:400]}"))
                if a != b.split(" SPEC-DIFFERS")[0].strip():
                    if "PANIC" in a:
                        key = f"panic:{sname}"
                        R.violations.append((key, f"the implementation panicked in suite {sname} seed={seed} case={case} on `{l[:300]}` (model: {b[:200]})",
                                             {"suite": sname, "seed": seed, "case": case, "cmd": cmd, "op": l, "context": ctx[-10:]}))
                    else:
                        R.problems.append(("correspondence", f"suite {sname} seed={seed} case={case}: model and implementation disagree at `{l[:300]}`\n  impl : {a[:600]}\n  model: {b[:600]}\n  context: " + " ; ".join(ctx[-6:])))
                ctx.append(l[:200])
            elif l and not l.startswith("impl"):
                ctx.append(l[:200])
        R.cov["evaluations"] += cov["ops"]
        R.cov["traces_validated_against_impl"] += cov["ops"]
    R.cov["suites"][sname] = cov
