import os
ROOT = os.path.dirname(os.path.dirname(os.path.abspath(__file__)))
NVH = os.path.join(ROOT, "harness", "target", "debug", "nvh")
DRIVER = os.path.join(ROOT, "lean", ".lake", "build", "bin", "driver")


def oracle_key(msg):
    """stable key of an oracle failure `Cxx: [slug] text` (slug when present, else the first 60 characters)"""
    t, _, rest = msg.partition(":")
    rest = rest.strip()
    if rest.startswith("[") and "]" in rest:
        return f"oracle:{t}:{rest[1:rest.index(']')]}"
    return f"oracle:{t}:{rest[:60].replace(' ', '_')}"
