import os
ROOT = os.path.dirname(os.path.dirname(os.path.abspath(__file__)))
NVH = os.path.join(ROOT, "harness", "target", "debug", "nvh")
DRIVER = os.path.join(ROOT, "lean", ".lake", "build", "bin", "driver")
