import Narwhal.Model.Direct
import Driver.Srv
/-! Driver for suite `direct` (C17). -/
namespace Driver.Dr
open Narwhal.Direct

structure St where
  cfg    : Cfg := { hasMod := false, sendPrivate := false, maxPayload := 0 }
  domain : Str := []
  rt     : Router := []

def kv (toks : List String) (k : String) : String :=
  match toks.find? (fun t => t.startsWith (k ++ "=")) with
  | some t => (t.drop (k.length + 1)).toString
  | none => ""

def parseRouter (s : String) : Router :=
  (s.splitOn ";").filterMap (fun ent =>
    match ent.splitOn "=" with
    | [u, ks] => some (u.toList, (ks.splitOn ",").filterMap String.toNat?)
    | _ => none)

def unhexStr (h : String) : Str :=
  match Driver.Srv.hexBytes h.toList with
  | some bs => (String.fromUTF8? (ByteArray.mk bs.toArray)).getD "?" |>.toList
  | none => []

def unhexBytes (h : String) : Payload := (Driver.Srv.hexBytes h.toList).getD []

def insertSorted (x : Nat × String) : List (Nat × String) → List (Nat × String)
  | [] => [x]
  | y :: ys => if x.1 ≤ y.1 then x :: y :: ys else y :: insertSorted x ys

def handle (st : St) (line : String) : St × Option String :=
  let toks := line.trimAscii.toString.splitOn " "
  match toks with
  | "cfg" :: rest =>
    ({ st with cfg := { hasMod := kv rest "hasmod" == "1", sendPrivate := kv rest "sendprivate" == "1",
                        maxPayload := (kv rest "maxpayload").toNat?.getD 0 },
               domain := (kv rest "domain").toList }, none)
  | ["router", r] => ({ st with rt := parseRouter r }, none)
  | ["router"] => ({ st with rt := [] }, none)
  | ["m2s", id, targets, payload] =>
    let ts := if targets == "-" then [] else (targets.splitOn ",").map unhexStr
    let p := unhexBytes payload
    let (ds, ack) := m2sDirect st.rt st.domain (id.toNat?.getD 0) ts p
    let ents := (ds.map (fun d => (d.conn, s!"{d.conn}:MOD_DIRECT from={String.ofList d.frm} #{Driver.Srv.toHex d.payload}"))).foldr insertSorted []
    (st, some ("obs " ++ " | ".intercalate (s!"ack={ack}" :: ents.map (·.2))))
  | ["c2s", user, id, payload, outcome] =>
    let o := if outcome == "valid" then Outcome.valid else if outcome == "invalid" then Outcome.invalid else Outcome.failed
    let (r, call) := c2sDirect st.cfg (unhexStr user) (id.toNat?) (unhexBytes payload) o
    let rs := match r with
      | .ack i => s!"MOD_DIRECT_ACK id={i}"
      | .error (some i) reason c => s!"ERROR id={i} reason={reason}" ++ (if c then " closed" else "")
      | .error none reason c => s!"ERROR reason={reason}" ++ (if c then " closed" else "")
    let cs := match call with
      | some (f, p) => s!"call={String.ofList f}|{Driver.Srv.toHex p}"
      | none => "call=-"
    (st, some s!"obs {rs} | {cs}")
  | _ => (st, none)

end Driver.Dr
