import Driver.Srv
import Driver.Rd
import Driver.Wr
import Driver.Pl
import Driver.Cl
import Driver.Cd
import Driver.Dr
import Driver.Sm
import Driver.Tm
import Driver.Lm
import Driver.Lk
import Driver.Mi
import Driver.Rb
/-! `driver <suite>`: reads a transcript on stdin, prints the model's `obs` line for every `op` line. -/

partial def loopSrv (h : IO.FS.Stream) (out : IO.FS.Stream) (st : Driver.Srv.St) : IO Unit := do
  let line ← h.getLine
  if line.isEmpty then return ()
  let (st', o) := Driver.Srv.handle st line
  match o with
  | some l => out.putStrLn l
  | none => pure ()
  loopSrv h out st'

partial def loopRd (h : IO.FS.Stream) (out : IO.FS.Stream) (st : Driver.Rd.St) : IO Unit := do
  let line ← h.getLine
  if line.isEmpty then return ()
  let (st', o) := Driver.Rd.handle st line
  match o with
  | some l => out.putStrLn l
  | none => pure ()
  loopRd h out st'

partial def loopPl (h : IO.FS.Stream) (out : IO.FS.Stream) (st : Driver.Pl.St) : IO Unit := do
  let line ← h.getLine
  if line.isEmpty then return ()
  let (st', o) := Driver.Pl.handle st line
  match o with
  | some l => out.putStrLn l
  | none => pure ()
  loopPl h out st'

partial def loopCl (h : IO.FS.Stream) (out : IO.FS.Stream) (st : Driver.Cl.St × List Nat) : IO Unit := do
  let line ← h.getLine
  if line.isEmpty then return ()
  let (st', o) := Driver.Cl.handle st line
  match o with
  | some l => out.putStrLn l
  | none => pure ()
  loopCl h out st'

partial def loopDr (h : IO.FS.Stream) (out : IO.FS.Stream) (st : Driver.Dr.St) : IO Unit := do
  let line ← h.getLine
  if line.isEmpty then return ()
  let (st', o) := Driver.Dr.handle st line
  match o with
  | some l => out.putStrLn l
  | none => pure ()
  loopDr h out st'

partial def loopTm (h : IO.FS.Stream) (out : IO.FS.Stream) (st : Driver.Tm.St) : IO Unit := do
  let line ← h.getLine
  if line.isEmpty then return ()
  let (st', o) := Driver.Tm.handle st line
  match o with
  | some l => out.putStrLn l
  | none => pure ()
  loopTm h out st'

partial def loopLm (h : IO.FS.Stream) (out : IO.FS.Stream) (st : Narwhal.Limits.St) : IO Unit := do
  let line ← h.getLine
  if line.isEmpty then return ()
  let (st', o) := Driver.Lm.handle st line
  match o with
  | some l => out.putStrLn l
  | none => pure ()
  loopLm h out st'

partial def loopLk (h : IO.FS.Stream) (out : IO.FS.Stream) (st : Driver.Lk.St) : IO Unit := do
  let line ← h.getLine
  if line.isEmpty then return ()
  let (st', o) := Driver.Lk.handle st line
  match o with
  | some l => out.putStrLn l
  | none => pure ()
  loopLk h out st'

partial def loopMi (h : IO.FS.Stream) (out : IO.FS.Stream) (st : Driver.Mi.St) : IO Unit := do
  let line ← h.getLine
  if line.isEmpty then return ()
  let (st', o) := Driver.Mi.handle st line
  match o with
  | some l => out.putStrLn l
  | none => pure ()
  loopMi h out st'

partial def loopRb (h : IO.FS.Stream) (out : IO.FS.Stream) (st : Driver.Rb.St) : IO Unit := do
  let line ← h.getLine
  if line.isEmpty then return ()
  let (st', o) := Driver.Rb.handle st line
  match o with
  | some l => out.putStrLn l
  | none => pure ()
  loopRb h out st'

partial def loopStateless (h : IO.FS.Stream) (out : IO.FS.Stream) (f : String → Option String) : IO Unit := do
  let line ← h.getLine
  if line.isEmpty then return ()
  match f line with
  | some l => out.putStrLn l
  | none => pure ()
  loopStateless h out f

def main (args : List String) : IO UInt32 := do
  let stdin ← IO.getStdin
  let stdout ← IO.getStdout
  match args with
  | ["srv"] => loopSrv stdin stdout {}; return 0
  | ["reader"] => loopRd stdin stdout {}; return 0
  | ["client"] => loopCl stdin stdout ({}, []); return 0
  | ["pool"] => loopPl stdin stdout {}; return 0
  | ["direct"] => loopDr stdin stdout {}; return 0
  | ["links"] => loopLk stdin stdout {}; return 0
  | ["limits"] => loopLm stdin stdout { maxConn := 0, inflight := 0, conns := [] }; return 0
  | ["timers"] => loopTm stdin stdout {}; return 0
  | ["micro"] => loopMi stdin stdout {}; return 0
  | ["readers"] => loopRb stdin stdout {}; return 0
  | ["s2m"] => loopStateless stdin stdout Driver.Sm.handle; return 0
  | ["codec"] => loopStateless stdin stdout Driver.Cd.handle; return 0
  | ["writer"] => loopStateless stdin stdout Driver.Wr.handle; return 0
  | _ => IO.eprintln "usage: driver <suite>"; return 2
