import Narwhal.Model.S2m
import Driver.Srv
/-! Driver for suite `s2m`. Lines: `s2m auth|payload|event <reply>`; reply =
    `authack:<0|1>:<user|->:<challenge|->` | `payack:<0|1>:<none|intact:<hex>|broken>` | `evack` | `error` | `other` | `nothing` -/
namespace Driver.Sm
open Narwhal.S2m

def opt (s : String) : Option Str := if s == "-" then none else some s.toList

def parseReply (s : String) : Option Reply :=
  match s.splitOn ":" with
  | ["authack", b, u, c] => some (.authAck (b == "1") (opt u) (opt c))
  | ["payack", b, "none"] => some (.payloadAck (b == "1") .none)
  | ["payack", b, "broken"] => some (.payloadAck (b == "1") .broken)
  | ["payack", b, "intact", h] => some (.payloadAck (b == "1") (.intact ((Driver.Srv.hexBytes h.toList).getD [])))
  | ["evack"] => some .eventAck
  | ["error"] => some .error
  | ["other"] => some .otherKind
  | ["nothing"] => some .nothing
  | _ => none

def handle (line : String) : Option String :=
  match line.trimAscii.toString.splitOn " " with
  | ["s2m", what, r] =>
    match parseReply r with
    | none => some "obs bad-op"
    | some rep =>
      if what == "auth" then
        some (match mapAuth rep with
          | .success u => s!"obs success:{String.ofList u}"
          | .continue_ c => s!"obs continue:{String.ofList c}"
          | .failure => "obs failure"
          | .err => "obs err")
      else if what == "payload" then
        some (match mapPayload rep with
          | .valid => "obs valid"
          | .altered p => s!"obs altered:{Driver.Srv.toHex p}"
          | .invalid => "obs invalid"
          | .err => "obs err")
      else some (if mapEvent rep then "obs ok" else "obs err")
  | _ => none

end Driver.Sm
