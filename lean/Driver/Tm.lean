import Narwhal.Model.Timers
import Driver.Srv
/-! Driver for suite `timers` (C20): every connection of a case is one timed automaton; `adv` lets expiries happen. -/
namespace Driver.Tm
open Narwhal.Timers

structure St where
  cfg   : Cfg := { link := .c2s, connectTimeout := 1, authTimeout := 1, keepAlive := 1, minKeepAlive := 1 }
  now   : Nat := 0
  conns : List (Nat × Narwhal.Timers.St × Nat) := []     -- connection, its state, number of `out` entries already printed

def kv (toks : List String) (k : String) : String :=
  match toks.find? (fun t => t.startsWith (k ++ "=")) with
  | some t => (t.drop (k.length + 1)).toString
  | none => ""

def reasonStr : Reason → String
  | .timeoutConnect => "TIMEOUT(connection)" | .timeoutAuth => "TIMEOUT(authentication)" | .timeoutPing => "TIMEOUT(ping)"
  | .badRequest => "BAD_REQUEST" | .shuttingDown => "SERVER_SHUTTING_DOWN" | .unexpected => "UNEXPECTED_MESSAGE"

def frameStr : Frame → String
  | .ack hb => s!"ACK hb={hb}" | .authOk => "AUTH_OK" | .authRetry => "AUTH_RETRY" | .reply => "REPLY"
  | .ping n => s!"PING#{n}" | .pushed => "PUSH" | .error r => "ERROR " ++ reasonStr r | .eof => "EOF"

/-- print what each connection wrote since the last observation -/
def flush (st : St) (pre : List String) : St × String :=
  let (conns, items) := st.conns.foldl (fun (acc : List (Nat × Narwhal.Timers.St × Nat) × List String) c =>
      let (k, s, n) := c
      let fresh := (s.out.drop n).map (fun (p : Nat × Frame) => s!"{k}@{p.1}:{frameStr p.2}")
      (acc.1 ++ [(k, s, s.out.length)], acc.2 ++ fresh)) ([], [])
  ({ st with conns := conns }, "obs " ++ " | ".intercalate (pre ++ items))

def onConn (st : St) (k : Nat) (f : Narwhal.Timers.St → Narwhal.Timers.St) : St :=
  { st with conns := st.conns.map (fun c => if c.1 == k then (c.1, f c.2.1, c.2.2) else c) }

def insertConn (l : List (Nat × Narwhal.Timers.St × Nat)) (c : Nat × Narwhal.Timers.St × Nat) :=
  match l with
  | [] => [c]
  | x :: xs => if c.1 < x.1 then c :: x :: xs else x :: insertConn xs c

def handle (st : St) (line : String) : St × Option String :=
  match Driver.Srv.words line with
  | "tcfg" :: toks =>
    let n (k : String) := (kv toks k).toNat?.getD 0
    let link := if kv toks "link" == "s2m" then Link.s2m else if kv toks "link" == "m2s" then Link.m2s else Link.c2s
    ({ cfg := { link := link, connectTimeout := n "ct", authTimeout := n "at", keepAlive := n "ka", minKeepAlive := n "minka" } }, none)
  | ["t", "open", k] =>
    let k := k.toNat?.getD 0
    let (st', o) := flush { st with conns := insertConn st.conns (k, init st.cfg st.now, 0) } []
    (st', some o)
  | ["t", "open"] =>
    let k := st.conns.length + 1
    let (st', o) := flush { st with conns := insertConn st.conns (k, init st.cfg st.now, 0) } []
    (st', some o)
  | ["t", "adv", dt] =>
    let dt := dt.toNat?.getD 0
    let t := st.now + dt
    let st1 := { st with now := t, conns := st.conns.map (fun c => (c.1, advance (dt + 2) c.2.1 t, c.2.2)) }
    let (st', o) := flush st1 []
    (st', some o)
  | ["t", "connect", k, hb] =>
    let (st', o) := flush (onConn st (k.toNat?.getD 0) (fun s => step s (.connect (hb.toNat?.getD 0)))) []
    (st', some o)
  | ["t", "auth", k, how] =>
    let (st', o) := flush (onConn st (k.toNat?.getD 0) (fun s => step s (if how == "ok" then .authOk else .authRetry))) []
    (st', some o)
  | ["t", "req", k] =>
    let (st', o) := flush (onConn st (k.toNat?.getD 0) (fun s => step s .request)) []
    (st', some o)
  | ["t", "pong", k, n] =>
    let (st', o) := flush (onConn st (k.toNat?.getD 0) (fun s => step s (.pong (n.toNat?.getD 0)))) []
    (st', some o)
  | ["t", "push", k] =>
    let (st', o) := flush (onConn st (k.toNat?.getD 0) (fun s => step s .deliver)) []
    (st', some o)
  | ["t", "close", k] =>
    let (st', o) := flush (onConn st (k.toNat?.getD 0) (fun s => step s .peerClose)) []
    (st', some o)
  | ["t", "shutdown"] =>
    let st1 := { st with conns := st.conns.map (fun c => (c.1, step c.2.1 .shutdown, c.2.2)) }
    let complete := st1.conns.all (fun c => c.2.1.closed)
    let (st', o) := flush st1 [s!"0@{st.now}:complete={if complete then 1 else 0}"]
    (st', some o)
  | _ => (st, none)

end Driver.Tm
