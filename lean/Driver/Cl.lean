import Narwhal.Model.Client
import Driver.Srv
/-! Driver for suite `client`: the request engine under a scripted peer and virtual time. -/
namespace Driver.Cl
open Narwhal.Client

structure St where
  eng : Narwhal.Client.St := init 1
  timeout : Nat := 100
  now : Nat := 0
  deadlines : List (Nat × Nat) := []   -- (id, deadline), submission order
  order : List Nat := []               -- submission order of ids (FIFO semaphore queue)

/-- deadline of a request still in the table -/
def deadlineOf (st : List (Nat × Nat)) (id : Nat) : Option Nat := (st.find? (·.1 == id)).map (·.2)

/-- Which waiter a released permit wakes is up to async-lock's event listener (not FIFO in general): the grants
    the implementation made during a step are oracle inputs, applied here in its order and validated for
    admissibility (the request is waiting, not yet past its deadline, and a permit is free).  `fuel` bounds the loop. -/
def settle : Nat → St → List Nat → St × List Nat
  | 0, st, g => (st, g)
  | fuel + 1, st, g =>
    match g with
    | id :: rest =>
      if get st.eng.reqs id = some .waiting ∧ st.eng.permits > 0 then
        settle fuel { st with eng := step st.eng (.grant id) } rest
      else
        -- not admissible yet: let the earliest due timeout fire first
        match (st.deadlines.filter (fun p => p.2 ≤ st.now)) with
        | [] => (st, g)
        | p :: _ =>
          settle fuel { st with eng := step st.eng (.timeout p.1), deadlines := st.deadlines.filter (·.1 != p.1) } g
    | [] =>
      match (st.deadlines.filter (fun p => p.2 ≤ st.now)) with
      | [] => (st, [])
      | p :: _ =>
        settle fuel { st with eng := step st.eng (.timeout p.1), deadlines := st.deadlines.filter (·.1 != p.1) } []

def showState : RState → String
  | .waiting => "pending" | .inflight => "pending" | .answered r => s!"ok:{r}" | .completed r => s!"ok:{r}" | .timedOut => "timeout"

def obs (st : St) : String :=
  let res := st.order.map (fun id => s!"{id}={match get st.eng.reqs id with | some s => showState s | none => "?"}")
  s!"written={st.eng.written} pongs={st.eng.pongs} results=[{" ".intercalate res}]"

def finishStep (st : St) (ms : Nat) (grants : List Nat) : St × String :=
  let (st2, left) := settle (st.deadlines.length + grants.length + 4) { st with now := st.now + ms } grants
  (st2, "obs " ++ obs st2 ++ (if left.isEmpty then "" else s!" INADMISSIBLE-GRANT {left}"))

structure Pending where
  grants : List Nat := []

def handle (stp : St × List Nat) (line : String) : (St × List Nat) × Option String :=
  let (st, grants) := stp
  match Driver.Srv.words line with
  | ["ccfg", m, t] => (({ eng := init (m.toNat?.getD 1), timeout := t.toNat?.getD 100 }, []), none)
  | "granted" :: ids => ((st, ids.filterMap String.toNat?), none)
  | ["req", id, dt] =>
    let i := id.toNat?.getD 0
    let st1 := { st with eng := step st.eng (.submit i), order := st.order ++ [i], deadlines := st.deadlines ++ [(i, st.now + st.timeout)] }
    let (st2, o) := finishStep st1 (dt.toNat?.getD 1) grants
    ((st2, []), some o)
  | ["reply", id, r, dt] =>
    let i := id.toNat?.getD 0
    let e1 := step (step st.eng (.reply i (r.toNat?.getD 0))) (.finish i)
    let done := match get e1.reqs i with | some (.completed _) => true | _ => false
    let st1 := { st with eng := e1, deadlines := if done then st.deadlines.filter (·.1 != i) else st.deadlines }
    let (st2, o) := finishStep st1 (dt.toNat?.getD 1) grants
    ((st2, []), some o)
  | ["ping", id, dt] =>
    let st1 := { st with eng := step st.eng (.ping (id.toNat?.getD 0)) }
    let (st2, o) := finishStep st1 (dt.toNat?.getD 1) grants
    ((st2, []), some o)
  | ["advance", ms] =>
    let (st2, o) := finishStep st (ms.toNat?.getD 0) grants
    ((st2, []), some o)
  | _ => ((st, grants), none)

end Driver.Cl
