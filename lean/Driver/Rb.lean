import Narwhal.Model.MicroB
import Driver.Mi
/-! Driver for suite `readers` (C01 / C02 / C04): replays a schedule of writer micro-steps and reader steps on `Narwhal.MicroB` and
    prints, after each compared step, either the writers that are suspended (`st …`) or the state of a reader (`rd …`). -/
namespace Driver.Rb
open Narwhal.MicroB

structure St where
  s : Narwhal.MicroB.St := Narwhal.MicroB.init true
  ntasks : Nat := 0

def readerStr (rd : Reader) : String :=
  match rd.pc, rd.res with
  | .done, some .notFound => "rd notfound"
  | .done, some .notMember => "rd notmember"
  | .done, some (.ok ms) => "rd ok:" ++ Driver.Mi.joinNats ms
  | .done, none => "rd idle"
  | _, _ => "rd wait"

/-- a writer label in the syntax of the `micro` suite -/
def applyBase (st : St) (toks : List String) : St :=
  let m : Driver.Mi.St := { s := st.s.base, ntasks := st.ntasks }
  let m' := Driver.Mi.apply m toks
  -- `Driver.Mi.apply` is `Micro.step` on the writers' state
  { s := { st.s with base := m'.s }, ntasks := m'.ntasks }

def handle (st : St) (line : String) : St × Option String :=
  match Driver.Srv.words line with
  | "case" :: _ => ({}, none)
  | ["bj", "rspawn", r, u, n] =>
    ({ st with s := step st.s (.rspawn (r.toNat?.getD 0) (u.toNat?.getD 0) (n.toNat?.getD 0)) }, none)
  | ["bj", "rrun", r] => ({ st with s := step st.s (.rrun (r.toNat?.getD 0)) }, none)
  | "bj" :: toks => (applyBase st toks, none)
  | ["bi", "rrun", r] =>
    let r := r.toNat?.getD 0
    let s' := step st.s (.rrun r)
    ({ st with s := s' }, some ("obs " ++ readerStr (s'.readers r)))
  | "bi" :: toks =>
    let st' := applyBase st toks
    (st', some ("obs " ++ Driver.Mi.status st'.s.base st'.ntasks))
  | _ => (st, none)

end Driver.Rb
