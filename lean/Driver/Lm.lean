import Narwhal.Model.Limits
import Driver.Srv
/-! Driver for suite `limits` (C14): connection admission, in-flight gate, slot release. -/
namespace Driver.Lm
open Narwhal.Limits

def kv (toks : List String) (k : String) : String :=
  match toks.find? (fun t => t.startsWith (k ++ "=")) with
  | some t => (t.drop (k.length + 1)).toString
  | none => ""

def statsLine (s : St) : String :=
  s!"active={s.conns.length} msg_inuse={s.conns.length} payload_inuse=0"

def handle (st : St) (line : String) : St × Option String :=
  match Driver.Srv.words line with
  | "lcfg" :: toks =>
    ({ maxConn := (kv toks "maxconn").toNat?.getD 0, inflight := (kv toks "inflight").toNat?.getD 0, conns := [] }, none)
  | ["l", "open", k] =>
    let (s', ok) := openConn st (k.toNat?.getD 0)
    (s', some (if ok then "obs admitted" else "obs refused exact=1"))
  | ["l", "hs", k] =>
    let k := k.toNat?.getD 0
    if st.conns.any (fun c => c.id == k) then (handshake st k, some "obs ok") else (st, some "obs failed")
  | ["l", "burst", k, n] =>
    let (s', ex, eof) := burst st (k.toNat?.getD 0) (n.toNat?.getD 0)
    (s', some s!"obs executing={ex} eof={if eof then 1 else 0} errors=0")
  | ["l", "fails", k, n] =>
    let (s', ex, eof) := failing st (k.toNat?.getD 0) (n.toNat?.getD 0)
    (s', some s!"obs executing={ex} eof={if eof then 1 else 0} errors={n.toNat?.getD 0}")
  | ["l", "release"] =>
    let (s', n) := release st
    (s', some s!"obs acks={n}")
  | ["l", "close", k, _] =>
    let s' := closeConn st (k.toNat?.getD 0)
    (s', some ("obs " ++ statsLine s'))
  | ["l", "stats"] => (st, some ("obs " ++ statsLine st))
  | ["l", "closeall"] =>
    let s' := { st with conns := [] }
    (s', some ("obs " ++ statsLine s'))
  | _ => (st, none)

end Driver.Lm
