import Narwhal.Generated.Schema
import Driver.Srv
/-! Driver for suite `codec`.
    `dec <hex>`  : the line (without LF) through `decode`; a decoded message is shown by its canonical re-encoding
    `encs <hex>` : `IDENTIFY username=<value>` through `encode` (arbitrary UTF-8 strings straight into `fmt_param`) -/
namespace Driver.Cd
open Narwhal.Codec Narwhal.Generated

def natsOfHex (h : String) : Option (List Nat) := (Driver.Srv.hexBytes h.toList).map (·.map (·.toNat))
def hexOfNats (bs : List Nat) : String := Driver.Srv.toHex (bs.map UInt8.ofNat)

def cap : Nat := 65536

def identifyKind : Nat := (findSpec schema [73, 68, 69, 78, 84, 73, 70, 89] 0).map (·.1) |>.getD 0

def handle (line : String) : Option String :=
  match line.trimAscii.toString.splitOn " " with
  | ["dec"] =>
      match decode schema [] with
      | .error _ => some "obs err"
      | .ok _ => some "obs ok?"
  | ["dec", h] =>
    match natsOfHex h with
    | none => some "obs bad-op"
    | some bs =>
      match decode schema bs with
      | .error .panic => some "obs PANIC"
      | .error _ => some "obs err"
      | .ok m =>
        match encode schema cap m with
        | .ok l => some s!"obs ok {hexOfNats l}"
        | .error _ => some s!"obs ok-unencodable kind={m.kind}"
  | ["encs", h] =>
    match natsOfHex h with
    | none => some "obs bad-op"
    | some bs =>
      match encode schema cap { kind := identifyKind, vals := [.reg (.str bs)] } with
      | .ok l => some s!"obs ok {hexOfNats l}"
      | .error _ => some "obs err"
  | ["encs"] =>
      match encode schema cap { kind := identifyKind, vals := [.reg (.str [])] } with
      | .ok l => some s!"obs ok {hexOfNats l}"
      | .error _ => some "obs err"
  | _ => none

end Driver.Cd
