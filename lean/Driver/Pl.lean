import Narwhal.Model.Pool
import Driver.Srv
/-! Driver for suite `pool`: high-level pool operations composed of the model's micro-steps. -/
namespace Driver.Pl
open Narwhal.Pool

structure St where
  pool : Narwhal.Pool.St := init 0
  /-- harness handle number ↦ buffer id (a handle is one `MutablePoolBuffer` or one `PoolBuffer` clone) -/
  handles : List (Nat × Nat) := []
  next : Nat := 0
  buckets : List (Nat × Nat) := []     -- (count, size) ascending, for `bpool`

def look (h : List (Nat × Nat)) (k : Nat) : Option Nat := (h.find? (·.1 == k)).map (·.2)

def obs (s : Narwhal.Pool.St) : String := s!"avail={available s} inuse={inUse s}"

def steps (s : Narwhal.Pool.St) (l : List Step) : Option Narwhal.Pool.St :=
  match run s l with
  | .ok s' => some s'
  | _ => none

def handle (st : St) (line : String) : St × Option String :=
  match Driver.Srv.words line with
  | ["pool", "new", n] =>
    let k := n.toNat?.getD 0
    ({ pool := init k, handles := [], next := 0 }, some ("obs " ++ obs (init k)))
  | ["pool", "acq"] =>
    -- `acquire_buffer`: permit then pop; BLOCK when no permit
    match step st.pool .permit with
    | .ok s1 =>
      (match step s1 .pop with
       | .ok s2 =>
         let id := s2.muts.headD 0
         ({ st with pool := s2, handles := (st.next, id) :: st.handles, next := st.next + 1 }, some s!"obs h{st.next} {obs s2}")
       | .panic => (st, some "obs PANIC")
       | .disabled => (st, some "obs MODEL-STUCK"))
    | _ => (st, some ("obs BLOCK " ++ obs st.pool))
  | ["pool", "freeze", h] =>
    match look st.handles (h.toNat?.getD 0) with
    | some id => (match steps st.pool [.freeze id] with
        | some s => ({ st with pool := s }, some ("obs " ++ obs s)) | none => (st, some "obs MODEL-STUCK"))
    | none => (st, some "obs BAD-HANDLE")
  | ["pool", "clone", h] =>
    match look st.handles (h.toNat?.getD 0) with
    | some id => (match steps st.pool [.clone id] with
        | some s => ({ st with pool := s, handles := (st.next, id) :: st.handles, next := st.next + 1 }, some s!"obs h{st.next} {obs s}")
        | none => (st, some "obs MODEL-STUCK"))
    | none => (st, some "obs BAD-HANDLE")
  | ["pool", "drop", h] =>
    let k := h.toNat?.getD 0
    match look st.handles k with
    | some id =>
      let isMut := id ∈ st.pool.muts
      let seq := if isMut then [Step.dropMut id, .releasePermit] else [Step.dropShared id, .releasePermit]
      (match steps st.pool seq with
       | some s => ({ st with pool := s, handles := st.handles.filter (·.1 != k) }, some ("obs " ++ obs s))
       | none => (st, some "obs MODEL-STUCK"))
    | none => (st, some "obs BAD-HANDLE")
  | "pool" :: "release" :: hs =>
    -- `release_buffers`: each handle is taken (last handle: buffer pushed back), then one `add_permits(n)`
    let ks := hs.filterMap String.toNat?
    let ids := ks.filterMap (look st.handles)
    let s1 := ids.foldl (fun (acc : Option Narwhal.Pool.St) id => acc.bind (fun s => steps s [.batchTake id])) (some st.pool)
    match s1 with
    | some s1 =>
      (match steps s1 [.batchAdd s1.pendingAdd] with
       | some s2 => ({ st with pool := s2, handles := st.handles.filter (fun p => !(ks.contains p.1)) }, some ("obs " ++ obs s2))
       | none => (st, some "obs MODEL-STUCK"))
    | none => (st, some "obs MODEL-STUCK")
  | ["bpool", "new", mn, mx, budget, cap, g] =>
    let n (t : String) := t.toNat?.getD 0
    let geo := geometry (n mn) (n mx) (n budget) (n cap) (n g)
    ({ st with buckets := geo }, some ("obs " ++ " ".intercalate (geo.map (fun p => s!"{p.1}x{p.2}"))))
  | ["cpool", "new", conns, maxp, budget] =>
    let n (t : String) := t.toNat?.getD 0
    let geo := connGeometry (n conns) (n maxp) (n budget)
    ({ st with buckets := geo }, some ("obs " ++ " ".intercalate (geo.map (fun p => s!"{p.1}x{p.2}"))))
  | "bpool" :: "choose" :: req :: avail =>
    -- avail: current available count per bucket (ascending), same order as the geometry
    let av := avail.filterMap String.toNat?
    let bs := (st.buckets.zip av).map (fun (p : (Nat × Nat) × Nat) => (p.1.2, p.2))
    match choose bs (req.toNat?.getD 0) with
    | .take sz => (st, some s!"obs take {sz}")
    | .block _ => (st, some "obs block")
    | .none => (st, some "obs none")
  | _ => (st, none)

end Driver.Pl
