import Narwhal.Model.Micro
import Driver.Srv
/-! Driver for suite `micro` (C05): replays a schedule of micro-steps on `Narwhal.Micro` and prints, after each compared
    step, which tasks are suspended holding a lock (`P`) or waiting for one (`W`), and at `views` the two listings. -/
namespace Driver.Mi
open Narwhal.Micro

structure St where
  s : Narwhal.Micro.St := Narwhal.Micro.init true
  ntasks : Nat := 0

def status (s : Narwhal.Micro.St) (n : Nat) : String :=
  let items := (List.range n).filterMap (fun t =>
    match (s.tasks t).pc with
    | .jNotify _ | .lNotify _ | .lHandover _ => some s!"{t}:P"
    | .jWait _ | .lWait _ => some s!"{t}:W"
    | .start => some s!"{t}:S"
    | .done => none)
  "st " ++ ",".intercalate items

def nats (t : String) : List Nat := (t.splitOn ",").filterMap String.toNat?

def sortNat (l : List Nat) : List Nat := l.foldr (fun x acc => (acc.filter (· < x)) ++ [x] ++ (acc.filter (· ≥ x))) []

def joinNats (l : List Nat) : String := ",".intercalate ((sortNat l).map toString)

def views (s : Narwhal.Micro.St) (live chans : List Nat) : String :=
  let idx := live.map (fun u => s!"{u}={joinNats (s.index u)}")
  let mem := chans.map (fun n => match s.map n with
    | some o => s!"{n}={joinNats (s.objs o).members}"
    | none => s!"{n}=-")
  "views idx:" ++ ";".intercalate idx ++ " mem:" ++ ";".intercalate mem

def envOf (toks : List String) : Env :=
  { accept := !toks.contains "refuse", ok := !toks.contains "fail", cancel := toks.contains "cancel", owner := toks.contains "owner" }

/-- position of the (first) clean-up record of user `u` -/
def restIdx (l : List (User × List Name)) (u : User) : Nat := (l.findIdx? (fun p => p.1 == u)).getD l.length

def apply (st : St) (toks : List String) : St :=
  match toks with
  | ["spawn", t, "join", u, n] =>
    let t := t.toNat?.getD 0
    { s := step st.s (.spawn t .join (u.toNat?.getD 0) (n.toNat?.getD 0)), ntasks := max st.ntasks (t + 1) }
  | ["spawn", t, "leave", u, n] =>
    let t := t.toNat?.getD 0
    { s := step st.s (.spawn t (.leave true) (u.toNat?.getD 0) (n.toNat?.getD 0)), ntasks := max st.ntasks (t + 1) }
  | "run" :: t :: rest => { st with s := step st.s (.run (t.toNat?.getD 0) (envOf rest)) }
  | ["cleanup", u] => { st with s := step st.s (.cleanup (u.toNat?.getD 0)) }
  | ["next", u, n, t] =>
    let t := t.toNat?.getD 0
    { s := step st.s (.cleanupNext (restIdx st.s.rests (u.toNat?.getD 0)) (n.toNat?.getD 0) t), ntasks := max st.ntasks (t + 1) }
  | _ => st

def handle (st : St) (line : String) : St × Option String :=
  match Driver.Srv.words line with
  | "case" :: _ => ({}, none)
  | "mj" :: toks => (apply st toks, none)                         -- a step whose effect is observed only with the next `mi` line
  | ["mi", "views", live, chans] => (st, some ("obs " ++ views st.s (nats live) (nats chans)))
  | "mi" :: toks =>
    let st' := apply st toks
    (st', some ("obs " ++ status st'.s st'.ntasks))
  | _ => (st, none)

end Driver.Mi
