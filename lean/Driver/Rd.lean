import Narwhal.Model.Reader
import Driver.Srv
/-! Driver for suite `reader`: replays a segmentation on the frame-reader model. -/
namespace Driver.Rd
open Narwhal.Reader

def bytesOfString (s : String) : List Byte := s.toUTF8.toList
def stringOfBytes (b : List Byte) : String := (String.fromUTF8? (ByteArray.mk b.toArray)).getD "?"

/-- header interpretation for the restricted header menu of the `reader` suite:
    `PING id=<n>` plain; `BROADCAST id=<n> channel=!c@localhost length=<L>` payload L (L ≥ 1); anything else bad -/
def hdrSimple (line : List Byte) : Hdr :=
  let toks := ((stringOfBytes line).splitOn " ").filter (· != "")
  match toks with
  | ["PING", idt] =>
    (match idt.splitOn "=" with
     | ["id", n] => (match n.toNat? with | some k => if k ≥ 1 && k < 4294967296 then .plain else .bad | none => .bad)
     | _ => .bad)
  | ["BROADCAST", idt, "channel=!c@localhost", lt] =>
    (match idt.splitOn "=", lt.splitOn "=" with
     | ["id", n], ["length", l] =>
       (match n.toNat?, l.toNat? with
        | some k, some len => if k ≥ 1 && k < 4294967296 && len ≥ 1 && len < 4294967296 then .payload len else .bad
        | _, _ => .bad)
     | _, _ => .bad)
  | _ => .bad

def evStr : Ev → String
  | .msg l p =>
    let toks := ((stringOfBytes l).splitOn " ").filter (· != "")
    let kind := toks.headD "?"
    let id := (toks.drop 1).headD "?"
    s!"M:{kind}:{id}:" ++ (match p with | some b => Driver.Srv.toHex b | none => "-")
  | .closedTooLong => "E:toolong"
  | .closedBadRequest => "E:badreq"
  | .closedPayloadTooLarge => "E:paytoolarge"
  | .closedBadTerminator => "E:badterm"
  | .closedTruncated => "E:truncated"
  | .eof => "E:eof"

def sevStr : SEv → String
  | .ev e => evStr e
  | .closedPayloadTimeout => "E:paytimeout"
  | .waiting => "E:waiting"

structure St where
  cap : Nat := 64
  maxPayload : Nat := 32

def handle (st : St) (line : String) : St × Option String :=
  match Driver.Srv.words line with
  | "rcfg" :: toks =>
    let n (k : String) (d : Nat) : Nat := ((Driver.Srv.kv toks k) >>= String.toNat?).getD d
    ({ cap := n "cap" 64, maxPayload := n "maxpayload" 32 }, none)
  | "chunks" :: toks =>
    let cs : Option (List (List Byte)) := (toks.filter (· != "-")).mapM Driver.Srv.xBytes
    match cs with
    | none => (st, some "obs BAD-CHUNKS")
    | some cs =>
      let total := (cs.map List.length).sum
      let evs := frames st.cap st.maxPayload hdrSimple (total + 2) init cs
      let sp := spec st.cap st.maxPayload hdrSimple (total + 2) cs.flatten
      (st, some ("obs " ++ " ".intercalate (evs.map evStr) ++ (if evs == sp then "" else " SPEC-DIFFERS " ++ " ".intercalate (sp.map evStr))))
  | "stall" :: toks =>
    let cs : Option (List (List Byte)) := (toks.filter (· != "-")).mapM Driver.Srv.xBytes
    match cs with
    | none => (st, some "obs BAD-CHUNKS")
    | some cs =>
      let total := (cs.map List.length).sum
      let evs := stallView (frames st.cap st.maxPayload hdrSimple (total + 2) init cs)
      let sp := stallView (spec st.cap st.maxPayload hdrSimple (total + 2) cs.flatten)
      (st, some ("obs " ++ " ".intercalate (evs.map sevStr) ++ (if evs == sp then "" else " SPEC-DIFFERS " ++ " ".intercalate (sp.map sevStr))))
  | _ => (st, none)

end Driver.Rd
