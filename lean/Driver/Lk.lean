import Narwhal.Model.Links
import Driver.Srv
/-! Driver for suite `links` (C06): S2M / M2S handshakes. -/
namespace Driver.Lk
open Narwhal.Links

structure St where
  cfg   : Cfg := { link := .s2m, secret := none }
  conns : List (Nat × Bool) := []      -- connection ↦ authenticated

def kv (toks : List String) (k : String) : String :=
  match toks.find? (fun t => t.startsWith (k ++ "=")) with
  | some t => (t.drop (k.length + 1)).toString
  | none => ""

def unhexS (h : String) : String :=
  match Driver.Srv.hexBytes h.toList with
  | some bs => (String.fromUTF8? (ByteArray.mk bs.toArray)).getD "?"
  | none => "?"

def handle (st : St) (line : String) : St × Option String :=
  match Driver.Srv.words line with
  | "kcfg" :: toks =>
    let sec := kv toks "secret"
    ({ cfg := { link := if kv toks "link" == "m2s" then .m2s else .s2m, secret := if sec == "-" then none else some (unhexS sec) } }, none)
  | ["k", "open", c] => ({ st with conns := (c.toNat?.getD 0, false) :: st.conns }, some "obs ")
  | ["k", "msg", c, kind, v, s] =>
    let c := c.toNat?.getD 0
    let authed := (st.conns.find? (·.1 == c)).map (·.2) |>.getD false
    let sv := (s.drop 2).toString
    let secret : Option String := if sv == "-" then none else some (unhexS (sv.drop 1).toString)
    let m : Msg := { kind := kind, version := ((v.drop 2).toString.toNat?).getD 0, secret := secret }
    let (a', o) := step st.cfg authed m
    let txt := match o with
      | .ack => "ACK"
      | .refused r => s!"ERROR {r} closed"
      | .handled => "HANDLED"
    let txt := if authed then txt else txt ++ " fx=0"
    ({ st with conns := st.conns.map (fun p => if p.1 == c then (c, a') else p) }, some ("obs " ++ txt))
  | _ => (st, none)

end Driver.Lk
