import Narwhal.Model.Writer
import Driver.Srv
/-! Driver for suite `writer`. -/
namespace Driver.Wr
open Narwhal.Writer

def parseFrame (t : String) : Option OutFrame :=
  match t.splitOn ":" with
  | [h] => (Driver.Srv.xBytes h).map (fun b => { header := b, payload := none })
  | [h, p] => do pure { header := ← Driver.Srv.xBytes h, payload := some (← Driver.Srv.xBytes p) }
  | _ => none

def handle (line : String) : Option String :=
  match Driver.Srv.words line with
  | "frames" :: toks =>
    match toks.mapM parseFrame with
    | none => some "obs BAD-FRAMES"
    | some fs =>
      -- the connection loop: batches of at most 128 frames, each written to completion
      let bs := batches 128 fs.length fs
      let bytes := (bs.map (fun b => (b.flatMap iovs).flatten)).flatten
      some ("obs x" ++ Driver.Srv.toHex bytes ++ (if bytes == (fs.map render).flatten then "" else " SPEC-DIFFERS"))
  | "wav" :: toks =>
    let slices := (toks.takeWhile (· != "|")).mapM Driver.Srv.xBytes
    let accepts := ((toks.dropWhile (· != "|")).drop 1).mapM String.toNat?
    match slices, accepts with
    | some sl, some ac =>
      let r := writeAll sl ac
      some (s!"obs x{Driver.Srv.toHex r.1} " ++ (match r.2 with | .done => "done" | .closed => "closed" | .starved => "starved"))
    | _, _ => some "obs BAD-WAV"
  | "overflow" :: _ => some "obs OVERFLOW-OK"
  | "interrupted" :: _ => some "obs INTERRUPTED-OK"
  | _ => none

end Driver.Wr
