import Narwhal.Model.Server
/-! Line-protocol driver for the sequential server model (suite `srv`). Not part of the proofs. -/
namespace Driver.Srv
open Narwhal.Server

def hexVal (c : Char) : Option Nat :=
  if '0' ≤ c && c ≤ '9' then some (c.toNat - '0'.toNat)
  else if 'a' ≤ c && c ≤ 'f' then some (c.toNat - 'a'.toNat + 10)
  else none

def hexBytes : List Char → Option (List UInt8)
  | [] => some []
  | [_] => none
  | a :: b :: rest => do
    let x ← hexVal a; let y ← hexVal b; let r ← hexBytes rest
    pure (UInt8.ofNat (x * 16 + y) :: r)

/-- `x<hex>` → bytes -/
def xBytes (t : String) : Option (List UInt8) :=
  match t.toList with
  | 'x' :: rest => hexBytes rest
  | _ => none

def xStr (t : String) : Option Str := do
  let bs ← xBytes t
  let s ← String.fromUTF8? (ByteArray.mk bs.toArray)
  pure s.toList

def optTok {α} (f : String → Option α) (t : String) : Option (Option α) :=
  if t == "-" then some none else (f t).map some

def hexDigit (n : Nat) : Char := if n < 10 then Char.ofNat (48 + n) else Char.ofNat (87 + n)
def toHex (bs : List UInt8) : String :=
  String.ofList (bs.flatMap (fun b => [hexDigit (b.toNat / 16), hexDigit (b.toNat % 16)]))

def S (s : Str) : String := String.ofList s

def reasonStr : Reason → String
  | .badRequest => "BAD_REQUEST" | .channelNotFound => "CHANNEL_NOT_FOUND" | .channelIsFull => "CHANNEL_IS_FULL"
  | .forbidden => "FORBIDDEN" | .internalServerError => "INTERNAL_SERVER_ERROR" | .policyViolation => "POLICY_VIOLATION"
  | .serverOverloaded => "SERVER_OVERLOADED" | .notAllowed => "NOT_ALLOWED" | .notImplemented => "NOT_IMPLEMENTED"
  | .unauthorized => "UNAUTHORIZED" | .unexpectedMessage => "UNEXPECTED_MESSAGE"
  | .unsupportedProtocolVersion => "UNSUPPORTED_PROTOCOL_VERSION" | .userInChannel => "USER_IN_CHANNEL"
  | .userNotInChannel => "USER_NOT_IN_CHANNEL" | .usernameInUse => "USERNAME_IN_USE"
  | .userNotRegistered => "USER_NOT_REGISTERED" | .resourceConflict => "RESOURCE_CONFLICT"
  | .responseTooLarge => "RESPONSE_TOO_LARGE" | .timeout => "TIMEOUT" | .outboundQueueFull => "OUTBOUND_QUEUE_FULL"
  | .serverShuttingDown => "SERVER_SHUTTING_DOWN"

def aclTypeStr : AclType → String | .join => "join" | .publish => "publish" | .read => "read"

def listParam (name : String) (l : List Str) : String :=
  if l.isEmpty then "" else s!" {name}:{l.length}=" ++ " ".intercalate (l.map S)

def pageParams : Option (Nat × Nat × Nat) → String × String
  | none => ("", "")
  | some (pg, sz, tot) => (s!" page={pg} page_size={sz}", s!" total_count={tot}")

/-- canonical wire text of a frame (parameter order of the derive macro: `id` first, then alphabetical);
    payload frames get ` #<hex>` appended; ERROR `detail` is not rendered (canonicalised away) -/
def render : Frame → String
  | .connectAck ar app hb mi mm mp ms =>
    "CONNECT_ACK" ++ (match app with | some a => s!" application_protocol={S a}" | none => "") ++
      s!" auth_required={ar} heartbeat_interval={hb} max_inflight_requests={mi} max_message_size={mm} max_payload_size={mp} max_subscriptions={ms}"
  | .identifyAck n => s!"IDENTIFY_ACK nid={S n}"
  | .authAck ch su n =>
    "AUTH_ACK" ++ (match ch with | some c => s!" challenge={S c}" | none => "") ++
      (match n with | some c => s!" nid={S c}" | none => "") ++
      (match su with | some b => s!" succeeded={b}" | none => "")
  | .joinAck id c => s!"JOIN_ACK id={id} channel={S c}"
  | .leaveAck id => s!"LEAVE_ACK id={id}"
  | .broadcastAck id => s!"BROADCAST_ACK id={id}"
  | .message f c p => s!"MESSAGE channel={S c} from={S f} length={p.length} #{toHex p}"
  | .event k c n o =>
    s!"EVENT channel={S c} kind={match k with | .joined => "MEMBER_JOINED" | .left => "MEMBER_LEFT"} nid={S n} owner={o}"
  | .membersAck id c ms pg =>
    let (a, b) := pageParams pg
    s!"MEMBERS_ACK id={id} channel={S c}" ++ listParam "members" ms ++ a ++ b
  | .channelsAck id cs pg =>
    let (a, b) := pageParams pg
    s!"CHANNELS_ACK id={id}" ++ listParam "channels" cs ++ a ++ b
  | .chanAcl id c t ns pg =>
    let (a, b) := pageParams pg
    s!"CHAN_ACL id={id} channel={S c}" ++ listParam "nids" ns ++ a ++ b ++ s!" type={aclTypeStr t}"
  | .chanConfig id c mc mp => s!"CHAN_CONFIG id={id} channel={S c} max_clients={mc} max_payload_size={mp}"
  | .setAclAck id => s!"SET_CHAN_ACL_ACK id={id}"
  | .setConfigAck id => s!"SET_CHAN_CONFIG_ACK id={id}"
  | .modDirectAck id => s!"MOD_DIRECT_ACK id={id}"
  | .modDirect f p => s!"MOD_DIRECT from={S f} length={p.length} #{toHex p}"
  | .error id r => "ERROR" ++ (match id with | some i => s!" id={i}" | none => "") ++ s!" reason={reasonStr r}"

def renderEmit (e : Emit) : String :=
  s!"{e.conn}{if e.close then "!" else ":"}{render e.frame}"

def sortStrings (l : List String) : List String := (l.toArray.qsort (· < ·)).toList

def renderOut (out : List Emit) : String :=
  " | ".intercalate (sortStrings (out.map renderEmit))

def kv (toks : List String) (key : String) : Option String :=
  toks.findSome? (fun t => match t.splitOn "=" with
    | k :: rest => if k == key then some ("=".intercalate rest) else none
    | _ => none)

def parseCfg (toks : List String) : Option Cfg := do
  let n (k : String) : Option Nat := (kv toks k) >>= String.toNat?
  let b (k : String) : Option Bool := (n k).map (· != 0)
  let dom ← kv toks "domain"
  let app ← kv toks "app"
  pure { domain := dom.toList, maxChannels := ← n "maxchannels", maxClients := ← n "maxclients",
         maxSubs := ← n "maxsubs", maxPayload := ← n "maxpayload", authRequired := ← b "auth",
         hasMod := ← b "hasmod", fwdEvent := ← b "fwdevent", sendPrivate := ← b "sendprivate",
         keepAlive := ← n "keepalive", minKeepAlive := ← n "minkeepalive", maxMessage := ← n "maxmsg",
         maxInflight := ← n "maxinflight", appProtocol := if app == "-" then none else some app.toList }

def parseEnv (toks : List String) : Option Env := do
  let evok := (kv toks "evok").map (· != "0") |>.getD true
  let owners : List (Str × Str) := match kv toks "owners" with
    | none => []
    | some "" => []
    | some t => (t.splitOn ",").filterMap (fun p => match p.splitOn ":" with
        | [c, u] => some (c.toList, u.toList) | _ => none)
  let verdict : Verdict ← match kv toks "verdict" with
    | none => some .valid
    | some "valid" => some .valid
    | some "invalid" => some .invalid
    | some "failed" => some .failed
    | some t => match t.splitOn ":" with
      | ["altered", h] => (xBytes h).map .altered
      | _ => none
  let auth : AuthOutcome ← match kv toks "auth" with
    | none => some .failure
    | some "failure" => some .failure
    | some "failed" => some .failed
    | some t => match t.splitOn ":" with
      | ["success", h] => (xStr h).map .success
      | ["continue", h] => (xStr h).map .continue_
      | _ => none
  let direct : Option Bool ← match kv toks "direct" with
    | none => some (some true) | some "ok" => some (some true) | some "invalid" => some (some false)
    | some "fail" => some none | _ => none
  let down := (kv toks "down").map (· != "0") |>.getD false
  let handover := (kv toks "handover").map (· != "0") |>.getD true
  pure { evOk := evok, owners := owners, verdict := verdict, auth := auth, directOk := direct, down := down, handoverOk := handover }

def parseAclType : String → Option AclType
  | "join" => some .join | "publish" => some .publish | "read" => some .read | _ => none

def nat? (t : String) : Option Nat := t.toNat?

def parseReq : List String → Option Req
  | ["connect", v, hb] => do pure (.connect (← nat? v) (← nat? hb))
  | ["identify", u] => do pure (.identify (← xStr u))
  | ["auth", t] => do pure (.auth (← xStr t))
  | ["join", id, c, ob] => do pure (.join (← nat? id) (← xStr c) (← optTok xStr ob))
  | ["leave", id, c, ob] => do pure (.leave (← nat? id) (← xStr c) (← optTok xStr ob))
  | ["broadcast", id, c, q, p] => do pure (.broadcast (← nat? id) (← xStr c) (← optTok nat? q) (← xBytes p))
  | ["members", id, c, pg, sz] => do pure (.members (← nat? id) (← xStr c) (← optTok nat? pg) (← optTok nat? sz))
  | ["channels", id, pg, sz, o] => do pure (.channels (← nat? id) (← optTok nat? pg) (← optTok nat? sz) (o != "0"))
  | ["getacl", id, c, t, pg, sz] => do
    pure (.getAcl (← nat? id) (← xStr c) (← parseAclType t) (← optTok nat? pg) (← optTok nat? sz))
  | "setacl" :: id :: c :: t :: a :: _n :: nids => do
    let act ← (match a with | "add" => some AclAction.add | "remove" => some AclAction.remove | _ => none)
    pure (.setAcl (← nat? id) (← xStr c) (← parseAclType t) act (← nids.mapM xStr))
  | ["getconfig", id, c] => do pure (.getConfig (← nat? id) (← xStr c))
  | ["setconfig", id, c, mc, mp] => do pure (.setConfig (← nat? id) (← xStr c) (← nat? mc) (← nat? mp))
  | ["moddirect", id, p] => do pure (.modDirect (← optTok nat? id) (← xBytes p))
  | ["other", _] => some .other
  | ["malformed"] => some .malformed
  | _ => none

def parseOp : List String → Option Op
  | ["open", k] => do pure (.open_ (← nat? k))
  | ["close", k] => do pure (.close (← nat? k))
  | "recv" :: k :: rest => do pure (.recv (← nat? k) (← parseReq rest))
  | _ => none

structure St where
  cfg : Option Cfg := none
  srv : Option Srv := none
  env : Env := {}

def words (line : String) : List String := (line.trimAscii.toString.splitOn " ").filter (· != "")

/-- process one transcript line; returns new state and an optional output line -/
def handle (st : St) (line : String) : St × Option String :=
  match words line with
  | "cfg" :: toks =>
    match parseCfg toks with
    | some c => ({ st with cfg := some c, srv := some (init c) }, none)
    | none => (st, some "obs BAD-CFG")
  | "case" :: _ => ({ st with srv := st.cfg.map init, env := {} }, none)
  | "env" :: toks =>
    match parseEnv toks with
    | some e => ({ st with env := e }, none)
    | none => (st, some "obs BAD-ENV")
  | "op" :: toks =>
    match st.srv, parseOp toks with
    | some s, some op =>
      let (s', out) := step s op st.env
      ({ st with srv := some s', env := {} }, some ("obs " ++ renderOut out))
    | _, _ => (st, some "obs BAD-OP")
  | _ => (st, none)

end Driver.Srv
