import Narwhal.Lemmas.Checks
import Narwhal.Lemmas.Invariants
import Narwhal.Theorems.C01
/-!
# C18 — membership events are a faithful change log

What each membership-changing request emits, read off the model: a successful JOIN routes exactly one
`MEMBER_JOINED(channel, new member, owner = created)` to every connection of every member except the
requesting connection; a successful LEAVE / kick routes `MEMBER_LEFT(channel, member, owner = was owner)`
likewise and, when the owner left, one `MEMBER_JOINED(owner = true)` for the successor to every remaining
member's connections; refused requests route no EVENT at all.
-/
namespace Narwhal.Server

/-- **refused ⇒ no event** (recoverable refusals; a non-recoverable one only emits the clean-up events of
    the requester's own disconnection, which *are* membership changes) -/
theorem C18_refused_no_event (s : Srv) (k : Nat) (i : Option Nat) (r : Reason) (env : Env) (hr : r.recoverable = true) :
    ∀ e ∈ (fail s k i r env).2, e.frame.isEvent = false := by
  intro e he
  simp only [fail, hr, if_true, List.mem_singleton] at he
  subst he; rfl

/-- **JOIN**: the events of an admitted join -/
theorem C18_join_events (s : Srv) (k : Nat) (u : Str) (id : Nat) (raw : Str) (ob : Option Str) (env : Env) (h m : Str)
    (hc : joinCheck s u id raw ob = .ok (h, m)) (hev : notifyFails s env = false) :
    doJoin s k u id raw ob env =
      (joinedState s h m,
        routeTo (joinedState s h m) (withMember s.cfg.domain (chanOrNew s h) m).members (some k)
          (.event .joined (fullChan s h) (fullNid s m) (findChan s.chans h).isNone)
        ++ [{ conn := k, frame := .joinAck id raw }]) := by
  unfold doJoin
  rw [hc]
  simp only [hev, Bool.false_eq_true, if_false, joinedEvents]

/-- the new member is among the notified members (so its *other* connections learn of the join) and the
    requesting connection is not notified -/
theorem C18_join_targets (s : Srv) (h m : Str) :
    m ∈ (withMember s.cfg.domain (chanOrNew s h) m).members ∧
      ∀ t ∈ (chanOrNew s h).members, t ∈ (withMember s.cfg.domain (chanOrNew s h) m).members := by
  simp only [withMember, rebuild_members, List.mem_append, List.mem_singleton, or_true, true_and]
  intro t ht; exact Or.inl ht

/-- **JOIN whose notification the modulator refuses**: no state change (rolled back), no event, the
    request fails as a whole -/
theorem C18_join_notify_failed (s : Srv) (k : Nat) (u : Str) (id : Nat) (raw : Str) (ob : Option Str) (env : Env) (h m : Str)
    (hc : joinCheck s u id raw ob = .ok (h, m)) (hev : notifyFails s env = true) :
    doJoin s k u id raw ob env = fail s k none .internalServerError env := by
  unfold doJoin
  rw [hc]
  simp only [hev, if_true]

/-- **LEAVE / kick**: the events of an admitted leave -/
theorem C18_leave_events (s : Srv) (k : Nat) (u : Str) (id : Nat) (raw : Str) (ob : Option Str) (env : Env)
    (c : Chan) (m : Str) (hc : leaveCheck s u id raw ob = .ok (c, m)) (hev : handoverFails s env = false) :
    (doLeave s k u id raw ob env).2 =
      routeTo s c.members (some k) (.event .left (fullChan s c.handler) (fullNid s m) (c.owner = some m))
        ++ [{ conn := k, frame := .leaveAck id }] ++ (removeMember s c m env).2.1 := by
  have hn : notifyFails s env = false := by
    unfold handoverFails at hev
    simp only [Bool.or_eq_false_iff] at hev
    exact hev.1
  unfold doLeave
  rw [hc]
  simp only [hn, Bool.false_eq_true, if_false]
  unfold leaveTail
  have hok : (removeMember s c m env).2.2 = true := by
    unfold removeMember
    split
    · rfl
    · split
      · simp only [hev, Bool.false_eq_true, if_false]
      · rfl
  simp only [hok, if_true, leftEvents]

/-- **hand-over**: when the departing member owned the channel and somebody remains, every remaining
    member's connections get exactly the `MEMBER_JOINED owner=true` of the successor, who is a remaining member -/
theorem C18_handover_events (s : Srv) (c : Chan) (u : Str) (env : Env)
    (hne : (withoutMember s.cfg.domain c u).members.isEmpty = false) (ho : c.owner = some u)
    (hev : handoverFails s env = false) :
    (removeMember s c u env).2.1 =
      routeTo s (withoutMember s.cfg.domain c u).members none
        (.event .joined (fullChan s c.handler) (fullNid s (pickOwner env (withoutMember s.cfg.domain c u) u)) true) ∧
    pickOwner env (withoutMember s.cfg.domain c u) u ∈ (withoutMember s.cfg.domain c u).members := by
  constructor
  · unfold removeMember
    simp only [hne, Bool.false_eq_true, if_false, ho, if_true, hev, handoverEvents, withoutMember_handler]
  · apply pickOwner_mem
    intro h; simp [h] at hne

/-- when the modulator refuses the hand-over announcement the new owner is recorded all the same (the channel is never left
    without an owner) but nobody is told — the residue recorded as known finding for the disconnect clean-up -/
theorem C18_handover_refused (s : Srv) (c : Chan) (u : Str) (env : Env)
    (hne : (withoutMember s.cfg.domain c u).members.isEmpty = false) (ho : c.owner = some u)
    (hev : handoverFails s env = true) :
    (removeMember s c u env).2.1 = [] ∧ (removeMember s c u env).2.2 = false ∧
    ∃ c', findChan (removeMember s c u env).1.chans c.handler = some c' ∧
      c'.owner = some (pickOwner env (withoutMember s.cfg.domain c u) u) := by
  unfold removeMember
  simp only [hne, Bool.false_eq_true, if_false, ho, if_true, hev]
  refine ⟨trivial, trivial, { withoutMember s.cfg.domain c u with owner := some (pickOwner env (withoutMember s.cfg.domain c u) u) }, ?_, rfl⟩
  simp [findChan, putChan, withoutMember_handler]

/-- no hand-over event when a non-owner leaves or the channel empties -/
theorem C18_no_spurious_handover (s : Srv) (c : Chan) (u : Str) (env : Env)
    (h : (withoutMember s.cfg.domain c u).members.isEmpty = true ∨ c.owner ≠ some u) :
    (removeMember s c u env).2.1 = [] := by
  unfold removeMember
  rcases h with h | h
  · simp only [h, if_true]
  · split
    · rfl
    · simp only [h, if_false]

/-- **one event per connection**: `routeTo` gives a connection as many copies as it is registered under
    the notified users — exactly one under the router invariants (a connection belongs to one user, once) -/
theorem C18_one_event_per_connection (s : Srv) (us : List Str) (excl : Option Nat) (f : Frame) (k' : Nat) (t : Str)
    (hk : some k' ≠ excl) (ht : t ∈ us) (hnodup : us.Nodup)
    (honce : ((connsOf s t).filter (· = k')).length = 1)
    (hother : ∀ t' ∈ us, t' ≠ t → k' ∉ connsOf s t') :
    ((routeTo s us excl f).filter (fun e => e.conn = k')).length = 1 := by
  rw [routeTo_count]
  have hfilt : ∀ t', ((connsOf s t').filter (fun x => some x ≠ excl ∧ x = k')).length =
      ((connsOf s t').filter (· = k')).length := by
    intro t'
    congr 1
    apply List.filter_congr
    intro x _
    by_cases hx : x = k'
    · subst hx; simp [hk]
    · simp [hx]
  simp only [hfilt]
  clear hfilt
  induction us with
  | nil => cases ht
  | cons a as ih =>
    simp only [List.nodup_cons] at hnodup
    simp only [List.map_cons, List.sum_cons]
    by_cases hat : a = t
    · subst hat
      rw [honce]
      have : (as.map (fun t' => ((connsOf s t').filter (· = k')).length)).sum = 0 := by
        apply sum_eq_zero_of_all_zero
        intro n hn
        simp only [List.mem_map] at hn
        obtain ⟨t', ht', rfl⟩ := hn
        have hne : t' ≠ a := fun h => hnodup.1 (h ▸ ht')
        have := hother t' (List.mem_cons_of_mem _ ht') hne
        rw [List.length_eq_zero_iff, List.filter_eq_nil_iff]
        intro x hx hxe
        simp only [decide_eq_true_eq] at hxe
        exact this (hxe ▸ hx)
      omega
    · have hmem : t ∈ as := by
        simp only [List.mem_cons] at ht
        rcases ht with h | h
        · exact absurd h.symm hat
        · exact h
      have h0 : ((connsOf s a).filter (· = k')).length = 0 := by
        have := hother a List.mem_cons_self hat
        rw [List.length_eq_zero_iff, List.filter_eq_nil_iff]
        intro x hx hxe
        simp only [decide_eq_true_eq] at hxe
        exact this (hxe ▸ hx)
      rw [h0, Nat.zero_add]
      exact ih hmem hnodup.2 (fun t' ht' hne => hother t' (List.mem_cons_of_mem _ ht') hne)

end Narwhal.Server

#print axioms Narwhal.Server.C18_refused_no_event
#print axioms Narwhal.Server.C18_join_events
#print axioms Narwhal.Server.C18_join_targets
#print axioms Narwhal.Server.C18_join_notify_failed
#print axioms Narwhal.Server.C18_leave_events
#print axioms Narwhal.Server.C18_handover_events
#print axioms Narwhal.Server.C18_no_spurious_handover
#print axioms Narwhal.Server.C18_one_event_per_connection
