import Narwhal.Model.Direct
/-!
# C17 — direct messages reach exactly their targets; client ones reach the modulator

For every router state (any number of users with any number of live connections), every target list (present, absent,
repeated in any positions) and every payload.
-/
namespace Narwhal.Direct

/-! ## target de-duplication -/

theorem mem_dedup (ts seen : List Str) (t : Str) : t ∈ dedup ts seen ↔ t ∈ ts ∧ t ∉ seen := by
  induction ts generalizing seen with
  | nil => simp [dedup]
  | cons x xs ih =>
    simp only [dedup]
    split
    · next h =>
      have hx : x ∈ seen := by simpa using h
      rw [ih]
      constructor
      · rintro ⟨h1, h2⟩; exact ⟨List.mem_cons_of_mem _ h1, h2⟩
      · rintro ⟨h1, h2⟩
        rcases List.mem_cons.mp h1 with rfl | h1
        · exact absurd hx h2
        · exact ⟨h1, h2⟩
    · next h =>
      have hx : x ∉ seen := by simpa using h
      simp only [List.mem_cons, ih]
      constructor
      · rintro (rfl | ⟨h1, h2⟩)
        · exact ⟨Or.inl rfl, hx⟩
        · exact ⟨Or.inr h1, fun hs => h2 (Or.inr hs)⟩
      · rintro ⟨h1, h2⟩
        by_cases e : t = x
        · exact Or.inl e
        · rcases h1 with h1 | h1
          · exact absurd h1 e
          · exact Or.inr ⟨h1, fun hs => by rcases hs with hs | hs; exact e hs; exact h2 hs⟩

theorem nodup_dedup (ts seen : List Str) : (dedup ts seen).Nodup := by
  induction ts generalizing seen with
  | nil => simp [dedup]
  | cons x xs ih =>
    simp only [dedup]
    split
    · exact ih seen
    · refine List.nodup_cons.mpr ⟨?_, ih _⟩
      rw [mem_dedup]
      simp

/-! ## counting deliveries per connection -/

def copies (ds : List Delivery) (k : Nat) : Nat := (ds.filter (fun d => d.conn = k)).length

def fanout (rt : Router) (domain : Str) (p : Payload) (us : List Str) : List Delivery :=
  us.flatMap (fun u => (connsOf rt u).map (fun k => { conn := k, frm := domain, payload := p }))

theorem copies_one_user (rt : Router) (domain : Str) (p : Payload) (u : Str) (k : Nat) :
    copies ((connsOf rt u).map (fun k' => ({ conn := k', frm := domain, payload := p } : Delivery))) k = (connsOf rt u).count k := by
  unfold copies
  induction connsOf rt u with
  | nil => rfl
  | cons a as ih =>
    simp only [List.map_cons, List.filter_cons, List.count_cons]
    by_cases h : a = k
    · subst h; simp [ih]
    · have : ¬ (a == k) = true := by simpa using h
      simp [h, ih, this]

theorem copies_append (a b : List Delivery) (k : Nat) : copies (a ++ b) k = copies a k + copies b k := by
  simp [copies, List.filter_append]

/-- router well-formedness: a connection is registered once, under one username -/
structure RouterWF (rt : Router) : Prop where
  nodup    : ∀ u, (connsOf rt u).Nodup
  disjoint : ∀ u v k, u ≠ v → k ∈ connsOf rt u → k ∉ connsOf rt v

theorem count_of_nodup_mem {l : List Nat} (hn : l.Nodup) {k : Nat} (hk : k ∈ l) : l.count k = 1 := by
  induction l with
  | nil => cases hk
  | cons a as ih =>
    have hn' := List.nodup_cons.mp hn
    rcases List.mem_cons.mp hk with rfl | h
    · simp [List.count_cons, List.count_eq_zero_of_not_mem hn'.1]
    · have hne : a ≠ k := fun e => hn'.1 (e ▸ h)
      have : ¬ (a == k) = true := by simpa using hne
      simp [List.count_cons, this, ih hn'.2 h]

theorem copies_fanout (rt : Router) (hw : RouterWF rt) (domain : Str) (p : Payload) (us : List Str) (hn : us.Nodup) (k : Nat) :
    copies (fanout rt domain p us) k = if ∃ u ∈ us, k ∈ connsOf rt u then 1 else 0 := by
  induction us with
  | nil => simp [fanout, copies]
  | cons u us ih =>
    have hn' := (List.nodup_cons.mp hn)
    have := ih hn'.2
    unfold fanout at this ⊢
    rw [List.flatMap_cons, copies_append, copies_one_user, this]
    by_cases hk : k ∈ connsOf rt u
    · have hc : (connsOf rt u).count k = 1 := count_of_nodup_mem (hw.nodup u) hk
      have hrest : ¬ ∃ v ∈ us, k ∈ connsOf rt v := by
        rintro ⟨v, hv, hkv⟩
        have hne : u ≠ v := fun e => hn'.1 (e ▸ hv)
        exact hw.disjoint u v k hne hk hkv
      rw [hc, if_neg hrest, if_pos ⟨u, by simp, hk⟩]
    · have hc : (connsOf rt u).count k = 0 := List.count_eq_zero_of_not_mem hk
      rw [hc, Nat.zero_add]
      by_cases hrest : ∃ v ∈ us, k ∈ connsOf rt v
      · obtain ⟨v, hv, hkv⟩ := hrest
        rw [if_pos ⟨v, hv, hkv⟩, if_pos ⟨v, by simp [hv], hkv⟩]
      · rw [if_neg hrest, if_neg]
        rintro ⟨v, hv, hkv⟩
        rcases List.mem_cons.mp hv with rfl | hv
        · exact hk hkv
        · exact hrest ⟨v, hv, hkv⟩

/-- **C17 (modulator → clients, exactly once).** Every live connection of every listed user receives exactly one
    MOD_DIRECT frame, every other connection none — however often and wherever a user is repeated in the list. -/
theorem C17_exactly_once (rt : Router) (hw : RouterWF rt) (domain : Str) (targets : List Str) (p : Payload) (k : Nat) :
    copies (routeDirect rt domain targets p) k = if ∃ u ∈ targets, k ∈ connsOf rt u then 1 else 0 := by
  have := copies_fanout rt hw domain p (dedup targets []) (nodup_dedup _ _) k
  unfold fanout at this
  unfold routeDirect
  rw [this]
  have hiff : (∃ u ∈ dedup targets [], k ∈ connsOf rt u) ↔ (∃ u ∈ targets, k ∈ connsOf rt u) := by
    constructor
    · rintro ⟨u, hu, hk⟩; exact ⟨u, ((mem_dedup _ _ _).mp hu).1, hk⟩
    · rintro ⟨u, hu, hk⟩; exact ⟨u, (mem_dedup _ _ _).mpr ⟨hu, by simp⟩, hk⟩
  by_cases h : ∃ u ∈ targets, k ∈ connsOf rt u
  · rw [if_pos h, if_pos (hiff.mpr h)]
  · rw [if_neg h, if_neg (fun h' => h (hiff.mp h'))]

/-- **C17 (byte-identical, from the server's domain, nobody else).** -/
theorem C17_faithful (rt : Router) (domain : Str) (targets : List Str) (p : Payload) (d : Delivery)
    (hd : d ∈ routeDirect rt domain targets p) :
    d.payload = p ∧ d.frm = domain ∧ ∃ u ∈ targets, d.conn ∈ connsOf rt u := by
  unfold routeDirect at hd
  obtain ⟨u, hu, hm⟩ := List.mem_flatMap.mp hd
  obtain ⟨k, hk, rfl⟩ := List.mem_map.mp hm
  exact ⟨rfl, rfl, u, ((mem_dedup _ _ _).mp hu).1, hk⟩

/-- the modulator's request is acknowledged with its own id, whatever the targets -/
theorem C17_m2s_ack (rt : Router) (domain : Str) (id : Nat) (targets : List Str) (p : Payload) :
    (m2sDirect rt domain id targets p).2 = id := rfl

/-! ## client → modulator -/

/-- **C17 (client direct message).** The modulator is asked exactly when the server has a modulator offering the
    capability and the request is well-formed, and then with the sender's own username and the exact payload; the
    client is acknowledged iff the modulator accepted; without modulator or capability the request is refused with
    UNEXPECTED_MESSAGE and the connection closed. -/
theorem C17_c2s (cfg : Cfg) (user : Str) (id : Option Nat) (p : Payload) (o : Outcome) :
    let r := c2sDirect cfg user id p o
    (∀ i, r.1 = .ack i → id = some i ∧ o = .valid ∧ cfg.hasMod = true ∧ cfg.sendPrivate = true ∧ r.2 = some (user, p)) ∧
    (∀ q, r.2 = some q → q = (user, p) ∧ cfg.hasMod = true ∧ cfg.sendPrivate = true) ∧
    ((cfg.hasMod = false ∨ cfg.sendPrivate = false) → p.length ≤ cfg.maxPayload →
        r = (.error none "UNEXPECTED_MESSAGE" true, none)) ∧
    (cfg.hasMod = true → cfg.sendPrivate = true → p.length ≤ cfg.maxPayload → ∀ i, id = some i → o = .valid → r.1 = .ack i) := by
  by_cases hlen : p.length > cfg.maxPayload <;> cases hm : cfg.hasMod <;> cases hs : cfg.sendPrivate <;>
    cases id <;> cases o <;> simp [c2sDirect, hlen, hm, hs] <;> omega

/-! ## non-vacuity -/

def exRouter : Router := [(['a'], [1, 4]), (['b'], [2]), (['c'], [3])]

example : RouterWF exRouter := by
  constructor
  · intro u
    unfold exRouter connsOf
    split <;> (try decide)
    unfold connsOf
    split <;> (try decide)
    unfold connsOf
    split <;> (try decide)
    simp [connsOf]
  · intro u v k huv hk
    unfold exRouter connsOf at hk ⊢
    by_cases h1 : ['a'] = u <;> by_cases h2 : ['a'] = v <;> by_cases h3 : ['b'] = u <;> by_cases h4 : ['b'] = v <;>
      by_cases h5 : ['c'] = u <;> by_cases h6 : ['c'] = v <;> simp_all [connsOf] <;> omega

example : (routeDirect exRouter ['d'] [['a'], ['b'], ['a'], ['z']] [1, 2]).map (·.conn) = [1, 4, 2] := by decide

#print axioms C17_exactly_once
#print axioms C17_faithful
#print axioms C17_m2s_ack
#print axioms C17_c2s

end Narwhal.Direct
