import Narwhal.Model.Links
/-!
# C06 — the S2M and M2S links: nothing acts before the handshake, the secret is compared whole, state only advances
-/
namespace Narwhal.Links
open Narwhal.Generated

/-- the dispatch tables as the properties need them (re-decided on the tables regenerated from the source on every run):
    each link's connecting state accepts its own CONNECT and nothing else; no CONNECT / IDENTIFY / AUTH kind is accepted
    again after authentication; the C2S pre-authentication states accept only their handshake kinds; the default arms
    refuse; the secret is compared whole; the version is checked; the engine asserts that states only advance. -/
theorem dispatch_table_ok :
    s2mConnecting = ["S2mConnect"] ∧ m2sConnecting = ["M2sConnect"] ∧
    c2sConnecting = ["Connect"] ∧ (∀ k ∈ c2sConnected, k = "Auth" ∨ k = "Identify") ∧
    (∀ k ∈ ["Connect", "Identify", "Auth", "S2mConnect", "M2sConnect"], k ∉ c2sAuthed ∧ k ∉ s2mAuthed ∧ k ∉ m2sAuthed) ∧
    (∀ k ∈ s2mAuthed, k ∈ ["S2mAuth", "S2mModDirect", "S2mForwardBroadcastPayload", "S2mForwardEvent"]) ∧
    (∀ k ∈ m2sAuthed, k ∈ ["M2sModDirect"]) ∧
    defaultArmsRefuse = true ∧ secretComparedWhole = true ∧ versionChecked = true ∧ stateOrderAsserted = true := by decide

def connectKind : Link → String
  | .s2m => "S2mConnect"
  | .m2s => "M2sConnect"

theorem connecting_only_connect (l : Link) (k : String) : k ∈ connectingTable l ↔ k = connectKind l := by
  obtain ⟨h1, h2, _⟩ := dispatch_table_ok
  cases l <;> simp [connectingTable, connectKind, h1, h2]

/-- **C06 (links: nothing before the handshake)**: on an unauthenticated link no message of any kind, with any
    parameters, reaches an operational handler; the only thing that is not a refusal-and-close is the acknowledgement of
    the link's own CONNECT with version 1 and, when a secret is configured, exactly that secret. -/
theorem C06_link_pre_auth_inert (cfg : Cfg) (m : Msg) :
    (step cfg false m).2 ≠ .handled ∧
    ((step cfg false m).1 = true →
        m.kind = connectKind cfg.link ∧ m.version = 1 ∧ (cfg.secret = none ∨ m.secret = cfg.secret) ∧ (step cfg false m).2 = .ack) ∧
    ((step cfg false m).1 = false → ((step cfg false m).2).closes = true) := by
  have hk := connecting_only_connect cfg.link m.kind
  unfold step
  simp only [Bool.not_false, if_true]
  split
  · next hin =>
    have hkind := hk.mp hin
    split
    · simp [Out.closes]
    · next hv =>
      split
      · simp [Out.closes]
      · next hs =>
        refine ⟨by simp, ?_, by simp⟩
        intro _
        refine ⟨hkind, by omega, ?_, rfl⟩
        cases hc : cfg.secret with
        | none => exact Or.inl rfl
        | some s =>
          right
          simp only [hc, Option.isSome_some, true_and, ne_eq, Decidable.not_not] at hs
          exact hs
  · simp [Out.closes]

/-- **C06 (links: the shared secret is compared whole)**: with a secret configured, a link is acknowledged only when it
    presented exactly that secret — not a prefix, an extension, the empty string or nothing. -/
theorem C06_link_secret_exact (cfg : Cfg) (s : String) (hc : cfg.secret = some s) (m : Msg)
    (h : (step cfg false m).1 = true) : m.secret = some s := by
  obtain ⟨_, h2, _⟩ := C06_link_pre_auth_inert cfg m
  obtain ⟨_, _, h3, _⟩ := h2 h
  rcases h3 with h3 | h3
  · rw [hc] at h3; cases h3
  · rw [h3, hc]

/-- **C06 (links: state only advances)**: an authenticated link stays authenticated whatever arrives (a refusal closes
    it); in particular a second CONNECT is refused with UNEXPECTED_MESSAGE, so version, secret and negotiated values never
    change. -/
theorem C06_link_state_monotone (cfg : Cfg) (m : Msg) :
    (step cfg true m).1 = true ∧ (m.kind = connectKind cfg.link → (step cfg true m).2 = .refused "UNEXPECTED_MESSAGE") := by
  obtain ⟨_, _, _, _, h5, _⟩ := dispatch_table_ok
  unfold step
  simp only [Bool.not_true, Bool.false_eq_true, if_false]
  refine ⟨by
    split
    · rfl
    · split <;> rfl, ?_⟩
  intro hk
  have hp : m.kind ≠ "Pong" := by
    cases hl : cfg.link <;> simp only [hl, connectKind] at hk <;> rw [hk] <;> decide
  have : m.kind ∉ authedTable cfg.link := by
    cases hl : cfg.link <;> simp only [hl, connectKind] at hk <;> simp only [authedTable]
    · exact (h5 m.kind (by simp [hk])).2.1
    · exact (h5 m.kind (by simp [hk])).2.2
  simp [this, hp]

/-- over a whole conversation: every output before the first acknowledgement is a refusal (and ends the conversation) -/
theorem C06_link_run_inert (cfg : Cfg) (ms : List Msg) :
    ∀ o ∈ run cfg false ms, o = .handled → ∃ m ∈ ms, (step cfg false m).2 = .ack := by
  induction ms with
  | nil => intro o ho; cases ho
  | cons m rest ih =>
    intro o ho hh
    simp only [run] at ho
    split at ho
    · simp only [List.mem_singleton] at ho
      subst ho
      exact absurd hh (C06_link_pre_auth_inert cfg m).1
    · simp only [List.mem_cons] at ho
      rcases ho with ho | ho
      · subst ho
        exact absurd hh (C06_link_pre_auth_inert cfg m).1
      · by_cases ha : (step cfg false m).1 = true
        · exact ⟨m, by simp, ((C06_link_pre_auth_inert cfg m).2.1 ha).2.2.2⟩
        · have hf : (step cfg false m).1 = false := by simpa using ha
          rw [hf] at ho
          obtain ⟨m', hm', hack⟩ := ih o ho hh
          exact ⟨m', by simp [hm'], hack⟩

-- non-vacuity
example : step { link := .m2s, secret := some "a_test_secret" } false ⟨"M2sConnect", 1, some "a"⟩ = (false, .refused "UNAUTHORIZED") := by decide
example : step { link := .m2s, secret := some "a_test_secret" } false ⟨"M2sConnect", 1, some "a_test_secret"⟩ = (true, .ack) := by decide
example : step { link := .s2m, secret := none } false ⟨"S2mAuth", 1, none⟩ = (false, .refused "UNEXPECTED_MESSAGE") := by decide
example : run { link := .s2m, secret := none } false [⟨"S2mConnect", 1, some "x"⟩, ⟨"S2mAuth", 1, none⟩, ⟨"S2mConnect", 1, none⟩, ⟨"S2mAuth", 1, none⟩] =
    [.ack, .handled, .refused "UNEXPECTED_MESSAGE"] := by decide

end Narwhal.Links

#print axioms Narwhal.Links.dispatch_table_ok
#print axioms Narwhal.Links.C06_link_pre_auth_inert
#print axioms Narwhal.Links.C06_link_secret_exact
#print axioms Narwhal.Links.C06_link_state_monotone
#print axioms Narwhal.Links.C06_link_run_inert
