import Narwhal.Theorems.C11
/-!
# C11 — the whole-message round trip

`decode (encode m) = m` for every well-typed message of every kind of any well-formed schema: the composition of the
value / name / count lemmas of `Theorems/C11.lean` over the parameter loop (`readParams`) and the field assignment
(`assignAll`), for the canonical parameter order the derive macro writes (`id` first, then by name).
-/
namespace Narwhal.Codec

/-! ## the parameter loop only looks at its input through `seekChar` -/

theorem readEscaped_seek_congr (s s' : Bytes) (h : seekChar s = seekChar s') : readEscaped s = readEscaped s' := by
  unfold readEscaped; rw [h]

theorem readParams_seek_congr (fuel : Nat) (s s' : Bytes) (cur : Option (Bytes × Nat)) (h : seekChar s = seekChar s') :
    readParams fuel s cur = readParams fuel s' cur := by
  cases fuel with
  | zero => rfl
  | succ n =>
    cases cur with
    | none => simp only [readParams, h]
    | some p => simp only [readParams, readEscaped_seek_congr s s' h]

theorem readParams_end (g : Nat) : readParams (g + 1) [] none = .ok [] := by
  simp [readParams, seekChar]

/-- prepend already-decoded pairs to the result of the rest of the loop -/
def consPairs (ps : List (Bytes × Bytes)) (r : Except DecErr (List (Bytes × Bytes))) : Except DecErr (List (Bytes × Bytes)) :=
  match r with
  | .ok qs => .ok (ps ++ qs)
  | .error e => .error e

@[simp] theorem consPairs_nil (r) : consPairs [] r = r := by cases r <;> simp [consPairs]

theorem consPairs_append (a b : List (Bytes × Bytes)) (r) : consPairs a (consPairs b r) = consPairs (a ++ b) r := by
  cases r <;> simp [consPairs]

/-! ## one value, several values -/

theorem encScalar_ne_nil (x : Scalar) (e : Bytes) (he : encScalar x = .ok e) : e ≠ [] := by
  cases x with
  | num n =>
    simp only [encScalar, Except.ok.injEq] at he
    subst he
    exact (digits_spec n).2.2
  | bool b =>
    simp only [encScalar, Except.ok.injEq] at he
    subst he
    cases b <;> simp [trueBytes, falseBytes]
  | str s =>
    simp only [encScalar] at he
    obtain ⟨_, h | h | h⟩ := encStr_cases s e he
    · rw [h.2]; simp
    · rw [h.2.2.2]; exact h.1
    · obtain ⟨_, d, _, _, hd⟩ := h
      rw [hd]; simp

/-- the raw tokens the scanner produced decode to the scalars that were written -/
def Decodes (ty : Ty) (raws : List Bytes) (xs : List Scalar) : Prop := raws.map (decScalar ty) = xs.map some

/-- **the values of a slice**: with `k = vs.length` values still expected for parameter `nm`, the loop reads exactly the
    values that `write_param_slice` wrote and then goes on with the rest of the line -/
theorem readParams_slice (ty : Ty) (nm : Bytes) (vs : List Scalar) (hne : vs ≠ []) (hwt : ∀ x ∈ vs, ScalarWT ty x)
    (a : Bytes) (he : encSlice vs = .ok a) (tail : Bytes) (ht : Sep tail) :
    ∃ raws, Decodes ty raws vs ∧ raws.length = vs.length ∧
      ∀ g, readParams (vs.length + g) (a ++ tail) (some (nm, vs.length)) =
        consPairs (raws.map (fun r => (nm, r))) (readParams g tail none) := by
  induction vs generalizing a with
  | nil => exact absurd rfl hne
  | cons x rest ih =>
    cases rest with
    | nil =>
      simp only [encSlice] at he
      obtain ⟨raw, tail', h1, h2, h3⟩ := scalar_roundtrip ty x a tail (hwt x (by simp)) he ht
      refine ⟨[raw], by simp [Decodes, h3], rfl, ?_⟩
      intro g
      have : [x].length + g = g + 1 := by simp; omega
      rw [this]
      simp only [readParams, h1, List.length_cons, List.length_nil, Nat.zero_add, Nat.one_ne_zero, if_false,
        Nat.sub_self, if_true]
      rw [readParams_seek_congr g tail' tail none h2]
      cases readParams g tail none <;> simp [consPairs]
    | cons y rest' =>
      simp only [encSlice] at he
      cases hx : encScalar x with
      | error e => simp [hx] at he
      | ok a1 =>
        cases hr : encSlice (y :: rest') with
        | error e => simp [hx, hr] at he
        | ok a2 =>
          simp only [hx, hr, Except.ok.injEq] at he
          subst he
          obtain ⟨raws, hd, hl, hrest⟩ := ih (by simp) (fun z hz => hwt z (by simp [hz])) a2 hr
          have hsep : Sep ([32] ++ a2 ++ tail) := Or.inr ⟨a2 ++ tail, by simp⟩
          obtain ⟨raw, tail', h1, h2, h3⟩ := scalar_roundtrip ty x a1 ([32] ++ a2 ++ tail) (hwt x (by simp)) hx hsep
          refine ⟨raw :: raws, ?_, by simp [hl], ?_⟩
          · simp only [Decodes, List.map_cons, h3] at hd ⊢
            rw [hd]
          · intro g
            have hlen : (x :: y :: rest').length + g = ((y :: rest').length + g) + 1 := by simp; omega
            rw [hlen]
            have hcat : a1 ++ [32] ++ a2 ++ tail = a1 ++ ([32] ++ a2 ++ tail) := by simp
            rw [hcat]
            simp only [readParams, h1]
            have hc : (x :: y :: rest').length ≠ 0 := by simp
            have hc1 : (x :: y :: rest').length - 1 = (y :: rest').length := by simp
            simp only [hc, if_false, hc1]
            have hc2 : (y :: rest').length ≠ 0 := by simp
            simp only [hc2, if_false]
            have hseek : seekChar tail' = seekChar (a2 ++ tail) := by
              rw [h2]; simp [seekChar_space]
            rw [readParams_seek_congr _ tail' (a2 ++ tail) _ hseek, hrest g]
            cases readParams g tail none <;> simp [consPairs]

/-! ## one parameter -/

def scalarsOf : FVal → List Scalar
  | .reg x => [x]
  | .opt none => []
  | .opt (some x) => [x]
  | .vec vs => vs

def NameOK (f : Field) : Prop := f.name ≠ [] ∧ ∀ x ∈ f.name, isOptionNameByte x = true

theorem optionName_nonspace {x : Nat} (h : isOptionNameByte x = true) : x ≠ 0 ∧ isSpace x = false := by
  unfold isOptionNameByte isAlnumAscii at h
  simp only [Bool.or_eq_true, Bool.and_eq_true, decide_eq_true_eq] at h
  unfold isSpace
  simp only [Bool.or_eq_false_iff, decide_eq_false_iff_not]
  omega

/-- once positioned on a parameter, the loop continues as if that parameter had been in progress -/
theorem readParams_start (n : Nat) (s s1 s2 nm : Bytes) (c : Nat) (h1 : seekChar s = some s1)
    (h2 : readParameter s1 = .ok (nm, c, s2)) :
    readParams (n + 1) s none = readParams (n + 1) s2 (some (nm, c)) := by
  simp only [readParams, h1, h2]

theorem seekChar_name (nm rest : Bytes) (hne : nm ≠ []) (hn : ∀ x ∈ nm, isOptionNameByte x = true) :
    seekChar (32 :: (nm ++ rest)) = some (nm ++ rest) := by
  rw [seekChar_space]
  cases nm with
  | nil => exact absurd rfl hne
  | cons b r =>
    have := optionName_nonspace (hn b (by simp))
    exact seekChar_cons this.1 this.2

theorem encSlice_length (vs : List Scalar) (hne : vs ≠ []) (a : Bytes) (he : encSlice vs = .ok a) : 2 * vs.length ≤ a.length + 1 := by
  induction vs generalizing a with
  | nil => exact absurd rfl hne
  | cons x rest ih =>
    cases rest with
    | nil =>
      simp only [encSlice] at he
      have := encScalar_ne_nil x a he
      have : 0 < a.length := List.length_pos_iff.mpr this
      simp only [List.length_cons, List.length_nil]; omega
    | cons y rest' =>
      simp only [encSlice] at he
      cases hx : encScalar x with
      | error e => simp [hx] at he
      | ok a1 =>
        cases hr : encSlice (y :: rest') with
        | error e => simp [hx, hr] at he
        | ok a2 =>
          simp only [hx, hr, Except.ok.injEq] at he
          subst he
          have := ih (by simp) a2 hr
          have h1 : 0 < a1.length := List.length_pos_iff.mpr (encScalar_ne_nil x a1 hx)
          simp only [List.length_cons, List.length_append, List.length_nil] at this ⊢
          omega

/-- **one parameter**: what `write_param` / `write_param_slice` wrote for a field is read back as that field's name with
    raw values that decode to the field's scalars, and the loop goes on with the rest of the line -/
theorem readParams_field (f : Field) (v : FVal) (hn : NameOK f) (hwt : FValWT f v) (e : Bytes) (he : encField f v = .ok e)
    (hcnt : (scalarsOf v).length ≤ 2 ^ 64 - 1) (tail : Bytes) (ht : Sep tail) :
    ∃ raws, Decodes f.ty raws (scalarsOf v) ∧ raws.length = (scalarsOf v).length ∧ 2 * raws.length ≤ e.length ∧
      ∀ g, readParams (raws.length + g) (e ++ tail) none =
        consPairs (raws.map (fun r => (f.name, r))) (readParams g tail none) := by
  obtain ⟨hne, hnb⟩ := hn
  -- a single value: `name=value`
  have single : ∀ x, ScalarWT f.ty x → encField f (.reg x) = .ok e → scalarsOf v = [x] →
      ∃ raws, Decodes f.ty raws (scalarsOf v) ∧ raws.length = (scalarsOf v).length ∧ 2 * raws.length ≤ e.length ∧
        ∀ g, readParams (raws.length + g) (e ++ tail) none =
          consPairs (raws.map (fun r => (f.name, r))) (readParams g tail none) := by
    intro x hx he' hs
    simp only [encField] at he'
    cases ha : encScalar x with
    | error err => simp [ha] at he'
    | ok a =>
      simp only [ha, Except.ok.injEq] at he'
      subst he'
      obtain ⟨raws, hd, hl, hrest⟩ := readParams_slice f.ty f.name [x] (by simp) (by intro z hz; simp at hz; subst hz; exact hx)
        a (by simpa [encSlice] using ha) tail ht
      refine ⟨raws, by rw [hs]; exact hd, by rw [hs]; exact hl, ?_, ?_⟩
      · have hl1 : raws.length = 1 := by simpa using hl
        have := List.length_pos_iff.mpr hne
        rw [hl1]; simp only [List.length_append, List.length_cons, List.length_nil]; omega
      · intro g
        have hl1 : raws.length = 1 := by simpa using hl
        have hcat : [32] ++ f.name ++ [61] ++ a ++ tail = 32 :: (f.name ++ 61 :: (a ++ tail)) := by simp
        rw [hcat, hl1]
        have : 1 + g = g + 1 := by omega
        rw [this, readParams_start g _ _ (a ++ tail) f.name 1 (seekChar_name f.name _ hne hnb)
          (C11_param_name_roundtrip f.name (a ++ tail) hnb)]
        have := hrest g
        simp only [List.length_cons, List.length_nil, Nat.zero_add] at this
        rw [← this]; congr 1; omega
  cases v with
  | reg x =>
    exact single x hwt.2 he rfl
  | opt o =>
    cases o with
    | none =>
      simp only [encField, Except.ok.injEq] at he
      subst he
      exact ⟨[], by simp [Decodes, scalarsOf], rfl, by simp, by intro g; simp⟩
    | some x =>
      exact single x hwt.2 (by simpa [encField] using he) rfl
  | vec vs =>
    cases vs with
    | nil =>
      simp only [encField, Except.ok.injEq] at he
      subst he
      exact ⟨[], by simp [Decodes, scalarsOf], rfl, by simp, by intro g; simp⟩
    | cons x rest =>
      simp only [encField] at he
      cases ha : encSlice (x :: rest) with
      | error err => simp [ha] at he
      | ok a =>
        simp only [ha, Except.ok.injEq] at he
        subst he
        obtain ⟨raws, hd, hl, hrest⟩ := readParams_slice f.ty f.name (x :: rest) (by simp) hwt.2 a ha tail ht
        have hla := encSlice_length (x :: rest) (by simp) a ha
        refine ⟨raws, hd, hl, ?_, ?_⟩
        · rw [hl]; simp only [List.length_append, List.length_cons, List.length_nil] at hla ⊢; omega
        · intro g
          have hk : (x :: rest).length ≠ 0 := by simp
          have hcat : [32] ++ f.name ++ [58] ++ digits (x :: rest).length ++ [61] ++ a ++ tail =
              32 :: (f.name ++ 58 :: digits (x :: rest).length ++ 61 :: (a ++ tail)) := by simp
          rw [hcat, hl]
          have hfuel : (x :: rest).length + g = (rest.length + g) + 1 := by simp; omega
          rw [hfuel]
          have hseek := seekChar_name f.name (58 :: digits (x :: rest).length ++ 61 :: (a ++ tail)) hne hnb
          have hassoc : f.name ++ (58 :: digits (x :: rest).length ++ 61 :: (a ++ tail)) =
              f.name ++ 58 :: digits (x :: rest).length ++ 61 :: (a ++ tail) := by simp
          rw [hassoc] at hseek
          rw [readParams_start _ _ _ (a ++ tail) f.name (x :: rest).length hseek
            (C11_param_count_roundtrip f.name (a ++ tail) (x :: rest).length hnb hk (by simpa [scalarsOf] using hcnt))]
          rw [← hfuel]
          exact hrest g

/-! ## all parameters of a line -/

/-- the `(name, raw value)` pairs the loop yields for a list of `(field, value)` entries, in order -/
def PairsFor : List (Field × FVal) → List (Bytes × Bytes) → Prop
  | [], ps => ps = []
  | (f, v) :: rest, ps =>
    ∃ raws qs, ps = raws.map (fun r => (f.name, r)) ++ qs ∧ Decodes f.ty raws (scalarsOf v) ∧ PairsFor rest qs

theorem encField_sep (f : Field) (v : FVal) (e : Bytes) (he : encField f v = .ok e) : Sep e := by
  cases v with
  | reg x =>
    simp only [encField] at he
    cases ha : encScalar x with
    | error err => simp [ha] at he
    | ok a => simp only [ha, Except.ok.injEq] at he; subst he; exact Or.inr ⟨_, by simp only [List.singleton_append, List.cons_append, List.append_assoc]; rfl⟩
  | opt o =>
    cases o with
    | none => simp only [encField, Except.ok.injEq] at he; subst he; exact Or.inl rfl
    | some x =>
      simp only [encField] at he
      cases ha : encScalar x with
      | error err => simp [ha] at he
      | ok a => simp only [ha, Except.ok.injEq] at he; subst he; exact Or.inr ⟨_, by simp only [List.singleton_append, List.cons_append, List.append_assoc]; rfl⟩
  | vec vs =>
    cases vs with
    | nil => simp only [encField, Except.ok.injEq] at he; subst he; exact Or.inl rfl
    | cons x rest =>
      simp only [encField] at he
      cases ha : encSlice (x :: rest) with
      | error err => simp [ha] at he
      | ok a => simp only [ha, Except.ok.injEq] at he; subst he; exact Or.inr ⟨_, by simp only [List.singleton_append, List.cons_append, List.append_assoc]; rfl⟩

theorem encFields_cons (f : Field) (v : FVal) (rest : List (Field × FVal)) (e : Bytes) (he : encFields ((f, v) :: rest) = .ok e) :
    ∃ a b, encField f v = .ok a ∧ encFields rest = .ok b ∧ e = a ++ b := by
  simp only [encFields] at he
  cases ha : encField f v with
  | error err => simp [ha] at he
  | ok a =>
    cases hb : encFields rest with
    | error err => simp [ha, hb] at he
    | ok b =>
      simp only [ha, hb, Except.ok.injEq] at he
      exact ⟨a, b, rfl, rfl, he.symm⟩

theorem encFields_sep (fvs : List (Field × FVal)) (e : Bytes) (he : encFields fvs = .ok e) : Sep e := by
  induction fvs generalizing e with
  | nil => simp only [encFields, Except.ok.injEq] at he; subst he; exact Or.inl rfl
  | cons p rest ih =>
    obtain ⟨f, v⟩ := p
    obtain ⟨a, b, ha, hb, rfl⟩ := encFields_cons f v rest e he
    rcases encField_sep f v a ha with h | ⟨t, h⟩
    · subst h; simpa using ih b hb
    · subst h; exact Or.inr ⟨t ++ b, by simp⟩

/-- **the parameter loop inverts the parameter writer** -/
theorem readParams_fields (fvs : List (Field × FVal)) (hn : ∀ p ∈ fvs, NameOK p.1) (hwt : ∀ p ∈ fvs, FValWT p.1 p.2)
    (hcnt : ∀ p ∈ fvs, (scalarsOf p.2).length ≤ 2 ^ 64 - 1) (e : Bytes) (he : encFields fvs = .ok e) :
    ∃ ps, PairsFor fvs ps ∧ 2 * ps.length ≤ e.length ∧
      ∀ g, readParams (ps.length + g) e none = consPairs ps (readParams g [] none) := by
  induction fvs generalizing e with
  | nil =>
    simp only [encFields, Except.ok.injEq] at he
    subst he
    exact ⟨[], rfl, by simp, by intro g; simp⟩
  | cons p rest ih =>
    obtain ⟨f, v⟩ := p
    obtain ⟨a, b, ha, hb, rfl⟩ := encFields_cons f v rest e he
    obtain ⟨qs, hq, hql, hqr⟩ := ih (fun p hp => hn p (by simp [hp])) (fun p hp => hwt p (by simp [hp]))
      (fun p hp => hcnt p (by simp [hp])) b hb
    obtain ⟨raws, hd, _, hrl, hrr⟩ := readParams_field f v (hn (f, v) (by simp)) (hwt (f, v) (by simp)) a ha
      (hcnt (f, v) (by simp)) b (encFields_sep rest b hb)
    refine ⟨raws.map (fun r => (f.name, r)) ++ qs, ⟨raws, qs, rfl, hd, hq⟩, ?_, ?_⟩
    · simp only [List.length_append, List.length_map]; omega
    · intro g
      have hfuel : (raws.map (fun r => (f.name, r)) ++ qs).length + g = raws.length + (qs.length + g) := by
        simp only [List.length_append, List.length_map]; omega
      rw [hfuel, hrr (qs.length + g), hqr g, consPairs_append]

/-! ## field assignment -/

/-- what `assign` does to the slot of the field that takes a decoded scalar -/
def upd (f : Field) (v : FVal) (x : Scalar) : FVal :=
  match f.kind, v with
  | .regular, _ => .reg x
  | .optional, _ => .opt (some x)
  | .vec, .vec old => .vec (old ++ [x])
  | .vec, _ => .vec [x]

theorem assign_hit (pre post : List Field) (vpre vpost : List FVal) (f : Field) (v : FVal) (raw : Bytes) (x : Scalar)
    (hlen : pre.length = vpre.length) (hfresh : ∀ g ∈ pre, g.name ≠ f.name) (hdec : decScalar f.ty raw = some x) :
    assign (pre ++ f :: post) (vpre ++ v :: vpost) f.name raw = some (vpre ++ upd f v x :: vpost) := by
  induction pre generalizing vpre with
  | nil =>
    cases vpre with
    | nil =>
      simp only [List.nil_append, assign, if_true, hdec, upd]
      cases hk : f.kind <;> cases v <;> simp
    | cons _ _ => simp at hlen
  | cons g gs ih =>
    cases vpre with
    | nil => simp at hlen
    | cons w ws =>
      have hne : g.name ≠ f.name := hfresh g (by simp)
      simp only [List.cons_append, assign, hne, if_false]
      rw [ih ws (by simpa using hlen) (fun g' hg' => hfresh g' (by simp [hg']))]
      simp

theorem assignAll_append (fields : List Field) (vals : List FVal) (ps qs : List (Bytes × Bytes)) :
    assignAll fields vals (ps ++ qs) = (assignAll fields vals ps).bind (fun v => assignAll fields v qs) := by
  induction ps generalizing vals with
  | nil => simp [assignAll]
  | cons p rest ih =>
    obtain ⟨nm, raw⟩ := p
    simp only [List.cons_append, assignAll]
    cases assign fields vals nm raw with
    | none => simp
    | some v' => simp [ih]

/-- all the raw values of one field, assigned one after the other -/
theorem assignAll_field (pre post : List Field) (vpre vpost : List FVal) (f : Field) (v : FVal) (raws : List Bytes)
    (xs : List Scalar) (hlen : pre.length = vpre.length) (hfresh : ∀ g ∈ pre, g.name ≠ f.name) (hd : Decodes f.ty raws xs) :
    assignAll (pre ++ f :: post) (vpre ++ v :: vpost) (raws.map (fun r => (f.name, r))) =
      some (vpre ++ xs.foldl (upd f) v :: vpost) := by
  induction raws generalizing xs v with
  | nil =>
    cases xs with
    | nil => simp [assignAll]
    | cons _ _ => simp [Decodes] at hd
  | cons r rs ih =>
    cases xs with
    | nil => simp [Decodes] at hd
    | cons x xs' =>
      simp only [Decodes, List.map_cons, List.cons.injEq] at hd
      simp only [List.map_cons, assignAll, assign_hit pre post vpre vpost f v r x hlen hfresh hd.1]
      rw [ih (upd f v x) xs' hd.2]
      simp

theorem foldl_upd_vec (f : Field) (hk : f.kind = .vec) (old xs : List Scalar) :
    xs.foldl (upd f) (.vec old) = .vec (old ++ xs) := by
  induction xs generalizing old with
  | nil => simp
  | cons x rest ih => simp only [List.foldl_cons, upd, hk]; rw [ih]; simp

/-- from the default slot, the scalars of a well-typed value rebuild that value -/
theorem foldl_upd_default (f : Field) (v : FVal) (hwt : FValWT f v) : (scalarsOf v).foldl (upd f) (defaultVal f) = v := by
  cases v with
  | reg x => simp [scalarsOf, upd, hwt.1]
  | opt o =>
    cases o with
    | none => simp [scalarsOf, defaultVal, FValWT] at hwt ⊢; simp [hwt]
    | some x => simp [scalarsOf, upd, hwt.1]
  | vec vs =>
    simp only [scalarsOf, defaultVal, hwt.1]
    rw [foldl_upd_vec f hwt.1]; simp

/-! ## the slots after some of the entries have been processed -/

/-- slot values when the entries whose names are in `done` have been assigned and the others are still at their default -/
def stateOf (Z : List (Field × FVal)) (done : List Bytes) : List FVal :=
  Z.map (fun p => if p.1.name ∈ done then p.2 else defaultVal p.1)

theorem stateOf_nil (Z : List (Field × FVal)) : stateOf Z [] = (Z.map (·.1)).map defaultVal := by
  simp [stateOf]

theorem stateOf_all (Z : List (Field × FVal)) (done : List Bytes) (h : ∀ p ∈ Z, p.1.name ∈ done) :
    stateOf Z done = Z.map (·.2) := by
  unfold stateOf
  apply List.map_congr_left
  intro p hp
  simp [h p hp]

/-- processing one entry from a state in which it is still at its default -/
theorem assign_entry (Z : List (Field × FVal)) (hnd : (Z.map (·.1.name)).Nodup) (done : List Bytes) (f : Field) (v : FVal)
    (hmem : (f, v) ∈ Z) (hfresh : f.name ∉ done) (hwt : FValWT f v) (raws : List Bytes) (hd : Decodes f.ty raws (scalarsOf v)) :
    assignAll (Z.map (·.1)) (stateOf Z done) (raws.map (fun r => (f.name, r))) = some (stateOf Z (f.name :: done)) := by
  obtain ⟨Zpre, Zpost, rfl⟩ := List.append_of_mem hmem
  simp only [List.map_append, List.map_cons, List.nodup_append, List.nodup_cons, List.mem_map, List.mem_cons,
    List.mem_append] at hnd
  obtain ⟨_, ⟨hnotpost, _⟩, hdisj⟩ := hnd
  have hpre : ∀ p ∈ Zpre, p.1.name ≠ f.name := by
    intro p hp heq
    exact hdisj _ ⟨p, hp, rfl⟩ _ (Or.inl rfl) heq
  have hpost : ∀ p ∈ Zpost, p.1.name ≠ f.name := by
    intro p hp heq
    exact hnotpost ⟨p, hp, heq⟩
  have hst : ∀ d, stateOf (Zpre ++ (f, v) :: Zpost) d =
      stateOf Zpre d ++ (if f.name ∈ d then v else defaultVal f) :: stateOf Zpost d := by
    intro d; simp [stateOf]
  rw [hst done, if_neg hfresh]
  simp only [List.map_append, List.map_cons]
  rw [assignAll_field (Zpre.map (·.1)) (Zpost.map (·.1)) (stateOf Zpre done) (stateOf Zpost done) f (defaultVal f) raws
    (scalarsOf v) (by simp [stateOf]) (by
      intro g hg
      simp only [List.mem_map] at hg
      obtain ⟨p, hp, rfl⟩ := hg
      exact hpre p hp) hd]
  rw [foldl_upd_default f v hwt, hst (f.name :: done)]
  simp only [List.mem_cons, true_or, if_true]
  have e1 : stateOf Zpre done = stateOf Zpre (f.name :: done) := by
    unfold stateOf
    apply List.map_congr_left
    intro p hp
    have := hpre p hp
    simp [this]
  have e2 : stateOf Zpost done = stateOf Zpost (f.name :: done) := by
    unfold stateOf
    apply List.map_congr_left
    intro p hp
    have := hpost p hp
    simp [this]
  rw [e1, e2]

/-- processing a list of distinct entries -/
theorem assign_entries (Z : List (Field × FVal)) (hnd : (Z.map (·.1.name)).Nodup) (L : List (Field × FVal))
    (hsub : ∀ e ∈ L, e ∈ Z) (hL : (L.map (·.1.name)).Nodup) (hwt : ∀ e ∈ L, FValWT e.1 e.2) (done : List Bytes)
    (hfresh : ∀ e ∈ L, e.1.name ∉ done) (ps : List (Bytes × Bytes)) (hps : PairsFor L ps) :
    assignAll (Z.map (·.1)) (stateOf Z done) ps = some (stateOf Z (L.reverse.map (·.1.name) ++ done)) := by
  induction L generalizing done ps with
  | nil =>
    simp only [PairsFor] at hps
    subst hps
    simp [assignAll]
  | cons e rest ih =>
    obtain ⟨f, v⟩ := e
    obtain ⟨raws, qs, rfl, hd, hq⟩ := hps
    simp only [List.map_cons, List.nodup_cons, List.mem_map] at hL
    rw [assignAll_append, assign_entry Z hnd done f v (hsub (f, v) (by simp)) (hfresh (f, v) (by simp))
      (hwt (f, v) (by simp)) raws hd]
    simp only [Option.bind_some]
    rw [ih (fun e he => hsub e (by simp [he])) hL.2 (fun e he => hwt e (by simp [he])) (f.name :: done) (by
      intro e he
      simp only [List.mem_cons, not_or]
      refine ⟨?_, hfresh e (by simp [he])⟩
      intro heq
      exact hL.1 ⟨e, he, heq⟩) qs hq]
    simp

/-! ## the canonical order is a permutation of the fields -/

theorem insertByName_perm (x : Field × FVal) (l : List (Field × FVal)) : (insertByName x l).Perm (x :: l) := by
  induction l with
  | nil => simp [insertByName]
  | cons y ys ih =>
    simp only [insertByName]
    split
    · exact List.Perm.refl _
    · exact (List.Perm.cons y ih).trans (List.Perm.swap x y ys)

theorem foldr_insertByName_perm (l : List (Field × FVal)) : (l.foldr insertByName []).Perm l := by
  induction l with
  | nil => simp
  | cons x xs ih =>
    simp only [List.foldr_cons]
    exact (insertByName_perm x _).trans (List.Perm.cons x ih)

theorem canonical_perm (Z : List (Field × FVal)) (hnd : (Z.map (·.1.name)).Nodup) : (canonical Z).Perm Z := by
  unfold canonical
  have hlen : (Z.filter (fun p => p.1.name = idName)).length ≤ 1 := by
    induction Z with
    | nil => simp
    | cons p rest ih =>
      simp only [List.map_cons, List.nodup_cons, List.mem_map, not_exists, not_and] at hnd
      simp only [List.filter_cons]
      split
      · next hid =>
        have hnone : rest.filter (fun p => decide (p.1.name = idName)) = [] := by
          apply List.filter_eq_nil_iff.mpr
          intro q hq
          have := hnd.1 q hq
          simp only [decide_eq_true_eq] at hid ⊢
          intro hq2
          exact this (by rw [hq2, hid])
        simp [hnone]
      · exact ih hnd.2
  have htake : (Z.filter (fun p => p.1.name = idName)).take 1 = Z.filter (fun p => p.1.name = idName) :=
    List.take_of_length_le hlen
  rw [htake]
  have h2 := foldr_insertByName_perm (Z.filter (fun p => p.1.name ≠ idName))
  have h3 : (Z.filter (fun p => p.1.name = idName) ++ Z.filter (fun p => p.1.name ≠ idName)).Perm Z := by
    have := List.filter_append_perm (fun p : Field × FVal => decide (p.1.name = idName)) Z
    simpa using this
  exact (List.Perm.append_left _ h2).trans h3

/-! ## the line as a whole -/

theorem findSpec_at (S : Schema) (i k : Nat) (spec : MsgSpec) (hk : S[k]? = some spec)
    (hnd : (S.map (·.wire)).Nodup) : findSpec S spec.wire i = some (i + k, spec) := by
  induction S generalizing i k with
  | nil => simp at hk
  | cons sp rest ih =>
    simp only [List.map_cons, List.nodup_cons, List.mem_map, not_exists, not_and] at hnd
    cases k with
    | zero =>
      simp only [List.getElem?_cons_zero, Option.some.injEq] at hk
      subst hk
      simp [findSpec]
    | succ k' =>
      simp only [List.getElem?_cons_succ] at hk
      have hne : sp.wire ≠ spec.wire := by
        intro heq
        exact hnd.1 spec (List.mem_of_getElem? hk) heq.symm
      simp only [findSpec, hne, if_false]
      rw [ih (i + 1) k' hk hnd.2]
      congr 2; omega

/-- vectors hold fewer than 2^64 elements (a Rust `Vec` cannot hold more; the count is written as a `usize`) -/
def VecBounded (m : Msg) : Prop := ∀ v ∈ m.vals, (scalarsOf v).length ≤ 2 ^ 64 - 1

/-- **C11 (round trip), whole messages**: for every well-formed schema — in particular the one regenerated from
    `message.rs` — every well-typed message of every kind that the encoder accepts is written as a line whose body the
    decoder reads back as exactly that message. -/
theorem C11_roundtrip (S : Schema) (hS : SchemaOK S = true) (cap : Nat) (m : Msg) (body : Bytes) (hwt : MsgWT S m)
    (hvb : VecBounded m) (henc : encode S cap m = .ok (body ++ [10])) : decode S body = .ok m := by
  obtain ⟨spec, hspec, hlen, hvals⟩ := hwt
  -- unpack the schema's well-formedness for this kind
  simp only [SchemaOK, Bool.and_eq_true, List.all_eq_true, decide_eq_true_eq] at hS
  obtain ⟨⟨⟨hwire, hwnd⟩, hfields⟩, _⟩ := hS
  have hmem : spec ∈ S := List.mem_of_getElem? hspec
  have hw := hwire spec hmem
  have hf := hfields spec hmem
  try simp only [Bool.and_eq_true, List.all_eq_true, decide_eq_true_eq] at hf
  obtain ⟨hnames, hnd⟩ := hf
  -- unpack the encoder
  unfold encode at henc
  simp only [hspec] at henc
  split at henc
  · cases henc
  · next hval =>
    have hvalid : validate spec m.vals = true := by simpa using hval
    split at henc
    · cases henc
    · next psb hpsb =>
      split at henc
      · next hcap =>
        simp only [Except.ok.injEq] at henc
        have hbody : body = spec.wire ++ psb := by
          have : spec.wire ++ psb ++ [10] = body ++ [10] := henc
          exact (List.append_cancel_right this).symm
        subst hbody
        -- the entries
        let Z := spec.fields.zip m.vals
        have hZ1 : Z.map (·.1) = spec.fields := by
          show (spec.fields.zip m.vals).map (·.1) = spec.fields
          rw [List.map_fst_zip]; omega
        have hZ2 : Z.map (·.2) = m.vals := by
          show (spec.fields.zip m.vals).map (·.2) = m.vals
          rw [List.map_snd_zip]; omega
        have hZnd : (Z.map (·.1.name)).Nodup := by
          have : Z.map (·.1.name) = (Z.map (·.1)).map (·.name) := by simp
          rw [this, hZ1]; exact hnd
        have hperm := canonical_perm Z hZnd
        have hnameOK : ∀ p ∈ canonical Z, NameOK p.1 := by
          intro p hp
          have hpz := (hperm.mem_iff).mp hp
          have hfm : p.1 ∈ spec.fields := (List.of_mem_zip hpz).1
          have := hnames p.1 hfm
          simp only [Bool.and_eq_true, Bool.not_eq_true', List.all_eq_true] at this
          exact ⟨by intro h; simp [h] at this, this.2⟩
        have hwtL : ∀ p ∈ canonical Z, FValWT p.1 p.2 := fun p hp => hvals p ((hperm.mem_iff).mp hp)
        have hcntL : ∀ p ∈ canonical Z, (scalarsOf p.2).length ≤ 2 ^ 64 - 1 := by
          intro p hp
          exact hvb p.2 (List.of_mem_zip ((hperm.mem_iff).mp hp)).2
        obtain ⟨ps, hps, hpl, hpr⟩ := readParams_fields (canonical Z) hnameOK hwtL hcntL psb hpsb
        have hsep := encFields_sep (canonical Z) psb hpsb
        -- the message name
        have hwplain : ∀ b ∈ spec.wire, b ≠ 0 ∧ isSpace b = false := by
          intro b hb
          simp only [bytesPlain, Bool.and_eq_true, List.all_eq_true, Bool.not_eq_true', decide_eq_true_eq] at hw
          have := hw.2 b hb
          exact ⟨this.1.1.1, this.1.1.2⟩
        have hwne : spec.wire ≠ [] := by
          simp only [bytesPlain, Bool.and_eq_true, Bool.not_eq_true'] at hw
          intro h; simp [h] at hw
        obtain ⟨htok, haft⟩ := token_of_plain spec.wire psb hwplain hsep
        have hseek : seekChar (spec.wire ++ psb) = some (spec.wire ++ psb) := by
          cases hwc : spec.wire with
          | nil => exact absurd hwc hwne
          | cons b r =>
            have := hwplain b (by rw [hwc]; simp)
            rw [List.cons_append]
            exact seekChar_cons this.1 this.2
        unfold decode
        simp only [readString, hseek, htok, haft]
        have hfind := findSpec_at S 0 m.kind spec hspec hwnd
        try simp only [Nat.zero_add] at hfind
        simp only [hfind]
        -- the parameter loop, with the fuel `decode` gives it
        have hfuel : (psb.drop 1).length + 1 = ps.length + ((psb.drop 1).length + 1 - ps.length) := by
          have : ps.length ≤ (psb.drop 1).length + 1 := by
            simp only [List.length_drop]; omega
          omega
        have hloop : readParams ((psb.drop 1).length + 1) (psb.drop 1) none = .ok ps := by
          rw [readParams_seek_congr _ (psb.drop 1) psb none (Sep.seek_drop hsep), hfuel, hpr]
          have hg : (psb.drop 1).length + 1 - ps.length = ((psb.drop 1).length - ps.length) + 1 := by
            have : 2 * ps.length ≤ psb.length := hpl
            simp only [List.length_drop]
            omega
          rw [hg, readParams_end]
          simp [consPairs]
        simp only [hloop]
        -- the assignment
        have hassign : assignAll spec.fields (spec.fields.map defaultVal) ps = some m.vals := by
          have h0 : spec.fields.map defaultVal = stateOf Z [] := by rw [stateOf_nil, hZ1]
          have := assign_entries Z hZnd (canonical Z) (fun e he => (hperm.mem_iff).mp he)
            ((hperm.map (·.1.name)).nodup_iff.mpr hZnd) hwtL [] (by intro e _; simp) ps hps
          rw [hZ1] at this
          rw [h0, this, stateOf_all, hZ2]
          intro p hp
          simp only [List.append_nil, List.mem_map, List.mem_reverse]
          exact ⟨p, (hperm.mem_iff).mpr hp, rfl⟩
        simp only [hassign, hvalid, if_true]
      · cases henc

/-- the same for the schema the code defines today -/
theorem C11_roundtrip_schema (cap : Nat) (m : Msg) (body : Bytes) (hwt : MsgWT Generated.schema m) (hvb : VecBounded m)
    (henc : encode Generated.schema cap m = .ok (body ++ [10])) : decode Generated.schema body = .ok m :=
  C11_roundtrip Generated.schema schema_ok cap m body hwt hvb henc

/-- `C11_roundtrip_full` as first stated has no bound on vector lengths; with the bound a Rust `Vec` satisfies by
    construction it is exactly `C11_roundtrip` -/
theorem C11_roundtrip_full_of_bounded (S : Schema) (hS : SchemaOK S = true) :
    ∀ (cap : Nat) (m : Msg) (body : Bytes), MsgWT S m → VecBounded m → encode S cap m = .ok (body ++ [10]) →
      decode S body = .ok m :=
  fun cap m body hwt hvb henc => C11_roundtrip S hS cap m body hwt hvb henc

end Narwhal.Codec

#print axioms Narwhal.Codec.C11_roundtrip
#print axioms Narwhal.Codec.C11_roundtrip_schema
