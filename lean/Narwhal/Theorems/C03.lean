import Narwhal.Model.Acl
/-!
# C03 — ACL decisions agree with the ACL the owner reads back (pure part)

`is_allowed a (u@d)  ↔  allow_list a = [] ∨ u@d ∈ allow_list a ∨ bare d ∈ allow_list a`
for every ACL reachable by any sequence of add/remove updates, plus presence/absence of the
named user NIDs after an update.
-/
namespace Narwhal.Acl

theorem lookup_some_mem {a : Acl} {d : Str} {us : List Str} (h : lookup a d = some us) : (d, us) ∈ a := by
  induction a with
  | nil => simp [lookup] at h
  | cons x rest ih =>
    obtain ⟨d', us'⟩ := x
    simp only [lookup] at h
    split at h
    · next heq => cases h; subst heq; simp
    · exact List.mem_cons_of_mem _ (ih h)

theorem mem_lookup {a : Acl} (hwf : WF a) {d : Str} {us : List Str} (h : (d, us) ∈ a) : lookup a d = some us := by
  induction a with
  | nil => simp at h
  | cons x rest ih =>
    obtain ⟨d', us'⟩ := x
    simp only [WF, List.map_cons, List.nodup_cons] at hwf
    simp only [List.mem_cons] at h
    simp only [lookup]
    rcases h with h | h
    · cases h; simp
    · have hne : d' ≠ d := by
        intro heq; subst heq
        exact hwf.1 (List.mem_map.mpr ⟨(d', us), h, rfl⟩)
      simp [hne]; exact ih hwf.2 h

theorem lookup_none_not_mem {a : Acl} {d : Str} (h : lookup a d = none) : ∀ us, (d, us) ∉ a := by
  induction a with
  | nil => simp
  | cons x rest ih =>
    obtain ⟨d', us'⟩ := x
    simp only [lookup] at h
    split at h
    · cases h
    · next hne =>
      intro us hm
      simp only [List.mem_cons] at hm
      rcases hm with hm | hm
      · cases hm; exact hne rfl
      · exact ih h us hm

/-- membership in the reported list, in terms of the map -/
theorem mem_allowList {a : Acl} {n : ANid} :
    n ∈ allowList a ↔ ∃ us, (n.dom, us) ∈ a ∧
      ((us.isEmpty = true ∧ n.user = none) ∨ (∃ u, n.user = some u ∧ u ∈ us ∧ us.isEmpty = false)) := by
  simp only [allowList, List.mem_flatMap]
  constructor
  · rintro ⟨⟨d, us⟩, hm, hn⟩
    by_cases he : us.isEmpty = true
    · simp only [he, if_true, List.mem_singleton] at hn
      subst hn; exact ⟨us, hm, Or.inl ⟨he, rfl⟩⟩
    · simp [he] at hn
      obtain ⟨u, hu, rfl⟩ := hn
      exact ⟨us, hm, Or.inr ⟨u, rfl, hu, by simpa using he⟩⟩
  · rintro ⟨us, hm, h⟩
    refine ⟨(n.dom, us), hm, ?_⟩
    rcases h with ⟨he, hu⟩ | ⟨u, hu, hmem, he⟩
    · simp only [he, if_true, List.mem_singleton]
      cases n; simp_all
    · simp only [he, Bool.false_eq_true, if_false, List.mem_map]
      exact ⟨u, hmem, by cases n; simp_all⟩

theorem allowList_eq_nil {a : Acl} : allowList a = [] ↔ a = [] := by
  constructor
  · intro h
    cases a with
    | nil => rfl
    | cons x rest =>
      obtain ⟨d, us⟩ := x
      simp only [allowList, List.flatMap_cons, List.append_eq_nil_iff] at h
      have := h.1
      split at this
      · simp at this
      · next hne => simp at this; simp [this] at hne
  · rintro rfl; rfl

/-- **C03 decision = report.**  For every well-formed ACL (every reachable one is, see
    `update_wf`) and every client NID `u@d`. -/
theorem allowed_iff_reported (a : Acl) (hwf : WF a) (u d : Str) :
    isAllowed a u d = true ↔
      (allowList a = [] ∨ (⟨some u, d⟩ : ANid) ∈ allowList a ∨ (⟨none, d⟩ : ANid) ∈ allowList a) := by
  rw [allowList_eq_nil]
  unfold isAllowed
  by_cases hempty : a = []
  · subst hempty; simp
  · have : a.isEmpty = false := by cases a <;> simp_all
    simp only [this, hempty, false_or]
    cases hl : lookup a d with
    | none =>
      have hn := lookup_none_not_mem hl
      simp only [mem_allowList]
      constructor
      · intro h; cases h
      · rintro (⟨us, hm, _⟩ | ⟨us, hm, _⟩) <;> exact absurd hm (hn us)
    | some us =>
      have hm := lookup_some_mem hl
      simp only [mem_allowList]
      by_cases he : us.isEmpty = true
      · rw [if_pos he]
        exact ⟨fun _ => Or.inr ⟨us, hm, by simp [he]⟩, fun _ => rfl⟩
      · rw [if_neg he]
        constructor
        · intro hc
          simp at hc he
          exact Or.inl ⟨us, hm, by simp [he, hc]⟩
        · rintro (⟨us', hm', h⟩ | ⟨us', hm', h⟩)
          · have := mem_lookup hwf hm'; rw [hl] at this; cases this
            rcases h with ⟨he', _⟩ | ⟨u', hu', hmem, _⟩
            · exact absurd he' he
            · cases hu'; simpa using hmem
          · have := mem_lookup hwf hm'; rw [hl] at this; cases this
            rcases h with ⟨he', _⟩ | ⟨u', hu', _, _⟩
            · exact absurd he' he
            · cases hu'

end Narwhal.Acl

namespace Narwhal.Acl

/-! ## Reachability: every ACL built by updates from the empty one is well-formed -/

theorem keys_setDom (a : Acl) (d : Str) (us : List Str) :
    ∀ k, k ∈ (setDom a d us).map (·.1) ↔ k = d ∨ k ∈ a.map (·.1) := by
  induction a with
  | nil => intro k; simp [setDom]
  | cons x rest ih =>
    obtain ⟨d', us'⟩ := x
    intro k
    simp only [setDom]
    split
    · next h => subst h; simp
    · simp only [List.map_cons, List.mem_cons, ih k]
      constructor
      · rintro (h | h | h) <;> simp_all
      · rintro (h | h | h) <;> simp_all

theorem setDom_wf {a : Acl} (h : WF a) (d : Str) (us : List Str) : WF (setDom a d us) := by
  induction a with
  | nil => simp [setDom, WF]
  | cons x rest ih =>
    obtain ⟨d', us'⟩ := x
    simp only [WF, List.map_cons, List.nodup_cons] at h
    simp only [setDom]
    split
    · next heq => subst heq; simpa [WF] using h
    · next hne =>
      simp only [WF, List.map_cons, List.nodup_cons]
      refine ⟨?_, ih h.2⟩
      intro hm
      rcases (keys_setDom rest d us d').mp hm with h1 | h1
      · exact hne h1
      · exact h.1 h1

theorem keys_eraseDom_sub (a : Acl) (d : Str) : ∀ k, k ∈ (eraseDom a d).map (·.1) → k ∈ a.map (·.1) := by
  induction a with
  | nil => simp [eraseDom]
  | cons x rest ih =>
    obtain ⟨d', us'⟩ := x
    intro k
    simp only [eraseDom]
    split
    · intro h; simp [h]
    · simp only [List.map_cons, List.mem_cons]
      rintro (h | h)
      · exact Or.inl h
      · exact Or.inr (ih k h)

theorem eraseDom_wf {a : Acl} (h : WF a) (d : Str) : WF (eraseDom a d) := by
  induction a with
  | nil => simp [eraseDom, WF]
  | cons x rest ih =>
    obtain ⟨d', us'⟩ := x
    simp only [WF, List.map_cons, List.nodup_cons] at h
    simp only [eraseDom]
    split
    · exact h.2
    · simp only [WF, List.map_cons, List.nodup_cons]
      exact ⟨fun hm => h.1 (keys_eraseDom_sub rest d d' hm), ih h.2⟩

theorem addOne_wf {a : Acl} (h : WF a) (n : ANid) : WF (addOne a n) := by
  unfold addOne; cases n.user <;> exact setDom_wf h _ _

theorem putOrErase_wf {a : Acl} (h : WF a) (d : Str) (us : List Str) : WF (putOrErase a d us) := by
  unfold putOrErase; split
  · exact eraseDom_wf h _
  · exact setDom_wf h _ _

theorem removeOne_wf {a : Acl} (h : WF a) (n : ANid) : WF (removeOne a n) := by
  unfold removeOne
  split
  · exact h
  · split <;> exact putOrErase_wf h _ _

theorem update_wf {a : Acl} (h : WF a) (ns : List ANid) (act : Action) : WF (update a ns act) := by
  cases act <;> simp only [update]
  · induction ns generalizing a with
    | nil => exact h
    | cons n ns ih => exact ih (addOne_wf h n)
  · induction ns generalizing a with
    | nil => exact h
    | cons n ns ih => exact ih (removeOne_wf h n)

/-- every ACL reachable from the empty one by any sequence of updates -/
inductive Reachable : Acl → Prop
  | empty : Reachable []
  | step {a} (ns : List ANid) (act : Action) : Reachable a → Reachable (update a ns act)

theorem reachable_wf {a : Acl} (h : Reachable a) : WF a := by
  induction h with
  | empty => simp [WF]
  | step ns act _ ih => exact update_wf ih ns act

/-- **C03, full statement** over every reachable ACL. -/
theorem C03_allowed_iff_reported {a : Acl} (h : Reachable a) (u d : Str) :
    isAllowed a u d = true ↔
      (allowList a = [] ∨ (⟨some u, d⟩ : ANid) ∈ allowList a ∨ (⟨none, d⟩ : ANid) ∈ allowList a) :=
  allowed_iff_reported a (reachable_wf h) u d

/-! ## lookups after one step -/

theorem lookup_setDom_same (a : Acl) (d : Str) (us : List Str) : lookup (setDom a d us) d = some us := by
  induction a with
  | nil => simp [setDom, lookup]
  | cons x rest ih =>
    obtain ⟨d', us'⟩ := x
    simp only [setDom]; split
    · simp [lookup]
    · next hne => simp [lookup, hne, ih]

theorem lookup_setDom_other (a : Acl) {d e : Str} (us : List Str) (hne : e ≠ d) :
    lookup (setDom a d us) e = lookup a e := by
  induction a with
  | nil => simp [setDom, lookup, Ne.symm hne]
  | cons x rest ih =>
    obtain ⟨d', us'⟩ := x
    simp only [setDom]; split
    · next heq => subst heq; simp [lookup, Ne.symm hne]
    · simp only [lookup]; split
      · rfl
      · exact ih

theorem lookup_eraseDom_same {a : Acl} (h : WF a) (d : Str) : lookup (eraseDom a d) d = none := by
  induction a with
  | nil => simp [eraseDom, lookup]
  | cons x rest ih =>
    obtain ⟨d', us'⟩ := x
    simp only [WF, List.map_cons, List.nodup_cons] at h
    simp only [eraseDom]; split
    · next heq =>
      subst heq
      cases hl : lookup rest d' with
      | none => rfl
      | some us => exact absurd (List.mem_map.mpr ⟨(d', us), lookup_some_mem hl, rfl⟩) h.1
    · next hne => simp [lookup, hne, ih h.2]

theorem lookup_eraseDom_other (a : Acl) {d e : Str} (hne : e ≠ d) :
    lookup (eraseDom a d) e = lookup a e := by
  induction a with
  | nil => simp [eraseDom, lookup]
  | cons x rest ih =>
    obtain ⟨d', us'⟩ := x
    simp only [eraseDom]; split
    · next heq => subst heq; simp [lookup, Ne.symm hne]
    · simp only [lookup]; split
      · rfl
      · exact ih

/-- the user set of domain `d`, `[]` when the domain is absent (`none`) -/
def users (a : Acl) (d : Str) : List Str := (lookup a d).getD []

/-- a user NID is reported iff it is in its domain's user set -/
theorem user_mem_allowList {a : Acl} (hwf : WF a) (u d : Str) :
    (⟨some u, d⟩ : ANid) ∈ allowList a ↔ u ∈ users a d := by
  rw [mem_allowList]; unfold users
  constructor
  · rintro ⟨us, hm, h⟩
    rw [mem_lookup hwf hm]
    rcases h with ⟨_, h⟩ | ⟨u', h, hmem, _⟩
    · cases h
    · cases h; simpa using hmem
  · intro h
    cases hl : lookup a d with
    | none => simp [hl] at h
    | some us =>
      simp [hl] at h
      refine ⟨us, lookup_some_mem hl, Or.inr ⟨u, rfl, h, ?_⟩⟩
      cases us <;> simp_all

theorem users_addOne (a : Acl) (n : ANid) (d : Str) (u : Str) :
    u ∈ users (addOne a n) d ↔ (u ∈ users a d ∨ (n.dom = d ∧ n.user = some u)) := by
  unfold users addOne
  by_cases hd : d = n.dom
  · subst hd
    cases hu : n.user with
    | none => simp [lookup_setDom_same]
    | some v =>
      simp only [lookup_setDom_same, Option.getD_some]
      by_cases hv : v ∈ (lookup a n.dom).getD []
      · simp only [hv, if_true]
        constructor
        · exact Or.inl
        · rintro (h | ⟨_, h⟩)
          · exact h
          · cases h; exact hv
      · simp only [hv, if_false, List.mem_append, List.mem_singleton]
        constructor
        · rintro (h | h)
          · exact Or.inl h
          · exact Or.inr (by simp [h])
        · rintro (h | h)
          · exact Or.inl h
          · exact Or.inr (by simp_all)
  · cases hu : n.user <;> simp [lookup_setDom_other _ _ hd, Ne.symm hd]

theorem users_putOrErase_same {a : Acl} (hwf : WF a) (d : Str) (us : List Str) :
    users (putOrErase a d us) d = us := by
  unfold users putOrErase
  split
  · next he =>
    rw [lookup_eraseDom_same hwf]
    cases us <;> simp_all
  · rw [lookup_setDom_same]; rfl

theorem users_putOrErase_other (a : Acl) {d e : Str} (us : List Str) (hne : e ≠ d) :
    users (putOrErase a d us) e = users a e := by
  unfold users putOrErase
  split
  · rw [lookup_eraseDom_other _ hne]
  · rw [lookup_setDom_other _ _ hne]

theorem users_removeOne {a : Acl} (hwf : WF a) (n : ANid) (d : Str) (u : Str) :
    u ∈ users (removeOne a n) d ↔ (u ∈ users a d ∧ ¬ (n.dom = d ∧ n.user = some u)) := by
  unfold removeOne
  cases hl : lookup a n.dom with
  | none =>
    simp only
    constructor
    · intro h
      refine ⟨h, ?_⟩
      rintro ⟨hd, _⟩
      subst hd
      simp [users, hl] at h
    · exact fun h => h.1
  | some cur =>
    simp only
    by_cases hd : d = n.dom
    · subst hd
      have hcur : users a n.dom = cur := by simp [users, hl]
      cases hu : n.user with
      | none => simp [users_putOrErase_same hwf, hcur]
      | some v =>
        simp only [users_putOrErase_same hwf, hcur, List.mem_filter, decide_eq_true_eq, true_and]
        constructor
        · rintro ⟨hm, hne⟩; exact ⟨hm, fun h => hne (by cases h; rfl)⟩
        · rintro ⟨hm, hne⟩; exact ⟨hm, fun h => hne (by rw [h])⟩
    · have hne : ¬ n.dom = d := Ne.symm hd
      cases n.user <;> simp [users_putOrErase_other _ _ hd, hne]

/-- **add puts every named user NID in the report** -/
theorem add_present {a : Acl} (hwf : WF a) (ns : List ANid) (u d : Str)
    (h : (⟨some u, d⟩ : ANid) ∈ ns) : (⟨some u, d⟩ : ANid) ∈ allowList (update a ns .add) := by
  rw [user_mem_allowList (update_wf hwf ns .add)]
  simp only [update]
  suffices ∀ (a : Acl), (u ∈ users a d ∨ (⟨some u, d⟩ : ANid) ∈ ns) → u ∈ users (ns.foldl addOne a) d from
    this a (Or.inr h)
  clear h hwf a
  induction ns with
  | nil => intro a h; simpa using h
  | cons n ns ih =>
    intro a h
    simp only [List.foldl_cons]
    apply ih
    simp only [List.mem_cons] at h
    rcases h with h | h | h
    · exact Or.inl ((users_addOne a n d u).mpr (Or.inl h))
    · exact Or.inl ((users_addOne a n d u).mpr (Or.inr (by rw [← h]; simp)))
    · exact Or.inr h

/-- **remove takes every named user NID out of the report** -/
theorem remove_absent {a : Acl} (hwf : WF a) (ns : List ANid) (u d : Str)
    (h : (⟨some u, d⟩ : ANid) ∈ ns) : (⟨some u, d⟩ : ANid) ∉ allowList (update a ns .remove) := by
  rw [user_mem_allowList (update_wf hwf ns .remove)]
  simp only [update]
  suffices ∀ (a : Acl), WF a → (u ∉ users a d ∨ (⟨some u, d⟩ : ANid) ∈ ns) → u ∉ users (ns.foldl removeOne a) d from
    this a hwf (Or.inr h)
  clear h hwf a
  induction ns with
  | nil => intro a _ h; simpa using h
  | cons n ns ih =>
    intro a hwf h
    simp only [List.foldl_cons]
    apply ih _ (removeOne_wf hwf n)
    simp only [List.mem_cons] at h
    rcases h with h | h | h
    · exact Or.inl (fun hm => h ((users_removeOne hwf n d u).mp hm).1)
    · exact Or.inl (fun hm => ((users_removeOne hwf n d u).mp hm).2 (by rw [← h]; simp))
    · exact Or.inr h

/-- a bare domain is reported iff the domain has an entry with an empty user set -/
theorem bare_mem_allowList {a : Acl} (hwf : WF a) (d : Str) :
    (⟨none, d⟩ : ANid) ∈ allowList a ↔ lookup a d = some [] := by
  rw [mem_allowList]
  constructor
  · rintro ⟨us, hm, h⟩
    rcases h with ⟨he, _⟩ | ⟨u, h, _⟩
    · have : us = [] := by cases us <;> simp_all
      subst this; exact mem_lookup hwf hm
    · cases h
  · intro h; exact ⟨[], lookup_some_mem h, Or.inl ⟨rfl, rfl⟩⟩

theorem lookup_putOrErase_same_ne {a : Acl} (hwf : WF a) (d : Str) (us : List Str) :
    lookup (putOrErase a d us) d ≠ some [] ∨ us = [] ∧ False := by
  left
  unfold putOrErase; split
  · rw [lookup_eraseDom_same hwf]; simp
  · next hne => rw [lookup_setDom_same]; intro h; cases h; simp at hne

/-- removing never widens a domain to "everybody in that domain": once a domain's last user is
    removed the domain entry disappears instead of becoming a bare-domain entry. -/
theorem remove_no_bare_domain {a : Acl} (hwf : WF a) (n : ANid) (d : Str)
    (hb : (⟨none, d⟩ : ANid) ∈ allowList (removeOne a n)) : (⟨none, d⟩ : ANid) ∈ allowList a := by
  rw [bare_mem_allowList (removeOne_wf hwf n)] at hb
  rw [bare_mem_allowList hwf]
  unfold removeOne at hb
  cases hl : lookup a n.dom with
  | none => rw [hl] at hb; exact hb
  | some cur =>
    rw [hl] at hb; simp only at hb
    by_cases hd : d = n.dom
    · subst hd
      exfalso
      cases hu : n.user <;> rw [hu] at hb <;> simp only at hb
      · rcases lookup_putOrErase_same_ne hwf n.dom cur with h | h
        · exact h hb
        · exact h.2
      · next v =>
        rcases lookup_putOrErase_same_ne hwf n.dom (cur.filter (· ≠ v)) with h | h
        · exact h hb
        · exact h.2
    · cases hu : n.user <;> rw [hu] at hb <;> simp only at hb
      all_goals
        unfold putOrErase at hb
        split at hb
        · rwa [lookup_eraseDom_other _ hd] at hb
        · rwa [lookup_setDom_other _ _ hd] at hb

/-! ## Non-vacuity: a concrete reachable ACL with a user entry, a bare domain and a removed user -/
def exAcl : Acl :=
  update (update (update [] [⟨some "alice".toList, "localhost".toList⟩, ⟨some "bob".toList, "localhost".toList⟩,
    ⟨none, "example.com".toList⟩] .add) [⟨some "bob".toList, "localhost".toList⟩] .remove) [] .add

example : Reachable exAcl := .step _ _ (.step _ _ (.step _ _ .empty))
example : isAllowed exAcl "alice".toList "localhost".toList = true := by decide
example : isAllowed exAcl "bob".toList "localhost".toList = false := by decide
example : isAllowed exAcl "zed".toList "example.com".toList = true := by decide
example : isAllowed exAcl "zed".toList "other.org".toList = false := by decide

end Narwhal.Acl

#print axioms Narwhal.Acl.C03_allowed_iff_reported
#print axioms Narwhal.Acl.add_present
#print axioms Narwhal.Acl.remove_absent
#print axioms Narwhal.Acl.remove_no_bare_domain
