import Narwhal.Theorems.C13
import Narwhal.Generated.Locks
/-!
# C13 — table obligations for the handlers as they are in the source today

`Generated/Locks.lean` is regenerated from `crates/server/src/{channel,c2s,notifier,router}` on every run:
`handlerPrograms` is, per async function, the sequence of channel-lock acquisitions / releases and other suspension
points (calls between channel-manager functions inlined); `guardSites` lists every DashMap guard whose lexical scope
contains an `.await`.  The general theorems of `Narwhal.Theorems.C13` apply to these programs because:
-/
namespace Narwhal.Sched
open Narwhal.Generated

/-- no synchronous map guard is alive across a suspension point (so a suspended task never blocks its worker) -/
theorem C13_no_guard_across_await : guardSites = [] := by decide

/-- every handler acquires a channel lock only while holding none, and releases what it acquired -/
theorem C13_handlers_disciplined : handlerPrograms.all (fun p => wf [] p.2) = true := by decide

/-- the handlers the property is about are in the table (the translator found them) -/
theorem C13_table_covers :
    ["channel/mod.rs::join_channel", "channel/mod.rs::leave_channel", "channel/mod.rs::leave_all_channels",
     "channel/mod.rs::list_channels", "channel/mod.rs::list_members", "channel/mod.rs::broadcast_payload",
     "channel/mod.rs::set_channel_acl", "channel/mod.rs::get_channel_acl", "channel/mod.rs::set_channel_configuration",
     "channel/mod.rs::get_channel_configuration"].all (fun n => (handlerPrograms.map (·.1)).contains n) = true := by decide

/-- hence: any number of these handlers, spawned in any order and interleaved in any way with any modulator outcomes and
    cancellations, never reach a state where they only wait for each other -/
theorem C13_handlers_never_wedge (evs : List Ev) (t : Task) (ht : t ∈ run [] evs) (hunf : t.prog ≠ [])
    (hquiet : ∀ u ∈ run [] evs, u.waiting = false) : ∃ u ∈ run [] evs, enabled (run [] evs) u :=
  C13_no_wedge evs t ht hunf hquiet

#print axioms C13_no_guard_across_await
#print axioms C13_handlers_disciplined
#print axioms C13_table_covers
#print axioms C13_handlers_never_wedge

end Narwhal.Sched
