import Narwhal.Generated.ClientIds
/-!
# C16 — correlation ids of live requests are distinct

`C16_completed_by_own_id` assumes that requests in flight at the same time carry different ids.  The generator
(`ClientInner::next_id`: a 32-bit counter, `wrapping_add(1)`, skipping 0 — shape read from the source on every run) makes that
true as long as fewer than 2^32 − 1 requests are issued during the lifetime of one request: any two of that many consecutive ids
differ, and none is 0.
-/
namespace Narwhal.Client

def M : Nat := 4294967296

/-- `ClientInner::next_id` on a counter value `cur < 2^32` -/
def nextId (cur : Nat) : Nat := if (cur + 1) % M = 0 then 1 else (cur + 1) % M

/-- the id handed out after `k` further calls -/
def idAfter : Nat → Nat → Nat
  | 0, c => c
  | k + 1, c => idAfter k (nextId c)

theorem nextId_range (c : Nat) (h : 1 ≤ c ∧ c < M) : 1 ≤ nextId c ∧ nextId c < M := by
  unfold nextId M at *
  split <;> omega

theorem idAfter_closed (k c : Nat) (h : 1 ≤ c ∧ c < M) : idAfter k c = (c - 1 + k) % (M - 1) + 1 := by
  induction k generalizing c with
  | zero =>
    simp only [idAfter, Nat.add_zero]
    unfold M at *
    omega
  | succ k ih =>
    have hr := nextId_range c h
    simp only [idAfter]
    rw [ih (nextId c) hr]
    unfold nextId M at *
    split <;> omega

/-- **no id is 0, every id is a 32-bit value** -/
theorem C16_ids_nonzero (k c : Nat) (h : 1 ≤ c ∧ c < M) : 1 ≤ idAfter k c ∧ idAfter k c < M := by
  rw [idAfter_closed k c h]
  unfold M
  omega

/-- **ids of requests issued less than 2^32 − 1 requests apart are different** -/
theorem C16_ids_distinct_in_window (i j c : Nat) (h : 1 ≤ c ∧ c < M) (hij : i < j) (hw : j < i + (M - 1)) :
    idAfter i c ≠ idAfter j c := by
  rw [idAfter_closed i c h, idAfter_closed j c h]
  unfold M at *
  omega

open Narwhal.Generated in
/-- table obligation: the source generates ids exactly this way (a 32-bit counter stepped by `wrapping_add(1)`, 0 skipped) -/
theorem client_ids_table_ok : clientIdsFullU32 = true := by decide

open Narwhal.Generated in
/-- table obligation for the `timeout` step of `Model/Client.lean` (an in-flight request that is dropped returns its permit): in
    `perform_request` the drop guard of the pending entry — which owns the permit — exists before the first suspension point after
    the entry was inserted, so a request dropped while it still waits for the writer's queue gives both back -/
theorem client_cancel_safe_table_ok : clientPendingGuardBeforeSend = true := by decide

example : idAfter 3 4294967294 = 2 := by decide

end Narwhal.Client

#print axioms Narwhal.Client.C16_ids_nonzero
#print axioms Narwhal.Client.C16_ids_distinct_in_window
#print axioms Narwhal.Client.client_ids_table_ok
#print axioms Narwhal.Client.client_cancel_safe_table_ok
