import Narwhal.Model.S2m
/-!
# C08 / C09 — the S2M client layer is fail-closed

Whatever comes back for a delegated request — any acknowledgement shape, an error, another frame kind, nothing at all,
a payload that cannot be read — the server concludes *accept* only from an explicit positive acknowledgement:
-/
namespace Narwhal.S2m

/-- **C09**: `Success` only from `S2M_AUTH_ACK succeeded=true` carrying a username — and then that username -/
theorem C09_success_only_on_positive_ack (r : Reply) (u : Str) (h : mapAuth r = .success u) :
    ∃ c, r = .authAck true (some u) c := by
  cases r with
  | authAck s un c =>
    cases s <;> cases un <;> cases c <;> simp [mapAuth] at h <;> subst h <;> exact ⟨_, rfl⟩
  | _ => simp [mapAuth] at h

/-- a challenge is passed on only from a negative acknowledgement that carries one; it authenticates nobody -/
theorem C09_continue_only_with_challenge (r : Reply) (c : Str) (h : mapAuth r = .continue_ c) :
    ∃ un, r = .authAck false un (some c) := by
  cases r with
  | authAck s un ch =>
    cases s <;> cases un <;> cases ch <;> simp [mapAuth] at h <;> subst h <;> exact ⟨_, rfl⟩
  | _ => simp [mapAuth] at h

/-- **C08**: a payload is let through only by `valid=true`, unaltered only when no payload was attached, altered only
    to the bytes of an attachment that arrived intact -/
theorem C08_valid_only_on_positive_ack (r : Reply) :
    (mapPayload r = .valid → r = .payloadAck true .none) ∧
    (∀ p, mapPayload r = .altered p → r = .payloadAck true (.intact p)) := by
  constructor
  · intro h
    cases r with
    | payloadAck v a => cases v <;> cases a <;> simp [mapPayload] at h ⊢
    | _ => simp [mapPayload] at h
  · intro p h
    cases r with
    | payloadAck v a => cases v <;> cases a <;> simp [mapPayload] at h ⊢ <;> exact h
    | _ => simp [mapPayload] at h

/-- everything that is not an explicit acknowledgement of the right kind is an error or a rejection -/
theorem C08_C09_everything_else_fails (r : Reply) (h : ∀ s u c, r ≠ .authAck s u c) (h' : ∀ v a, r ≠ .payloadAck v a) :
    mapAuth r = .err ∧ mapPayload r = .err := by
  cases r with
  | authAck s u c => exact absurd rfl (h s u c)
  | payloadAck v a => exact absurd rfl (h' v a)
  | _ => exact ⟨rfl, rfl⟩

theorem event_ok_only_on_ack (r : Reply) (h : mapEvent r = true) : r = .eventAck := by
  cases r <;> simp [mapEvent] at h ⊢

#print axioms C09_success_only_on_positive_ack
#print axioms C09_continue_only_with_challenge
#print axioms C08_valid_only_on_positive_ack
#print axioms C08_C09_everything_else_fails

end Narwhal.S2m
