import Narwhal.Lemmas.Views
/-!
# C05 — membership views stay consistent and are cleaned up when a user goes away

All statements are about the sequential model `Narwhal.Server` (one request or one socket close handled
to quiescence per step, with every modulator outcome an arbitrary environment input), and hold for
**every history**: `reachable_WF` is an induction over the list of steps, so "whenever the server is
quiescent" is "after any prefix of any history".  A client connection dropped at any byte offset of its
request stream is, by C10, a prefix of its requests followed by a `close` step — a history like any other.
-/
namespace Narwhal.Server
open Narwhal.Acl (isAllowed)

/-- the list a `CHANNELS` request paginates -/
def channelsListing (s : Srv) (u : Str) : List Str := sortStrs ((indexOf s u).map (fullChan s))
/-- the list a `MEMBERS` request paginates -/
def membersListing (s : Srv) (c : Chan) : List Str := sortStrs (c.members.map (fullNid s))

theorem mem_insertSorted (x y : Str) (l : List Str) : y ∈ insertSorted x l ↔ y = x ∨ y ∈ l := by
  induction l with
  | nil => simp [insertSorted]
  | cons a as ih =>
    simp only [insertSorted]
    split
    · simp only [List.mem_cons, ih]
      constructor
      · rintro (h | h | h)
        · exact Or.inr (Or.inl h)
        · exact Or.inl h
        · exact Or.inr (Or.inr h)
      · rintro (h | h | h)
        · exact Or.inr (Or.inl h)
        · exact Or.inl h
        · exact Or.inr (Or.inr h)
    · simp [List.mem_cons]

theorem mem_sortStrs (y : Str) (l : List Str) : y ∈ sortStrs l ↔ y ∈ l := by
  unfold sortStrs
  induction l with
  | nil => simp
  | cons a as ih => simp only [List.foldr_cons, mem_insertSorted, ih, List.mem_cons]

theorem fullChan_inj (s : Srv) (a b : Str) (h : fullChan s a = fullChan s b) : a = b := by
  unfold fullChan at h
  have h1 : ['!'] ++ a ++ (['@'] ++ s.cfg.domain) = ['!'] ++ b ++ (['@'] ++ s.cfg.domain) := by
    simpa [List.append_assoc] using h
  have h2 := List.append_cancel_right h1
  exact List.append_cancel_left h2

theorem fullNid_inj (s : Srv) (a b : Str) (h : fullNid s a = fullNid s b) : a = b := by
  unfold fullNid at h
  have h1 : a ++ (['@'] ++ s.cfg.domain) = b ++ (['@'] ++ s.cfg.domain) := by
    simpa [List.append_assoc] using h
  exact List.append_cancel_right h1

/-- the replies really are pages of those listings -/
theorem channelsReply_lists (s : Srv) (u : Str) (id : Nat) (page size : Option Nat) :
    channelsReply s u id page size false =
      .channelsAck id (paginate (channelsListing s u) page size 50).1 (paginate (channelsListing s u) page size 50).2 := by
  unfold channelsReply channelsListing
  have : (indexOf s u).filter (ownedOrAll s u false) = indexOf s u := by
    apply List.filter_eq_self.mpr; intro a _; simp [ownedOrAll]
  rw [this]

theorem membersReply_lists (s : Srv) (id : Nat) (raw : Str) (c : Chan) (page size : Option Nat) :
    membersReply s id raw c page size =
      .membersAck id raw (paginate (membersListing s c) page size 100).1 (paginate (membersListing s c) page size 100).2 := rfl

/-- **C05 (views agree).** After any history: channel `h` is in `u`'s CHANNELS listing iff the channel
    exists and `u` is in its MEMBERS listing (iff `u` is in its member set). -/
theorem C05_views_agree (cfg : Cfg) (hist : List (Op × Env)) (u h : Str) :
    let s := (run (init cfg) hist).1
    (fullChan s h ∈ channelsListing s u ↔ ∃ c, findChan s.chans h = some c ∧ fullNid s u ∈ membersListing s c) ∧
    (fullChan s h ∈ channelsListing s u ↔ memb s u h) := by
  intro s
  have hi := (reachable_WF cfg hist).index
  have h1 : fullChan s h ∈ channelsListing s u ↔ memb s u h := by
    unfold channelsListing
    rw [mem_sortStrs, List.mem_map]
    constructor
    · rintro ⟨a, ha, he⟩
      have := fullChan_inj s a h he
      subst this
      exact (hi u a).mp ha
    · intro hm; exact ⟨h, (hi u h).mpr hm, rfl⟩
  refine ⟨?_, h1⟩
  rw [h1]
  unfold memb membersListing
  constructor
  · rintro ⟨c, hc, hu⟩
    exact ⟨c, hc, by rw [mem_sortStrs, List.mem_map]; exact ⟨u, hu, rfl⟩⟩
  · rintro ⟨c, hc, hu⟩
    rw [mem_sortStrs, List.mem_map] at hu
    obtain ⟨a, ha, he⟩ := hu
    have := fullNid_inj s a u he
    subst this
    exact ⟨c, hc, ha⟩

/-- **C05 (membership is exactly join-minus-leave), step form.**  One step changes the membership
    relation only as the acknowledged operation says: an admitted JOIN adds exactly `(m, h)`. -/
theorem C05_join_adds_exactly (s : Srv) (hc : ChansOK s) (h m v h' : Str) :
    memb (joinedState s h m) v h' ↔ memb s v h' ∨ (v = m ∧ h' = h) := by
  unfold joinedState
  rw [memb_put s _ (withMember s.cfg.domain (chanOrNew s h) m) rfl, withMember_handler, (chanOrNew_ok s hc h).1]
  split
  · next he =>
    subst he
    show v ∈ (chanOrNew s h).members ++ [m] ↔ _
    rw [memb_chanOrNew]
    simp only [List.mem_append, List.mem_singleton, and_true]
  · next he =>
    constructor
    · exact Or.inl
    · rintro (hm | ⟨_, e⟩)
      · exact hm
      · exact absurd e.symm he

/-- … and an admitted LEAVE (own, on-behalf, or one channel of a clean-up) removes exactly `(u, c)`. -/
theorem C05_leave_removes_exactly (s : Srv) (c : Chan) (u : Str) (env : Env)
    (hf : findChan s.chans c.handler = some c) (v h : Str) :
    memb (removeMember s c u env).1 v h ↔ memb s v h ∧ ¬ (v = u ∧ h = c.handler) :=
  removeMember_memb s c u env hf v h

/-- **C05 (no empty channel).** After any history every channel in the map has a member (and an owner
    who is one of them). -/
theorem C05_no_empty_channel (cfg : Cfg) (hist : List (Op × Env)) (h : Str) (c : Chan)
    (hf : findChan (run (init cfg) hist).1.chans h = some c) : c.members ≠ [] ∧ ∃ o, c.owner = some o ∧ o ∈ c.members :=
  let ok := (reachable_ChansOK cfg hist h c hf).2
  ⟨ok.2.1, ok.2.2.1⟩

/-- **C05 (fresh after empty).** A JOIN admitted on a handler that is not in the map creates the channel
    with the server's default configuration, empty ACLs, the new member as only member and as owner. -/
theorem C05_fresh_after_empty (s : Srv) (h m : Str) (hnone : findChan s.chans h = none) :
    ∃ c, findChan (joinedState s h m).chans h = some c ∧ c.owner = some m ∧ c.members = [m] ∧
      c.maxClients = s.cfg.maxClients ∧ c.maxPayload = s.cfg.maxPayload ∧
      c.joinAcl = [] ∧ c.publishAcl = [] ∧ c.readAcl = [] := by
  refine ⟨withMember s.cfg.domain (chanOrNew s h) m, ?_, ?_⟩
  · unfold joinedState
    simp only [findChan, putChan, lookupA_setA]
    have : (withMember s.cfg.domain (chanOrNew s h) m).handler = h := by
      unfold chanOrNew; rw [hnone]; rfl
    simp [this]
  · unfold chanOrNew; rw [hnone]
    simp [withMember, rebuild, newChan]

/-- a channel whose last member leaves is removed from the map (so the next JOIN is a fresh creation) -/
theorem C05_last_leave_deletes (s : Srv) (c : Chan) (u : Str) (env : Env) (hm : c.members = [u]) :
    findChan (removeMember s c u env).1.chans c.handler = none := by
  unfold removeMember
  have : (withoutMember s.cfg.domain c u).members.isEmpty = true := by
    rw [withoutMember_members, hm]; simp
  rw [if_pos this]
  simp [findChan, delChan]

/-- **C05 (last close cleans).** When the last connection of `u` ends — socket close, or any error that
    makes the server close it — `u` is in no channel afterwards, whatever the modulator answered to the
    notifications (`env` arbitrary). -/
theorem C05_last_close_cleans (s : Srv) (hw : WF s) (k : Nat) (c : Conn) (u : Str) (env : Env)
    (hk : findConn s.conns k = some c) (hp : c.phase = .authed u) (hlast : restConns s u k = []) :
    ∀ h, ¬ memb (dropConn s k env).1 u h := by
  unfold dropConn
  rw [hk]
  simp only [hp]
  unfold dropAuthed
  rw [if_pos (by simp [hlast])]
  exact (leaveAll_clean { withoutConn s k with router := eraseA s.router u } u env
    (ChansOK_same hw.chans _ rfl rfl) (fun a b => hw.index a b)).2

/-- **C05 (no ghost members).** After any history every member of every channel has a live, authenticated
    connection: nobody whose connections have all ended is still a member anywhere. -/
theorem C05_members_are_live (cfg : Cfg) (hist : List (Op × Env)) (u h : Str)
    (hm : memb (run (init cfg) hist).1 u h) :
    ∃ k c, findConn (run (init cfg) hist).1.conns k = some c ∧ c.phase = .authed u := by
  have hw := reachable_WF cfg hist
  have hne := hw.live u h hm
  cases hcs : connsOf (run (init cfg) hist).1 u with
  | nil => exact absurd hcs hne
  | cons k rest =>
    have : k ∈ connsOf (run (init cfg) hist).1 u := by rw [hcs]; simp
    obtain ⟨c, hc, hp⟩ := (hw.router u k).mp this
    exact ⟨k, c, hc, hp⟩

/-- **C05 / C01 (a new session starts clean).** After any history, a connection that is acknowledged
    IDENTIFY (so no live connection held the name) is a member of no channel: memberships are never
    inherited by a later session under the same name. -/
theorem C05_new_session_not_member (cfg : Cfg) (hist : List (Op × Env)) (u : Str)
    (hfree : connsOf (run (init cfg) hist).1 u = []) : ∀ h, ¬ memb (run (init cfg) hist).1 u h :=
  fun h hm => (reachable_WF cfg hist).live u h hm hfree

/-- the reverse index never lists a channel twice for one user and never keeps an empty entry alive for
    the decisions that count entries: `|in_channels[u]|` is the number of channels `u` is a member of -/
theorem C05_index_complete (cfg : Cfg) (hist : List (Op × Env)) (u h : Str) :
    h ∈ indexOf (run (init cfg) hist).1 u ↔ memb (run (init cfg) hist).1 u h :=
  (reachable_WF cfg hist).index u h

/-! ## non-vacuity: a reachable state with two users, two channels, a kick and a disconnect -/

def exCfg : Cfg :=
  { domain := ['d', '.', 'i', 'o'], maxChannels := 4, maxClients := 3, maxSubs := 2, maxPayload := 64,
    authRequired := false, hasMod := false, fwdEvent := false, sendPrivate := false, keepAlive := 60,
    minKeepAlive := 1, maxMessage := 512, maxInflight := 2, appProtocol := none }

def e0 : Env := {}
def chX : Str := ['!', 'x', '@', 'd', '.', 'i', 'o']
def chY : Str := ['!', 'y', '@', 'd', '.', 'i', 'o']

def exHist : List (Op × Env) :=
  [(.open_ 1, e0), (.recv 1 (.connect 1 0), e0), (.recv 1 (.identify ['a']), e0),
   (.open_ 2, e0), (.recv 2 (.connect 1 0), e0), (.recv 2 (.identify ['b']), e0),
   (.recv 1 (.join 1 chX none), e0), (.recv 2 (.join 1 chX none), e0),
   (.recv 2 (.join 2 chY none), e0)]

def isMember (s : Srv) (u h : Str) : Bool := (findChan s.chans h).any (fun c => decide (u ∈ c.members))

theorem memb_iff_isMember (s : Srv) (u h : Str) : memb s u h ↔ isMember s u h = true := by
  unfold memb isMember
  cases findChan s.chans h <;> simp

example : memb (run (init exCfg) exHist).1 ['b'] ['x'] ∧ memb (run (init exCfg) exHist).1 ['b'] ['y'] := by
  rw [memb_iff_isMember, memb_iff_isMember]; decide

example : ¬ memb (run (init exCfg) (exHist ++ [(.close 2, e0)])).1 ['b'] ['x'] ∧
    memb (run (init exCfg) (exHist ++ [(.close 2, e0)])).1 ['a'] ['x'] := by
  rw [memb_iff_isMember, memb_iff_isMember]; decide

#print axioms C05_views_agree
#print axioms C05_join_adds_exactly
#print axioms C05_leave_removes_exactly
#print axioms C05_no_empty_channel
#print axioms C05_fresh_after_empty
#print axioms C05_last_leave_deletes
#print axioms C05_last_close_cleans
#print axioms C05_members_are_live
#print axioms C05_new_session_not_member
#print axioms C05_index_complete
#print axioms reachable_WF

end Narwhal.Server
