import Narwhal.Model.Micro
import Narwhal.Generated.Steps
/-!
# C05 (and C01, C02, C18 through it): the membership views under every interleaving

For every schedule of JOIN / LEAVE / on-behalf requests and disconnect clean-ups cut at their suspension points, every outcome
of every modulator notification, and every cancellation of a suspended request: the invariant `Inv` holds in every reachable
state, and whenever nothing is in progress the CHANNELS and MEMBERS listings agree and no channel is empty.

The same statement is *false* for the re-check `join_channel` made before repair a26f788 (`old_recheck_breaks_views`, a
12-step schedule replayed on the real code by `nvh probe_stale`).
-/
namespace Narwhal.Micro

/-! ## simp lemmas for the state updates -/

@[simp] theorem setPc_tasks (s : St) (t : Nat) (pc : Pc) (i : Nat) :
    (setPc s t pc).tasks i = if i = t then { s.tasks t with pc := pc } else s.tasks i := rfl
@[simp] theorem setPc_objs (s : St) (t : Nat) (pc : Pc) : (setPc s t pc).objs = s.objs := rfl
@[simp] theorem setPc_map (s : St) (t : Nat) (pc : Pc) : (setPc s t pc).map = s.map := rfl
@[simp] theorem setPc_index (s : St) (t : Nat) (pc : Pc) : (setPc s t pc).index = s.index := rfl
@[simp] theorem setPc_next (s : St) (t : Nat) (pc : Pc) : (setPc s t pc).next = s.next := rfl
@[simp] theorem setPc_rests (s : St) (t : Nat) (pc : Pc) : (setPc s t pc).rests = s.rests := rfl
@[simp] theorem setPc_strict (s : St) (t : Nat) (pc : Pc) : (setPc s t pc).strict = s.strict := rfl

@[simp] theorem setObj_objs (s : St) (o : Nat) (v : Obj) (i : Nat) : (setObj s o v).objs i = if i = o then v else s.objs i := rfl
@[simp] theorem setObj_tasks (s : St) (o : Nat) (v : Obj) : (setObj s o v).tasks = s.tasks := rfl
@[simp] theorem setObj_map (s : St) (o : Nat) (v : Obj) : (setObj s o v).map = s.map := rfl
@[simp] theorem setObj_index (s : St) (o : Nat) (v : Obj) : (setObj s o v).index = s.index := rfl
@[simp] theorem setObj_next (s : St) (o : Nat) (v : Obj) : (setObj s o v).next = s.next := rfl
@[simp] theorem setObj_rests (s : St) (o : Nat) (v : Obj) : (setObj s o v).rests = s.rests := rfl
@[simp] theorem setObj_strict (s : St) (o : Nat) (v : Obj) : (setObj s o v).strict = s.strict := rfl

@[simp] theorem setMap_map (s : St) (n : Name) (v : Option Nat) (i : Name) : (setMap s n v).map i = if i = n then v else s.map i := rfl
@[simp] theorem setMap_tasks (s : St) (n : Name) (v : Option Nat) : (setMap s n v).tasks = s.tasks := rfl
@[simp] theorem setMap_objs (s : St) (n : Name) (v : Option Nat) : (setMap s n v).objs = s.objs := rfl
@[simp] theorem setMap_index (s : St) (n : Name) (v : Option Nat) : (setMap s n v).index = s.index := rfl
@[simp] theorem setMap_next (s : St) (n : Name) (v : Option Nat) : (setMap s n v).next = s.next := rfl
@[simp] theorem setMap_rests (s : St) (n : Name) (v : Option Nat) : (setMap s n v).rests = s.rests := rfl
@[simp] theorem setMap_strict (s : St) (n : Name) (v : Option Nat) : (setMap s n v).strict = s.strict := rfl

@[simp] theorem setIndex_index (s : St) (u : User) (l : List Name) (i : User) : (setIndex s u l).index i = if i = u then l else s.index i := rfl
@[simp] theorem setIndex_tasks (s : St) (u : User) (l : List Name) : (setIndex s u l).tasks = s.tasks := rfl
@[simp] theorem setIndex_objs (s : St) (u : User) (l : List Name) : (setIndex s u l).objs = s.objs := rfl
@[simp] theorem setIndex_map (s : St) (u : User) (l : List Name) : (setIndex s u l).map = s.map := rfl
@[simp] theorem setIndex_next (s : St) (u : User) (l : List Name) : (setIndex s u l).next = s.next := rfl
@[simp] theorem setIndex_rests (s : St) (u : User) (l : List Name) : (setIndex s u l).rests = s.rests := rfl
@[simp] theorem setIndex_strict (s : St) (u : User) (l : List Name) : (setIndex s u l).strict = s.strict := rfl

@[simp] theorem mem_addIdx (l : List Name) (n x : Name) : x ∈ addIdx l n ↔ x = n ∨ x ∈ l := by
  unfold addIdx; split <;> simp_all <;> grind
@[simp] theorem mem_delIdx (l : List Name) (n x : Name) : x ∈ delIdx l n ↔ x ∈ l ∧ x ≠ n := by
  unfold delIdx; simp


/-! ## the invariant -/

/-- task `t` is suspended holding the lock of `o` -/
def holds (s : St) (t o : Nat) : Prop :=
  (s.tasks t).pc = .jNotify o ∨ (s.tasks t).pc = .lNotify o ∨ (s.tasks t).pc = .lHandover o

def refs (pc : Pc) (o : Nat) : Prop :=
  pc = .jWait o ∨ pc = .jNotify o ∨ pc = .lWait o ∨ pc = .lNotify o ∨ pc = .lHandover o

/-- `u` is still a member of `n` (object `o`) only because a clean-up has not got to it yet -/
def debt (s : St) (u : User) (n : Name) (o : Nat) : Prop :=
  (∃ p ∈ s.rests, p.1 = u ∧ n ∈ p.2) ∨
  (∃ t, (s.tasks t).kind = .leave false ∧ (s.tasks t).m = u ∧ (s.tasks t).n = n ∧
        ((s.tasks t).pc = .start ∨ (s.tasks t).pc = .lWait o ∨ (s.tasks t).pc = .lNotify o))

structure InvW (s : St) (x : Option Nat) : Prop where
  fresh_map : ∀ n o, s.map n = some o → o < s.next
  fresh_obj : ∀ o, s.next ≤ o → (s.objs o).members = [] ∧ (s.objs o).holder = none
  fresh_pc  : ∀ t o, refs (s.tasks t).pc o → o < s.next
  named     : ∀ n o, s.map n = some o → (s.objs o).name = n
  pc_named  : ∀ t o, refs (s.tasks t).pc o → (s.objs o).name = (s.tasks t).n
  holder_pc : ∀ o t, (s.objs o).holder = some t → holds s t o
  pc_holder : ∀ t o, holds s t o → (s.objs o).holder = some t
  nonempty  : ∀ n o, s.map n = some o → some o ≠ x → (s.objs o).members ≠ []
  stale_empty : ∀ o, (s.objs o).members ≠ [] → s.map (s.objs o).name = some o
  jn_member : ∀ t o, (s.tasks t).pc = .jNotify o → (s.tasks t).m ∈ (s.objs o).members
  ln_member : ∀ t o, (s.tasks t).pc = .lNotify o → (s.tasks t).m ∈ (s.objs o).members
  idx_mem   : ∀ u n, n ∈ s.index u → ∃ o, s.map n = some o ∧ u ∈ (s.objs o).members
  mem_idx   : ∀ n o u, s.map n = some o → u ∈ (s.objs o).members → n ∈ s.index u ∨ debt s u n o
  jwait_join : ∀ t o, (s.tasks t).pc = .jWait o → (s.tasks t).kind = .join

/-- the invariant; `InvW s (some o)` exempts object `o` (just created, about to receive its first member) from `nonempty` -/
abbrev Inv (s : St) : Prop := InvW s none

theorem inv_init (b : Bool) : Inv (init b) := by
  constructor <;> simp [init, idle, refs, holds, debt]

theorem inv_spawn (s : St) (h : Inv s) (t : Nat) (k : Kind) (m : User) (n : Name) : Inv (step s (.spawn t k m n)) := by
  simp only [step]
  split
  · next hd =>
    obtain ⟨h1, h2, h3, h4, h5, h6, h7, h8, h9, h10, h11, h12, h13, h14⟩ := h
    constructor <;> simp only [refs, holds, debt] at * <;> intros <;> (try grind)
  · exact h

theorem mem_set_or {α} (l : List α) (i : Nat) (v p : α) (hp : p ∈ l) : p ∈ l.set i v ∨ l[i]? = some p := by
  obtain ⟨j, hj⟩ := List.mem_iff_getElem?.mp hp
  by_cases hij : i = j
  · right; rw [hij]; exact hj
  · left
    apply List.mem_iff_getElem?.mpr
    exact ⟨j, by rw [List.getElem?_set_ne hij]; exact hj⟩

theorem inv_cleanup (s : St) (h : Inv s) (u : User) : Inv (step s (.cleanup u)) := by
  simp only [step]
  obtain ⟨h1, h2, h3, h4, h5, h6, h7, h8, h9, h10, h11, h12, h13, h14⟩ := h
  constructor
  case mem_idx =>
    intro n o u' hm hu
    simp only [setIndex_index, setIndex_map, setIndex_objs] at hm hu ⊢
    rcases h13 n o u' hm hu with hi | ⟨p, hp, hpu, hpn⟩ | ht
    · by_cases hx : u' = u
      · subst hx
        right; left
        exact ⟨(u', s.index u'), List.mem_cons_self, rfl, hi⟩
      · left; simp only [hx, if_false]; exact hi
    · right; left; exact ⟨p, List.mem_cons_of_mem _ hp, hpu, hpn⟩
    · right; right; exact ht
  all_goals (simp only [refs, holds, debt, setIndex_index, setIndex_tasks, setIndex_objs, setIndex_map, setIndex_next] at * <;> intros <;> grind)

theorem inv_cleanupNext (s : St) (h : Inv s) (i : Nat) (n : Name) (t : Nat) : Inv (step s (.cleanupNext i n t)) := by
  simp only [step]
  split
  · exact h
  · next u r hr =>
    split
    · next hc =>
      obtain ⟨h1, h2, h3, h4, h5, h6, h7, h8, h9, h10, h11, h12, h13, h14⟩ := h
      constructor
      case mem_idx =>
        intro n' o u' hm hu
        simp only at hm hu ⊢
        rcases h13 n' o u' hm hu with hi | ⟨p, hp, hpu, hpn⟩ | ⟨t', hk, hm', hn', hpc⟩
        · exact Or.inl hi
        · right
          rcases mem_set_or s.rests i (u, r.filter (· ≠ n)) p hp with hin | heq
          · left; exact ⟨p, hin, hpu, hpn⟩
          · rw [hr] at heq
            cases heq
            by_cases hnn : n' = n
            · right
              refine ⟨t, by simp, by simpa using hpu, by simp [hnn], Or.inl (by simp)⟩
            · left
              have hlt : i < s.rests.length := (List.getElem?_eq_some_iff.mp hr).1
              refine ⟨(u, r.filter (· ≠ n)), List.mem_set hlt _, hpu, ?_⟩
              simp only [List.mem_filter, ne_eq, decide_not, Bool.not_eq_eq_eq_not, Bool.not_true, decide_eq_false_iff_not]
              exact ⟨hpn, hnn⟩
        · right; right
          have htt : t' ≠ t := by
            intro h0; subst h0; rw [hc.2] at hpc; simp at hpc
          exact ⟨t', by simp [htt, hk], by simp [htt, hm'], by simp [htt, hn'], by simpa [htt] using hpc⟩
      all_goals (simp only [refs, holds, debt] at * <;> intros <;> grind)
    · exact h

/-! ## the segments of a task -/

macro "inv_auto" : tactic => `(tactic|
  (simp only [refs, holds, debt, setPc_tasks, setPc_objs, setPc_map, setPc_index, setPc_next, setPc_rests,
      setObj_objs, setObj_tasks, setObj_map, setObj_index, setObj_next, setObj_rests,
      setMap_map, setMap_tasks, setMap_objs, setMap_index, setMap_next, setMap_rests,
      setIndex_index, setIndex_tasks, setIndex_objs, setIndex_map, setIndex_next, setIndex_rests] at * <;> intros <;> grind))

/-- a task that holds no lock ends; whatever clean-up debt it stood for is void -/
theorem inv_setPc_done (s : St) (x : Option Nat) (h : InvW s x) (t : Nat)
    (hnh : ∀ o, ¬ holds s t o)
    (hvac : ∀ o, (s.tasks t).kind = .leave false → s.map (s.tasks t).n = some o → (s.tasks t).m ∈ (s.objs o).members →
      ((s.tasks t).pc = .start ∨ (s.tasks t).pc = .lWait o ∨ (s.tasks t).pc = .lNotify o) → False) :
    InvW (setPc s t .done) x := by
  obtain ⟨h1, h2, h3, h4, h5, h6, h7, h8, h9, h10, h11, h12, h13, h14⟩ := h
  constructor
  case mem_idx =>
    intro n o u hm hu
    simp only [setPc_map, setPc_objs, setPc_index] at hm hu ⊢
    rcases h13 n o u hm hu with hi | hp | ⟨t', hk, hm', hn', hpc⟩
    · exact Or.inl hi
    · exact Or.inr (Or.inl hp)
    · by_cases htt : t' = t
      · subst htt
        exact absurd (hvac o hk (hn' ▸ hm) (hm' ▸ hu) hpc) id
      · right; right
        exact ⟨t', by simp [htt, hk], by simp [htt, hm'], by simp [htt, hn'], by simpa [htt] using hpc⟩
  all_goals inv_auto

theorem invW_weaken (s : St) (o : Nat) (h : InvW s (some o)) (hne : ∀ n, s.map n = some o → (s.objs o).members ≠ []) : Inv s := by
  obtain ⟨h1, h2, h3, h4, h5, h6, h7, h8, h9, h10, h11, h12, h13, h14⟩ := h
  constructor
  case nonempty =>
    intro n o' hm _
    by_cases ho : o' = o
    · subst ho; exact hne n hm
    · exact h8 n o' hm (by simpa using ho)
  all_goals assumption

/-- the channel `n` (object `o`, without members) is removed from the map -/
theorem inv_remove_empty (s : St) (o : Nat) (n : Name) (h : InvW s (some o)) (hm : s.map n = some o)
    (he : (s.objs o).members = []) : Inv (setMap s n none) := by
  obtain ⟨h1, h2, h3, h4, h5, h6, h7, h8, h9, h10, h11, h12, h13, h14⟩ := h
  constructor
  case nonempty =>
    intro n' o' hm' _
    simp only [setMap_map, setMap_objs] at hm' ⊢
    split at hm'
    · cases hm'
    · next hne =>
      refine h8 n' o' hm' ?_
      intro heq; cases heq
      exact hne ((h4 n' o hm').symm.trans (h4 n o hm))
  case mem_idx =>
    intro n' o' u hm' hu
    simp only [setMap_map, setMap_objs, setMap_index] at hm' hu ⊢
    split at hm'
    · cases hm'
    · rcases h13 n' o' u hm' hu with hi | hp | ht
      · exact Or.inl hi
      · exact Or.inr (Or.inl hp)
      · exact Or.inr (Or.inr ht)
  all_goals inv_auto

/-- the admitted JOIN: member and index entry written under the lock, then the task is suspended in the notification -/
theorem inv_join_insert (s : St) (t o : Nat) (h : InvW s (some o))
    (hmap : s.map (s.tasks t).n = some o) (hfree : (s.objs o).holder = none)
    (hpc : (s.tasks t).pc = .start ∨ (s.tasks t).pc = .jWait o) (hk : (s.tasks t).kind = .join)
    (hnm : (s.tasks t).m ∉ (s.objs o).members) :
    Inv (setPc (setIndex (setObj s o { s.objs o with members := (s.tasks t).m :: (s.objs o).members, holder := some t })
      (s.tasks t).m (addIdx (s.index (s.tasks t).m) (s.tasks t).n)) t (.jNotify o)) := by
  obtain ⟨h1, h2, h3, h4, h5, h6, h7, h8, h9, h10, h11, h12, h13, h14⟩ := h
  have hname := h4 _ _ hmap
  constructor
  case mem_idx =>
    intro n' o' u hm' hu
    simp only [setPc_map, setPc_objs, setPc_index, setIndex_map, setIndex_objs, setIndex_index, setObj_map, setObj_objs] at hm' hu ⊢
    by_cases ho : o' = o
    · subst ho
      simp only [if_true, List.mem_cons] at hu
      have hn' : n' = (s.tasks t).n := (h4 n' o' hm').symm.trans hname
      rcases hu with hu | hu
      · left; subst hu; simp [hn']
      · rcases h13 n' o' u hm' hu with hi | hp | ⟨t', hk', hm'', hn'', hpc'⟩
        · left; split
          · next hx => subst hx; simp [hi]
          · exact hi
        · exact Or.inr (Or.inl hp)
        · right; right
          have htt : t' ≠ t := by intro h0; subst h0; rw [hk] at hk'; cases hk'
          exact ⟨t', by simp [htt, hk'], by simp [htt, hm''], by simp [htt, hn''], by simpa [htt] using hpc'⟩
    · simp only [ho, if_false] at hu
      rcases h13 n' o' u hm' hu with hi | hp | ⟨t', hk', hm'', hn'', hpc'⟩
      · left; split
        · next hx => subst hx; simp [hi]
        · exact hi
      · exact Or.inr (Or.inl hp)
      · right; right
        have htt : t' ≠ t := by intro h0; subst h0; rw [hk] at hk'; cases hk'
        exact ⟨t', by simp [htt, hk'], by simp [htt, hm''], by simp [htt, hn''], by simpa [htt] using hpc'⟩
  case idx_mem =>
    intro u n' hi
    simp only [setPc_map, setPc_objs, setPc_index, setIndex_map, setIndex_objs, setIndex_index, setObj_map, setObj_objs] at hi ⊢
    by_cases hu : u = (s.tasks t).m
    · subst hu
      simp only [if_true, mem_addIdx] at hi
      rcases hi with hi | hi
      · subst hi; exact ⟨o, hmap, by simp⟩
      · obtain ⟨o', hm', hu'⟩ := h12 _ _ hi
        refine ⟨o', hm', ?_⟩
        by_cases ho : o' = o
        · subst ho; simp [hu']
        · simp [ho, hu']
    · simp only [hu, if_false] at hi
      obtain ⟨o', hm', hu'⟩ := h12 _ _ hi
      refine ⟨o', hm', ?_⟩
      by_cases ho : o' = o
      · subst ho; simp [hu']
      · simp [ho, hu']
  all_goals inv_auto

theorem not_holds_of_pc (s : St) (t : Nat) (h : (s.tasks t).pc = .start ∨ (∃ o, (s.tasks t).pc = .jWait o) ∨ (∃ o, (s.tasks t).pc = .lWait o)) :
    ∀ o, ¬ holds s t o := by
  intro o hh
  unfold holds at hh
  rcases h with h | ⟨o', h⟩ | ⟨o', h⟩ <;> rw [h] at hh <;> simp at hh

theorem inv_lockedJoin (s : St) (t o : Nat) (e : Env) (hs : s.strict = true) (h : InvW s (some o))
    (hne : s.map (s.tasks t).n ≠ some o → ∀ n, s.map n = some o → (s.objs o).members ≠ [])
    (hfree : (s.objs o).holder = none) (hpc : (s.tasks t).pc = .start ∨ (s.tasks t).pc = .jWait o)
    (hk : (s.tasks t).kind = .join) : Inv (lockedJoin s t o e) := by
  have hnh : ∀ o', ¬ holds s t o' := not_holds_of_pc s t (by rcases hpc with h | h; exact Or.inl h; exact Or.inr (Or.inl ⟨o, h⟩))
  have hvac : ∀ o', (s.tasks t).kind = .leave false → s.map (s.tasks t).n = some o' → (s.tasks t).m ∈ (s.objs o').members →
      ((s.tasks t).pc = .start ∨ (s.tasks t).pc = .lWait o' ∨ (s.tasks t).pc = .lNotify o') → False := by
    intro o' hk'; rw [hk] at hk'; cases hk'
  unfold lockedJoin
  simp only [hs, if_true]
  split
  · next hc =>
    exact inv_setPc_done s none (invW_weaken s o h (hne hc)) t hnh hvac
  · next hc =>
    have hmap : s.map (s.tasks t).n = some o := by simpa using hc
    split
    · split
      · next he =>
        have := inv_remove_empty s o _ h hmap he
        exact inv_setPc_done _ none this t (by simpa [holds] using hnh) (by simpa using hvac)
      · next he =>
        exact inv_setPc_done s none (invW_weaken s o h (fun _ _ => he)) t hnh hvac
    · next hadm =>
      have hnm : (s.tasks t).m ∉ (s.objs o).members := by
        simp only [Bool.or_eq_true, Bool.not_eq_true', decide_eq_true_eq, not_or] at hadm
        exact hadm.2
      exact inv_join_insert s t o h hmap hfree hpc hk hnm

/-- LEAVE takes the lock and is suspended in `notify_member_left`; nothing else changes -/
theorem inv_leave_lock (s : St) (t o : Nat) (h : Inv s) (hfree : (s.objs o).holder = none)
    (hpc : (s.tasks t).pc = .start ∨ (s.tasks t).pc = .lWait o)
    (hmap : s.map (s.tasks t).n = some o) (hmem : (s.tasks t).m ∈ (s.objs o).members) :
    Inv (setPc (setObj s o { s.objs o with holder := some t }) t (.lNotify o)) := by
  obtain ⟨h1, h2, h3, h4, h5, h6, h7, h8, h9, h10, h11, h12, h13, h14⟩ := h
  have hname := h4 _ _ hmap
  constructor
  case mem_idx =>
    intro n' o' u hm' hu
    simp only [setPc_map, setPc_objs, setPc_index, setObj_map, setObj_objs, setObj_index] at hm' hu ⊢
    have hu' : u ∈ (s.objs o').members := by
      by_cases ho : o' = o
      · subst ho; simpa using hu
      · simpa [ho] using hu
    rcases h13 n' o' u hm' hu' with hi | hp | ⟨t', hk', hm'', hn'', hpc'⟩
    · exact Or.inl hi
    · exact Or.inr (Or.inl hp)
    · right; right
      by_cases htt : t' = t
      · subst htt
        have ho : o' = o := by
          rw [← hn''] at hm'; rw [hmap] at hm'; cases hm'; rfl
        subst ho
        exact ⟨t', by simp [hk'], by simp [hm''], by simp [hn''], by simp⟩
      · exact ⟨t', by simp [htt, hk'], by simp [htt, hm''], by simp [htt, hn''], by simpa [htt] using hpc'⟩
  all_goals inv_auto

theorem inv_lockedLeave (s : St) (t o : Nat) (h : Inv s) (hfree : (s.objs o).holder = none)
    (hpc : ((s.tasks t).pc = .start ∧ s.map (s.tasks t).n = some o) ∨ (s.tasks t).pc = .lWait o) :
    Inv (lockedLeave s t o) := by
  have hnh : ∀ o', ¬ holds s t o' := not_holds_of_pc s t (by rcases hpc with h | h; exact Or.inl h.1; exact Or.inr (Or.inr ⟨o, h⟩))
  unfold lockedLeave
  simp only
  split
  · next hn =>
    exact inv_setPc_done s none h t hnh (by intro o' _ hm; rw [hn] at hm; cases hm)
  · next hn =>
    split
    · next hmem =>
      refine inv_setPc_done s none h t hnh ?_
      intro o' _ hm hu hp
      have : o' = o := by
        rcases hpc with ⟨_, hmo⟩ | hw
        · rw [hmo] at hm; cases hm; rfl
        · rw [hw] at hp; simp at hp; exact hp.symm
      subst this; exact hmem hu
    · next hmem =>
      have hmem' : (s.tasks t).m ∈ (s.objs o).members := by simpa using hmem
      have hmap : s.map (s.tasks t).n = some o := by
        rcases hpc with ⟨_, hmo⟩ | hw
        · exact hmo
        · have hne : (s.objs o).members ≠ [] := by intro h0; rw [h0] at hmem'; cases hmem'
          have := h.stale_empty o hne
          rw [h.pc_named t o (by unfold refs; simp [hw])] at this
          exact this
      exact inv_leave_lock s t o h hfree (by rcases hpc with h | h; exact Or.inl h.1; exact Or.inr h) hmap hmem'

/-- a suspended task releases its lock and ends without further effect (acknowledged JOIN, cancelled request, refused
    LEAVE, finished hand-over) -/
theorem inv_release_done (s : St) (t o : Nat) (h : Inv s) (hh : holds s t o)
    (hnd : (s.tasks t).pc = .lNotify o → (s.tasks t).kind ≠ .leave false) :
    Inv (setPc (setObj s o { s.objs o with holder := none }) t .done) := by
  obtain ⟨h1, h2, h3, h4, h5, h6, h7, h8, h9, h10, h11, h12, h13, h14⟩ := h
  constructor
  case mem_idx =>
    intro n' o' u hm' hu
    simp only [setPc_map, setPc_objs, setPc_index, setObj_map, setObj_objs, setObj_index] at hm' hu ⊢
    have hu' : u ∈ (s.objs o').members := by
      by_cases ho : o' = o
      · subst ho; simpa using hu
      · simpa [ho] using hu
    rcases h13 n' o' u hm' hu' with hi | hp | ⟨t', hk', hm'', hn'', hpc'⟩
    · exact Or.inl hi
    · exact Or.inr (Or.inl hp)
    · right; right
      have htt : t' ≠ t := by
        intro h0; subst h0
        unfold holds at hh
        rcases hpc' with hp | hp | hp
        · rw [hp] at hh; simp at hh
        · rw [hp] at hh; simp at hh
        · rw [hp] at hh; simp at hh
          subst hh
          exact hnd hp hk'
      exact ⟨t', by simp [htt, hk'], by simp [htt, hm''], by simp [htt, hn''], by simpa [htt] using hpc'⟩
  all_goals inv_auto

/-- the member `m` of a suspended JOIN (roll-back) or LEAVE (removal) is taken out of object `o` together with the index entry;
    the channel leaves the map if that empties it; the task ends, or goes on to the hand-over notification keeping the lock -/
theorem inv_removed (s s' : St) (t o : Nat) (pc' : Pc) (hold' : Option Nat) (h : Inv s)
    (hpc : (s.tasks t).pc = .jNotify o ∨ (s.tasks t).pc = .lNotify o)
    (hobjs : ∀ i, s'.objs i = if i = o then { name := (s.objs o).name, members := (s.objs o).members.filter (· ≠ (s.tasks t).m), holder := hold' } else s.objs i)
    (hmap : ∀ i, s'.map i = if i = (s.tasks t).n ∧ (s.objs o).members.filter (· ≠ (s.tasks t).m) = [] then none else s.map i)
    (hidx : ∀ i, s'.index i = if i = (s.tasks t).m then delIdx (s.index (s.tasks t).m) (s.tasks t).n else s.index i)
    (htasks : ∀ i, s'.tasks i = if i = t then { s.tasks t with pc := pc' } else s.tasks i)
    (hnext : s'.next = s.next) (hrests : s'.rests = s.rests)
    (hfin : (pc' = .done ∧ hold' = none) ∨
      (pc' = .lHandover o ∧ hold' = some t ∧ (s.objs o).members.filter (· ≠ (s.tasks t).m) ≠ [])) : Inv s' := by
  obtain ⟨h1, h2, h3, h4, h5, h6, h7, h8, h9, h10, h11, h12, h13, h14⟩ := h
  have hrefs : refs (s.tasks t).pc o := by unfold refs; rcases hpc with h | h <;> simp [h]
  have hname : (s.objs o).name = (s.tasks t).n := h5 t o hrefs
  have hmem : (s.tasks t).m ∈ (s.objs o).members := by
    rcases hpc with h | h
    · exact h10 t o h
    · exact h11 t o h
  have hne : (s.objs o).members ≠ [] := by intro h0; rw [h0] at hmem; cases hmem
  have hmapo : s.map (s.tasks t).n = some o := hname ▸ h9 o hne
  have hholder : (s.objs o).holder = some t := h7 t o (by unfold holds; rcases hpc with h | h <;> simp [h])
  constructor
  case mem_idx =>
    intro n' o' u hm' hu
    rw [hmap] at hm'; rw [hobjs] at hu; rw [hidx]
    split at hm'
    · cases hm'
    · next hkeep =>
      by_cases ho : o' = o
      · subst ho
        simp only [if_true, List.mem_filter, ne_eq, decide_not, Bool.not_eq_eq_eq_not, Bool.not_true, decide_eq_false_iff_not] at hu
        obtain ⟨hu1, hu2⟩ := hu
        rcases h13 n' o' u hm' hu1 with hi | hp | ⟨t', hk', hm'', hn'', hpc'⟩
        · left; simp [hu2, hi]
        · right; left; rw [hrests]; exact hp
        · right; right
          have htt : t' ≠ t := by intro h0; subst h0; exact hu2 hm''.symm
          refine ⟨t', ?_, ?_, ?_, ?_⟩ <;> rw [htasks] <;> simp [htt, hk', hm'', hn''] <;> exact hpc'
      · simp only [ho, if_false] at hu
        have hnn : n' ≠ (s.tasks t).n := by
          intro h0; subst h0; rw [hmapo] at hm'; cases hm'; exact ho rfl
        rcases h13 n' o' u hm' hu with hi | hp | ⟨t', hk', hm'', hn'', hpc'⟩
        · left; split
          · simp [hnn]; next hx => subst hx; exact hi
          · exact hi
        · right; left; rw [hrests]; exact hp
        · right; right
          have htt : t' ≠ t := by intro h0; subst h0; exact hnn hn''.symm
          refine ⟨t', ?_, ?_, ?_, ?_⟩ <;> rw [htasks] <;> simp [htt, hk', hm'', hn''] <;> exact hpc'
  case idx_mem =>
    intro u n' hi
    rw [hidx] at hi
    have hold : n' ∈ s.index u ∧ (u = (s.tasks t).m → n' ≠ (s.tasks t).n) := by
      split at hi
      · next hx => subst hx; simp only [mem_delIdx] at hi; exact ⟨hi.1, fun _ => hi.2⟩
      · next hx => exact ⟨hi, fun h0 => absurd h0 hx⟩
    obtain ⟨o', hm', hu'⟩ := h12 u n' hold.1
    refine ⟨o', ?_, ?_⟩
    · rw [hmap]
      split
      · next hc =>
        exfalso
        obtain ⟨hc1, hc2⟩ := hc
        subst hc1
        rw [hmapo] at hm'; cases hm'
        have : u ∈ (s.objs o).members.filter (· ≠ (s.tasks t).m) := by
          simp only [List.mem_filter, ne_eq, decide_not, Bool.not_eq_eq_eq_not, Bool.not_true, decide_eq_false_iff_not]
          exact ⟨hu', fun h0 => hold.2 h0 rfl⟩
        rw [hc2] at this; cases this
      · exact hm'
    · rw [hobjs]
      split
      · next hx =>
        subst hx
        simp only [List.mem_filter, ne_eq, decide_not, Bool.not_eq_eq_eq_not, Bool.not_true, decide_eq_false_iff_not]
        refine ⟨hu', fun h0 => ?_⟩
        have := h4 n' o' hm'
        exact hold.2 h0 (this.symm.trans hname)
      · exact hu'
  case nonempty =>
    intro n' o' hm' _
    rw [hmap] at hm'; rw [hobjs]
    split at hm'
    · cases hm'
    · next hkeep =>
      split
      · next hx =>
        subst hx
        have hn' : n' = (s.tasks t).n := (h4 n' o' hm').symm.trans hname
        simp only
        intro h0; exact hkeep ⟨hn', h0⟩
      · exact h8 n' o' hm' (by simp)
  case stale_empty =>
    intro o' hne'
    rw [hobjs] at hne' ⊢; rw [hmap]
    split at hne'
    · next hx =>
      subst hx
      simp only at hne' ⊢
      simp only [if_true, hname]
      rw [if_neg (by intro hc; exact hne' hc.2)]
      exact hmapo
    · next hx =>
      simp only [hx, if_false]
      have := h9 o' hne'
      split
      · next hc =>
        exfalso
        rw [hc.1, hmapo] at this; cases this; exact hx rfl
      · exact this
  all_goals (simp only [refs, holds, debt, hobjs, hmap, hidx, htasks, hnext, hrests] at * <;> intros <;> grind)

theorem invW_weaken' (s : St) (o : Nat) (h : Inv s) : InvW s (some o) := by
  obtain ⟨h1, h2, h3, h4, h5, h6, h7, h8, h9, h10, h11, h12, h13, h14⟩ := h
  constructor
  case nonempty => intro n o' hm _; exact h8 n o' hm (by simp)
  all_goals assumption

/-- a task that has just started finds the lock of its channel taken and waits -/
theorem inv_pc_wait (s : St) (t o : Nat) (pc' : Pc) (h : Inv s) (hstart : (s.tasks t).pc = .start)
    (hpc' : (pc' = .jWait o ∧ (s.tasks t).kind = .join) ∨ pc' = .lWait o) (hm : s.map (s.tasks t).n = some o) :
    Inv (setPc s t pc') := by
  obtain ⟨h1, h2, h3, h4, h5, h6, h7, h8, h9, h10, h11, h12, h13, h14⟩ := h
  have ho := h1 _ _ hm
  have hname := h4 _ _ hm
  constructor
  case mem_idx =>
    intro n' o' u hm' hu
    simp only [setPc_map, setPc_objs, setPc_index] at hm' hu ⊢
    rcases h13 n' o' u hm' hu with hi | hp | ⟨t', hk', hm'', hn'', hpc''⟩
    · exact Or.inl hi
    · exact Or.inr (Or.inl hp)
    · right; right
      by_cases htt : t' = t
      · subst htt
        have ho' : o' = o := by rw [← hn''] at hm'; rw [hm] at hm'; cases hm'; rfl
        subst ho'
        rcases hpc' with ⟨_, hj⟩ | hl
        · rw [hj] at hk'; cases hk'
        · exact ⟨t', by simp [hk'], by simp [hm''], by simp [hn''], by simp [hl]⟩
      · exact ⟨t', by simp [htt, hk'], by simp [htt, hm''], by simp [htt, hn''], by simpa [htt] using hpc''⟩
  all_goals inv_auto

/-- a JOIN finds no channel of that name and creates one: the new, empty object is exempt from `nonempty` until the
    same segment has either inserted the first member or removed it again -/
theorem inv_create (s : St) (n : Name) (h : Inv s) (hn : s.map n = none) :
    InvW (setMap (setObj { s with next := s.next + 1 } s.next { name := n, members := [], holder := none }) n (some s.next))
      (some s.next) := by
  obtain ⟨h1, h2, h3, h4, h5, h6, h7, h8, h9, h10, h11, h12, h13, h14⟩ := h
  have hfresh := h2 s.next (Nat.le_refl _)
  constructor
  case mem_idx =>
    intro n' o' u hm' hu
    simp only [setMap_map, setMap_objs, setMap_index, setObj_objs, setObj_index] at hm' hu ⊢
    by_cases ho : o' = s.next
    · subst ho; simp at hu
    · simp only [ho, if_false] at hu
      split at hm'
      · cases hm'; exact absurd rfl ho
      · rcases h13 n' o' u hm' hu with hi | hp | ht
        · exact Or.inl hi
        · exact Or.inr (Or.inl hp)
        · exact Or.inr (Or.inr ht)
  case idx_mem =>
    intro u n' hi
    simp only [setMap_map, setMap_objs, setMap_index, setObj_objs, setObj_index] at hi ⊢
    obtain ⟨o', hm', hu'⟩ := h12 u n' hi
    have hnn : n' ≠ n := by intro h0; subst h0; rw [hn] at hm'; cases hm'
    have ho : o' ≠ s.next := by intro h0; subst h0; rw [hfresh.1] at hu'; cases hu'
    exact ⟨o', by simp [hnn, hm'], by simp [ho, hu']⟩
  case stale_empty =>
    intro o' hne
    simp only [setMap_map, setMap_objs, setObj_objs] at hne ⊢
    by_cases ho : o' = s.next
    · subst ho; simp at hne
    · simp only [ho, if_false] at hne ⊢
      have := h9 o' hne
      have hnn : (s.objs o').name ≠ n := by intro h0; rw [h0, hn] at this; cases this
      simp [hnn, this]
  all_goals inv_auto

macro "charac" : tactic => `(tactic|
  (intro i
   simp only [setPc_tasks, setPc_objs, setPc_map, setPc_index, setObj_objs, setObj_tasks, setObj_map, setObj_index,
     setMap_map, setMap_tasks, setMap_objs, setMap_index, setIndex_index, setIndex_tasks, setIndex_objs, setIndex_map, *,
     and_true, and_false, if_false]
   try (first | rfl | (split <;> first | rfl | simp_all))))

theorem inv_runTask (s : St) (hs : s.strict = true) (h : Inv s) (t : Nat) (e : Env) : Inv (runTask s t e) := by
  unfold runTask
  simp only
  split
  · exact h
  · -- start
    next hpc =>
    split
    · -- join
      next hk =>
      split
      · next o hm =>
        split
        · next hfree =>
          exact inv_lockedJoin s t o e hs (invW_weaken' s o h) (fun _ n hmn => h.nonempty n o hmn (by simp)) hfree (Or.inl hpc) hk
        · exact inv_pc_wait s t o (.jWait o) h hpc (Or.inl ⟨rfl, hk⟩) hm
      · next hm =>
        have hc := inv_create s (s.tasks t).n h hm
        refine inv_lockedJoin _ t s.next e (by simpa using hs) hc ?_ (by simp) (Or.inl (by simpa using hpc)) (by simpa using hk)
        intro hne; simp at hne
    · -- leave
      next b hk =>
      split
      · next hm =>
        exact inv_setPc_done s none h t (not_holds_of_pc s t (Or.inl hpc)) (by intro o' _ hm'; rw [hm] at hm'; cases hm')
      · next o hm =>
        split
        · next hfree => exact inv_lockedLeave s t o h hfree (Or.inl ⟨hpc, hm⟩)
        · exact inv_pc_wait s t o (.lWait o) h hpc (Or.inr rfl) hm
  · -- jWait
    next o hpc =>
    split
    · exact inv_setPc_done s none h t (not_holds_of_pc s t (Or.inr (Or.inl ⟨o, hpc⟩)))
        (by intro o' _ _ _ hp; rw [hpc] at hp; simp at hp)
    · split
      · next hfree =>
        exact inv_lockedJoin s t o e hs (invW_weaken' s o h) (fun _ n hmn => h.nonempty n o hmn (by simp)) hfree (Or.inr hpc)
          (h.jwait_join t o hpc)
      · exact h
  · -- lWait
    next o hpc =>
    split
    · next hc =>
      refine inv_setPc_done s none h t (not_holds_of_pc s t (Or.inr (Or.inr ⟨o, hpc⟩))) ?_
      intro o' hk'
      simp only [Bool.and_eq_true] at hc
      rw [hk'] at hc; simp [hasTx] at hc
    · split
      · next hfree => exact inv_lockedLeave s t o h hfree (Or.inr hpc)
      · exact h
  · -- jNotify
    next o hpc =>
    have hh : holds s t o := by simp [holds, hpc]
    have hnd : (s.tasks t).pc = .lNotify o → (s.tasks t).kind ≠ .leave false := by intro h0; rw [hpc] at h0; cases h0
    split
    · exact inv_release_done s t o h hh hnd
    · split
      · exact inv_release_done s t o h hh hnd
      · split
        · next hms =>
          refine inv_removed s _ t o .done none h (Or.inl hpc) ?_ ?_ ?_ ?_ rfl rfl (Or.inl ⟨rfl, rfl⟩)
          · charac
          · charac
          · charac
          · charac
        · next hms =>
          refine inv_removed s _ t o .done none h (Or.inl hpc) ?_ ?_ ?_ ?_ rfl rfl (Or.inl ⟨rfl, rfl⟩)
          · charac
          · charac
          · charac
          · charac
  · -- lNotify
    next o hpc =>
    have hh : holds s t o := by simp [holds, hpc]
    split
    · next hc =>
      refine inv_release_done s t o h hh ?_
      intro _ hk'; simp only [Bool.and_eq_true] at hc; rw [hk'] at hc; simp [hasTx] at hc
    · split
      · next hc =>
        refine inv_release_done s t o h hh ?_
        intro _ hk'; simp only [Bool.and_eq_true] at hc; rw [hk'] at hc; simp [hasTx] at hc
      · split
        · next hms =>
          refine inv_removed s _ t o .done none h (Or.inr hpc) ?_ ?_ ?_ ?_ rfl rfl (Or.inl ⟨rfl, rfl⟩)
          · charac
          · charac
          · charac
          · charac
        · next hms =>
          split
          · refine inv_removed s _ t o (.lHandover o) (some t) h (Or.inr hpc) ?_ ?_ ?_ ?_ rfl rfl (Or.inr ⟨rfl, rfl, hms⟩)
            · intro i
              simp only [setPc_objs, setIndex_objs, setObj_objs]
              split
              · next hi => subst hi; simp [h.pc_holder t i hh]
              · rfl
            · charac
            · charac
            · charac
          · refine inv_removed s _ t o .done none h (Or.inr hpc) ?_ ?_ ?_ ?_ rfl rfl (Or.inl ⟨rfl, rfl⟩)
            · charac
            · charac
            · charac
            · charac
  · -- lHandover
    next o hpc =>
    exact inv_release_done s t o h (by simp [holds, hpc]) (by intro h0; rw [hpc] at h0; cases h0)

/-! ## every schedule -/

theorem step_strict (s : St) (l : Label) : (step s l).strict = s.strict := by
  cases l with
  | spawn t k m n => simp only [step]; split <;> rfl
  | cleanup u => rfl
  | cleanupNext i n t =>
    simp only [step]
    split
    · rfl
    · split <;> rfl
  | run t e =>
    simp only [step, runTask, lockedJoin, lockedLeave]
    repeat' split
    all_goals rfl

theorem inv_step (s : St) (hs : s.strict = true) (h : Inv s) (l : Label) : Inv (step s l) := by
  cases l with
  | spawn t k m n => exact inv_spawn s h t k m n
  | run t e => exact inv_runTask s hs h t e
  | cleanup u => exact inv_cleanup s h u
  | cleanupNext i n t => exact inv_cleanupNext s h i n t

theorem inv_run (s : St) (hs : s.strict = true) (h : Inv s) (ls : List Label) : Inv (run s ls) := by
  induction ls generalizing s with
  | nil => exact h
  | cons l ls ih => exact ih (step s l) (by rw [step_strict]; exact hs) (inv_step s hs h l)

/-- **C05, every interleaving.** Whatever requests (JOIN, LEAVE, on-behalf JOIN / LEAVE) and disconnect clean-ups are started,
    however their segments interleave, whatever each modulator notification answers and whichever suspended requests are
    cancelled: the invariant holds in every reachable state. -/
theorem C05_micro_invariant (ls : List Label) : Inv (run (init true) ls) :=
  inv_run (init true) rfl (inv_init true) ls

/-- **C05 at quiescence.** When no request and no clean-up is in progress, `n` is in `u`'s CHANNELS listing iff `u` is in the
    MEMBERS listing of `n`, and no channel without members exists. -/
theorem C05_views_agree_at_quiescence (ls : List Label) (hq : Quiescent (run (init true) ls)) :
    ViewsAgree (run (init true) ls) ∧
    ∀ n o, (run (init true) ls).map n = some o → ((run (init true) ls).objs o).members ≠ [] := by
  have h := C05_micro_invariant ls
  refine ⟨?_, fun n o hm => h.nonempty n o hm (by simp)⟩
  intro u n
  constructor
  · exact h.idx_mem u n
  · rintro ⟨o, hm, hu⟩
    rcases h.mem_idx n o u hm hu with hi | ⟨p, hp, _, hn⟩ | ⟨t, _, _, _, hpc⟩
    · exact hi
    · rw [hq.2 p hp] at hn; cases hn
    · rw [hq.1 t] at hpc; simp at hpc

/-- a member of a channel that no clean-up is responsible for any more is in the index: in particular a request that is
    cancelled while suspended (connection closed, `request_timeout`) never leaves a membership the disconnect clean-up
    cannot find — at *every* moment, not only at quiescence -/
theorem C05_no_orphan_membership (ls : List Label) (n : Name) (o : Nat) (u : User)
    (hm : (run (init true) ls).map n = some o) (hu : u ∈ ((run (init true) ls).objs o).members) :
    n ∈ (run (init true) ls).index u ∨ debt (run (init true) ls) u n o :=
  (C05_micro_invariant ls).mem_idx n o u hm hu

/-- an object that is not (any longer) the map's entry for its name has no members: whoever locks a removed channel finds
    it empty, so nothing can be joined to or delivered through it -/
theorem C05_removed_channel_is_empty (ls : List Label) (o : Nat)
    (h : (run (init true) ls).map ((run (init true) ls).objs o).name ≠ some o) : ((run (init true) ls).objs o).members = [] := by
  have := (C05_micro_invariant ls).stale_empty o
  cases hm : ((run (init true) ls).objs o).members with
  | nil => rfl
  | cons a l => exact absurd (this (by rw [hm]; simp)) h

/-! ## the code has the segment structure the model assumes (regenerated from the source on every run) -/

open Narwhal.Generated in
/-- table obligation: in `join_channel` the post-lock re-check is by identity, member and index entry are written in one
    segment before the notification and rolled back together; in `leave_channel` member and index entry are removed (and an
    empty channel dropped) in one segment between the two notifications; `leave_all_channels` takes the index entry first
    and never stops at a failure -/
theorem steps_table_ok :
    joinRecheckIdentity = true ∧ joinWritesBeforeNotify = true ∧ joinRollbackComplete = true ∧
    joinRefusalRemovesEmpty = true ∧ leaveWritesInOneSegment = true ∧ leaveCleanupIgnoresFailure = true ∧
    leaveAllTakesIndexFirst = true := by decide

open Narwhal.Generated in
/-- **C05 for the code as it is now**: the model instantiated with the re-check the source actually contains -/
theorem C05_micro_invariant_code (ls : List Label) : Inv (run (init joinRecheckIdentity) ls) := by
  rw [steps_table_ok.1]; exact C05_micro_invariant ls

/-! ## the old re-check is wrong: a concrete schedule -/

/-- bob (1) is the only member of channel 0 and leaves; his LEAVE is suspended in the modulator while carol's (2) JOIN waits for
    the channel's lock; the LEAVE completes and removes the channel; dave (3) creates it anew; then carol's JOIN runs. -/
def staleSchedule : List Label :=
  [.spawn 0 .join 1 0, .run 0 {}, .run 0 {},
   .spawn 0 (.leave true) 1 0, .run 0 {},
   .spawn 1 .join 2 0, .run 1 {},
   .run 0 {},
   .spawn 2 .join 3 0, .run 2 {}, .run 2 {},
   .run 1 {}, .run 1 {}]

/-- **the re-check before a26f788 breaks C05**: after the schedule nothing is in progress, carol's CHANNELS listing contains
    the channel, and the channel's MEMBERS listing (the object the map holds) does not contain carol. -/
theorem old_recheck_breaks_views :
    let s := run (init false) staleSchedule
    (∀ t < 3, (s.tasks t).pc = .done) ∧ s.rests = [] ∧ (0 : Name) ∈ s.index 2 ∧
      ∃ o, s.map 0 = some o ∧ 2 ∉ (s.objs o).members ∧ 3 ∈ (s.objs o).members := by
  refine ⟨by decide, by decide, by decide, 1, by decide, by decide, by decide⟩

/-- with the repaired re-check the same schedule ends with carol refused and the views in agreement -/
example :
    let s := run (init true) staleSchedule
    s.index 2 = [] ∧ s.index 3 = [0] ∧ s.map 0 = some 1 ∧ (s.objs 1).members = [3] ∧ (s.objs 0).members = [] := by decide

end Narwhal.Micro

#print axioms Narwhal.Micro.C05_micro_invariant
#print axioms Narwhal.Micro.C05_views_agree_at_quiescence
#print axioms Narwhal.Micro.C05_no_orphan_membership
#print axioms Narwhal.Micro.C05_removed_channel_is_empty
#print axioms Narwhal.Micro.old_recheck_breaks_views
#print axioms Narwhal.Micro.steps_table_ok
#print axioms Narwhal.Micro.C05_micro_invariant_code
