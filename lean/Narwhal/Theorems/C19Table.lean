import Narwhal.Generated.PoolOrder
/-!
# C19 — table obligation: the operation order the pool micro-step model assumes

`Model/Pool.lean` splits `acquire` into *acquire-permit, pop* and `release` (and dropping a buffer) into *push, release-permit*; the safety
theorems (`C19_pop_never_panics`, `C19_exclusive`, `C19_conservation`) hold for every interleaving of steps **in that
order**.  The order is read from the source on every run.
-/
namespace Narwhal.Pool
open Narwhal.Generated

theorem pool_table_ok :
    poolAcquirePermitFirst = true ∧ poolTryAcquirePermitFirst = true ∧ poolReleasePushFirst = true ∧ poolDropPushFirst = true ∧ poolNoUnsafe = true ∧ poolBucketedWaits = true := by
  decide

end Narwhal.Pool

#print axioms Narwhal.Pool.pool_table_ok
