import Narwhal.Model.Server
import Narwhal.Generated.Errors
/-!
# C12 / C06 — table obligations: error reasons and error sites, regenerated from the source on every run

`Server.lean` turns a refusal into an ERROR frame that stays on the connection when the reason is recoverable and into the close
of the connection otherwise (`fail`); `C12_one_reply` rests on every *recoverable* refusal of a request carrying that request's
id (a recoverable error without the id leaves the request unanswered on an open connection).  Both facts are properties of tables
in the source: `Error::is_recoverable` (evaluated on the real type) and the builder chain after each
`narwhal_protocol::Error::new(..)`.
-/
namespace Narwhal.Server
open Narwhal.Generated

/-- the model's `Reason.recoverable` is the code's `Error::is_recoverable`, reason by reason -/
theorem errors_table_ok :
    Reason.recoverable .badRequest = recoverableBadRequest ∧
    Reason.recoverable .channelNotFound = recoverableChannelNotFound ∧
    Reason.recoverable .channelIsFull = recoverableChannelIsFull ∧
    Reason.recoverable .forbidden = recoverableForbidden ∧
    Reason.recoverable .internalServerError = recoverableInternalServerError ∧
    Reason.recoverable .policyViolation = recoverablePolicyViolation ∧
    Reason.recoverable .serverOverloaded = recoverableServerOverloaded ∧
    Reason.recoverable .notAllowed = recoverableNotAllowed ∧
    Reason.recoverable .notImplemented = recoverableNotImplemented ∧
    Reason.recoverable .unauthorized = recoverableUnauthorized ∧
    Reason.recoverable .unexpectedMessage = recoverableUnexpectedMessage ∧
    Reason.recoverable .unsupportedProtocolVersion = recoverableUnsupportedProtocolVersion ∧
    Reason.recoverable .userInChannel = recoverableUserInChannel ∧
    Reason.recoverable .userNotInChannel = recoverableUserNotInChannel ∧
    Reason.recoverable .usernameInUse = recoverableUsernameInUse ∧
    Reason.recoverable .userNotRegistered = recoverableUserNotRegistered ∧
    Reason.recoverable .resourceConflict = recoverableResourceConflict ∧
    Reason.recoverable .responseTooLarge = recoverableResponseTooLarge ∧
    Reason.recoverable .timeout = recoverableTimeout ∧
    Reason.recoverable .outboundQueueFull = recoverableOutboundQueueIsFull ∧
    Reason.recoverable .serverShuttingDown = recoverableServerShuttingDown := by decide

/-- a site is fine when its error closes the connection, or carries the request's id, or belongs to the handshake (CONNECT,
    IDENTIFY and AUTH carry no id) -/
def siteOk (s : String × String × Bool × Bool × Bool) : Bool := !s.2.2.1 || s.2.2.2.1 || s.2.2.2.2

/-- **every recoverable error raised by a request handler carries the request's id** (C12: a reply with its own id, never a
    silent or anonymous refusal on a connection that stays open) -/
theorem error_sites_ok : errorSites.all siteOk = true := by decide +kernel

/-- out-of-phase and malformed input is answered by reasons that close the connection (C06) -/
theorem closing_reasons_ok :
    recoverableUnexpectedMessage = false ∧ recoverableBadRequest = false ∧ recoverableUnsupportedProtocolVersion = false ∧
    recoverableUnauthorized = false ∧ recoverableTimeout = false ∧ recoverableInternalServerError = false ∧
    recoverablePolicyViolation = false := by decide

end Narwhal.Server

#print axioms Narwhal.Server.errors_table_ok
#print axioms Narwhal.Server.error_sites_ok
#print axioms Narwhal.Server.closing_reasons_ok
