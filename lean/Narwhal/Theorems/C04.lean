import Narwhal.Lemmas.Checks
import Narwhal.Lemmas.Invariants
/-!
# C04 — only the owner administers, only members observe (gates) ; refused requests change nothing

For every state and every caller: a request *succeeds* (is acknowledged) only when its admission
check passed, and the check passes only for the owner (SET_CHAN_ACL, GET_CHAN_ACL, SET_CHAN_CONFIG,
JOIN/LEAVE on behalf) resp. a member (MEMBERS, GET_CHAN_CONFIG, BROADCAST) of the channel *in the
state before the request*.  A refused request leaves the whole server state untouched and emits exactly
one ERROR to the caller — unless the reason is non-recoverable, in which case the only further effect is
the caller's own disconnection.  (The one-owner invariant over histories is `C05.lean`.)
-/
namespace Narwhal.Server

/-- every handler is "refuse via `fail`, or commit" -/
theorem refused_is_fail (s : Srv) (k : Nat) (u : Str) (env : Env) :
    (∀ id c ob e, joinCheck s u id c ob = .error e → doJoin s k u id c ob env = fail s k e.1 e.2 env) ∧
    (∀ id c ob e, leaveCheck s u id c ob = .error e → doLeave s k u id c ob env = fail s k e.1 e.2 env) ∧
    (∀ id c q p e, broadcastCheck s u id c q p env = .error e → doBroadcast s k u id c q p env = fail s k e.1 e.2 env) ∧
    (∀ id c pg sz e, membersCheck s u id c = .error e → doMembers s k u id c pg sz env = fail s k e.1 e.2 env) ∧
    (∀ id c t pg sz e, getAclCheck s u id c = .error e → doGetAcl s k u id c t pg sz env = fail s k e.1 e.2 env) ∧
    (∀ id c t a ns e, setAclCheck s u id c t a ns = .error e → doSetAcl s k u id c t a ns env = fail s k e.1 e.2 env) ∧
    (∀ id c e, getConfigCheck s u id c = .error e → doGetConfig s k u id c env = fail s k e.1 e.2 env) ∧
    (∀ id c mc mp e, setConfigCheck s u id c mc mp = .error e → doSetConfig s k u id c mc mp env = fail s k e.1 e.2 env) := by
  refine ⟨?_, ?_, ?_, ?_, ?_, ?_, ?_, ?_⟩
  · intro id c ob e h; unfold doJoin; rw [h]
  · intro id c ob e h; unfold doLeave; rw [h]
  · intro id c q p e h; unfold doBroadcast; rw [h]
  · intro id c pg sz e h; unfold doMembers; rw [h]
  · intro id c t pg sz e h; unfold doGetAcl; rw [h]
  · intro id c t a ns e h; unfold doSetAcl; rw [h]
  · intro id c e h; unfold doGetConfig; rw [h]
  · intro id c mc mp e h; unfold doSetConfig; rw [h]

/-- **a recoverable refusal is a no-op**: state unchanged, exactly one ERROR to the caller, nothing to anybody else -/
theorem C04_refused_noop (s : Srv) (k : Nat) (id : Option Nat) (r : Reason) (env : Env) (hr : r.recoverable = true) :
    fail s k id r env = (s, [{ conn := k, frame := .error id r }]) := by
  simp [fail, hr, errFrame]

/-- **a non-recoverable refusal only disconnects the caller**: the state is the one after the caller's
    connection ended, the caller gets the closing ERROR, everybody else sees only the clean-up EVENTs -/
theorem C04_refused_closes (s : Srv) (k : Nat) (id : Option Nat) (r : Reason) (env : Env) (hr : r.recoverable = false) :
    (fail s k id r env).1 = (dropConn s k env).1 ∧
      (fail s k id r env).2 = { conn := k, frame := .error id r, close := true } :: (dropConn s k env).2 := by
  simp [fail, hr, errFrame]

/-- **owner gates**: acknowledged SET_CHAN_ACL / GET_CHAN_ACL / SET_CHAN_CONFIG imply the caller owned
    the (local, existing) channel in the pre-state -/
theorem C04_owner_gates (s : Srv) (u : Str) (id : Nat) (raw : Str) :
    (∀ t a ns c, setAclCheck s u id raw t a ns = .ok c →
        ∃ h, Id.parseChannelId raw = some (h, s.cfg.domain) ∧ findChan s.chans h = some c ∧ c.owner = some u) ∧
    (∀ c, getAclCheck s u id raw = .ok c →
        ∃ h, Id.parseChannelId raw = some (h, s.cfg.domain) ∧ findChan s.chans h = some c ∧ c.owner = some u) ∧
    (∀ mc mp c, setConfigCheck s u id raw mc mp = .ok c →
        ∃ h, Id.parseChannelId raw = some (h, s.cfg.domain) ∧ findChan s.chans h = some c ∧ c.owner = some u) := by
  refine ⟨?_, ?_, ?_⟩
  · intro t a ns c h
    obtain ⟨⟨h', hp, hf⟩, ho, _⟩ := setAclCheck_ok h
    exact ⟨h', hp, hf, ho⟩
  · intro c h; exact getAclCheck_ok h
  · intro mc mp c h
    obtain ⟨⟨h', hp, hf⟩, ho, _⟩ := setConfigCheck_ok h
    exact ⟨h', hp, hf, ho⟩

/-- **on-behalf gates**: a JOIN or LEAVE naming somebody else is admitted only for the channel's owner -/
theorem C04_on_behalf_gates (s : Srv) (u : Str) (id : Nat) (raw : Str) (ob : Str) :
    (∀ h m, joinCheck s u id raw (some ob) = .ok (h, m) → (chanOrNew s h).owner = some u) ∧
    (∀ c m, leaveCheck s u id raw (some ob) = .ok (c, m) → c.owner = some u) := by
  constructor
  · intro h m hc
    obtain ⟨_, _, hjm, _⟩ := joinCheck_ok hc
    rcases joinMember_ok hjm with ⟨hnone, _⟩ | ⟨od, _, ho, _⟩
    · -- `ob.bind parseNid = none` although the request named somebody: impossible, the check refused it
      exfalso
      unfold joinCheck at hc
      split at hc
      · cases hc
      · split at hc
        · cases hc
        · next hne =>
          simp only [Option.bind_some] at hnone
          simp [hnone] at hne
    · exact ho
  · intro c m hc
    obtain ⟨_, hlt, _⟩ := leaveCheck_ok hc
    rcases leaveTarget_ok hlt with ⟨hnone, _⟩ | ⟨od, _, ho⟩
    · exfalso
      unfold leaveCheck at hc
      split at hc
      · cases hc
      · split at hc
        · cases hc
        · next hne =>
          simp only [Option.bind_some] at hnone
          simp [hnone] at hne
    · exact ho

/-- **member gates**: acknowledged MEMBERS / GET_CHAN_CONFIG / BROADCAST imply the caller was a member -/
theorem C04_member_gates (s : Srv) (u : Str) (id : Nat) (raw : Str) :
    (∀ c, membersCheck s u id raw = .ok c → u ∈ c.members) ∧
    (∀ c, getConfigCheck s u id raw = .ok c → u ∈ c.members) ∧
    (∀ q p env c p', broadcastCheck s u id raw q p env = .ok (c, p') → u ∈ c.members) := by
  refine ⟨fun c h => (membersCheck_ok h).2, fun c h => (getConfigCheck_ok h).2, ?_⟩
  intro q p env c p' h
  exact (broadcastCheck_ok h).2.1

/-- acknowledgements come only from passed checks (no ack on a refused request) -/
theorem C04_ack_requires_check (s : Srv) (k : Nat) (u : Str) (id : Nat) (raw : Str) (t : AclType) (a : AclAction)
    (ns : List Str) (env : Env) (e : Emit) (he : e ∈ (doSetAcl s k u id raw t a ns env).2) (hf : e.frame = .setAclAck id) :
    ∃ c, setAclCheck s u id raw t a ns = .ok c := by
  unfold doSetAcl at he
  split at he
  · next i r hc =>
    exfalso
    unfold fail at he
    split at he
    · simp only [List.mem_singleton] at he; subst he; simp [errFrame] at hf
    · simp only [List.mem_cons] at he
      rcases he with rfl | he
      · simp [errFrame] at hf
      · have := (dropConn_plain s k env e he).1
        rw [hf] at this; simp [Frame.isEvent] at this
  · next c hc => exact ⟨c, hc⟩

/-- **one owner, who is a member**: in every state reachable by any history, every existing channel has
    members, exactly one owner (`owner` is a single optional field) and that owner is one of the members. -/
theorem C04_one_owner (cfg : Cfg) (hist : List (Op × Env)) (h : Str) (c : Chan)
    (hf : findChan (run (init cfg) hist).1.chans h = some c) :
    c.members ≠ [] ∧ ∃ o, c.owner = some o ∧ o ∈ c.members :=
  let ok := (reachable_ChansOK cfg hist h c hf).2
  ⟨ok.2.1, ok.2.2.1⟩

/-- the successor of a departing owner is one of the remaining members -/
theorem C04_successor_is_member (env : Env) (c1 : Chan) (u : Str) (hne : c1.members ≠ []) :
    pickOwner env c1 u ∈ c1.members := pickOwner_mem env c1 u hne

end Narwhal.Server

#print axioms Narwhal.Server.C04_one_owner
#print axioms Narwhal.Server.C04_successor_is_member
#print axioms Narwhal.Server.refused_is_fail
#print axioms Narwhal.Server.C04_refused_noop
#print axioms Narwhal.Server.C04_refused_closes
#print axioms Narwhal.Server.C04_owner_gates
#print axioms Narwhal.Server.C04_on_behalf_gates
#print axioms Narwhal.Server.C04_member_gates
#print axioms Narwhal.Server.C04_ack_requires_check
