import Narwhal.Lemmas.CodecValues
import Narwhal.Generated.Schema
/-!
# C11 — the wire codec: decoding is total and never panics; encode/decode round-trip

`Narwhal.Codec` is a byte-exact, schema-generic model of `serialize` / `deserialize` and of the code the derive
macro generates; the schema is regenerated from `message.rs` on every run and its well-formedness (`SchemaOK`) is
re-decided by the kernel here.  The model is tied to the implementation by the `codec` correspondence suite
(both directions, all 45 kinds, adversarial values, mutated and truncated lines).
-/
namespace Narwhal.Codec
open Narwhal.Generated

/-! ## decoding is total and cannot panic -/

theorem readParameter_count_pos {s nm c r} (h : readParameter s = .ok (nm, c, r)) : c ≠ 0 := by
  unfold readParameter at h
  split at h
  · cases h
  · split at h
    · split at h
      · cases h; decide
      · cases h
    · split at h
      · cases h
      · split at h
        · cases h
        · cases h
        · next hne _ =>
          split at h
          · cases h
            exact fun h0 => hne h0
          · cases h

/-- the only arithmetic in the decoder that could overflow is the decrement of the value counter; it is never
    reached with a zero counter (a count of `0` in a parameter name is rejected as malformed) -/
theorem readParams_no_panic (fuel : Nat) (s : Bytes) (cur : Option (Bytes × Nat))
    (hcur : ∀ nm c, cur = some (nm, c) → c ≠ 0) : readParams fuel s cur ≠ .error .panic := by
  induction fuel generalizing s cur with
  | zero => simp [readParams]
  | succ f ih =>
    unfold readParams
    intro hp
    -- the start of this round
    cases cur with
    | some p =>
      obtain ⟨nm, c⟩ := p
      have hc := hcur nm c rfl
      simp only at hp
      split at hp
      · cases hp
      · cases hp
      · next v s3 _ =>
        simp only [hc, if_false] at hp
        split at hp
        · cases hp
        · next e he =>
          cases hp
          refine ih s3 _ ?_ he
          intro nm' c' h'
          split at h'
          · cases h'
          · cases h'; assumption
    | none =>
      simp only at hp
      cases hsk : seekChar s with
      | none => simp [hsk] at hp
      | some s1 =>
        simp only [hsk] at hp
        cases hrp : readParameter s1 with
        | error e =>
          simp only [hrp] at hp
          cases hp
          unfold readParameter at hrp
          -- `readParameter` only ever fails with `malformed`
          split at hrp
          · cases hrp
          · split at hrp
            · split at hrp <;> cases hrp
            · split at hrp
              · cases hrp
              · split at hrp
                · cases hrp
                · cases hrp
                · split at hrp <;> cases hrp
        | ok r =>
          obtain ⟨nm, c, s2⟩ := r
          have hc := readParameter_count_pos hrp
          simp only [hrp] at hp
          split at hp
          · cases hp
          · cases hp
          · next v s3 _ =>
            simp only [hc, if_false] at hp
            split at hp
            · cases hp
            · next e he =>
              cases hp
              refine ih s3 _ ?_ he
              intro nm' c' h'
              split at h'
              · cases h'
              · cases h'; assumption

/-- **C11 (decoding is total and never panics).**  For every schema and every byte string `deserialize` returns a
    message or an error; the overflow-checked decrement is never reached with zero. (Termination: `decode` is a total
    Lean function; its parameter loop is bounded by the input length.) -/
theorem C11_decode_never_panics (S : Schema) (line : Bytes) : decode S line ≠ .error .panic := by
  unfold decode
  intro h
  split at h
  · cases h
  · split at h
    · cases h
    · split at h
      · next e he =>
        cases h
        exact readParams_no_panic _ _ none (by intro _ _ h; cases h) he
      · split at h
        · cases h
        · split at h <;> cases h

/-! ## one value -/

/-- **C11 (values round-trip).** Every value the encoder accepts — any UTF-8 string without LF/NUL for which one of
    the four delimiters is free, every `u8`/`u16`/`u32`, both booleans — followed by the end of the line or a space,
    is read back by the scanner as exactly that value, leaving the rest of the line in place. -/
theorem C11_value_roundtrip (ty : Ty) (x : Scalar) (e tail : Bytes) (hwt : ScalarWT ty x) (he : encScalar x = .ok e)
    (ht : Sep tail) :
    ∃ raw tail', readEscaped (e ++ tail) = some (some (raw, tail')) ∧ seekChar tail' = seekChar tail ∧
      decScalar ty raw = some x :=
  scalar_roundtrip ty x e tail hwt he ht

/-- the encoder refuses exactly the strings it could not write losslessly: those with LF or NUL, and those that
    need escaping while containing all four delimiters -/
theorem C11_encStr_refuses (s : Bytes) :
    (∃ e, encStr s = .ok e) ↔
      (∀ b ∈ s, b ≠ 10 ∧ b ≠ 0) ∧ (s = [] ∨ (looksEscaped s = false ∧ s.any isSpace = false) ∨ ∃ d ∈ escChars, d ∉ s) := by
  unfold encStr
  by_cases hbad : (s.any (fun b => decide (b = 10) || decide (b = 0))) = true
  · simp only [hbad, if_true]
    constructor
    · rintro ⟨e, he⟩; cases he
    · rintro ⟨h, _⟩
      obtain ⟨b, hb, hb'⟩ := List.any_eq_true.mp hbad
      have := h b hb
      simp only [Bool.or_eq_true, decide_eq_true_eq] at hb'
      rcases hb' with h' | h' <;> simp_all
  · have hclean : ∀ b ∈ s, b ≠ 10 ∧ b ≠ 0 := by
      intro b hb
      have := List.any_eq_false.mp ((Bool.not_eq_true _).mp hbad) b hb
      simpa using this
    simp only [hbad, Bool.false_eq_true, if_false]
    by_cases hemp : s.isEmpty = true
    · simp only [hemp, if_true]
      exact ⟨fun _ => ⟨hclean, Or.inl (by simpa [List.isEmpty_iff] using hemp)⟩, fun _ => ⟨_, rfl⟩⟩
    · have hne : s ≠ [] := by intro h; simp [h] at hemp
      simp only [hemp, Bool.false_eq_true, if_false]
      by_cases hplain : (!looksEscaped s && !s.any isSpace) = true
      · simp only [hplain, if_true]
        refine ⟨fun _ => ⟨hclean, Or.inr (Or.inl ?_)⟩, fun _ => ⟨_, rfl⟩⟩
        simpa using hplain
      · simp only [hplain, Bool.false_eq_true, if_false]
        cases hfind : escChars.find? (fun d => !s.contains d) with
        | some d =>
          refine ⟨fun _ => ⟨hclean, Or.inr (Or.inr ⟨d, List.mem_of_find?_eq_some hfind, ?_⟩)⟩, fun _ => ⟨_, rfl⟩⟩
          simpa using List.find?_some hfind
        | none =>
          constructor
          · rintro ⟨e, he⟩; cases he
          · rintro ⟨_, h⟩
            rcases h with h | h | ⟨d, hd, hnot⟩
            · exact absurd h hne
            · exfalso; apply hplain; simpa using h
            · have := List.find?_eq_none.mp hfind d hd
              simp [hnot] at this

/-! ## parameter names and value counts -/

theorem splitAt_eq (p : Nat → Bool) (a : Bytes) (b : Nat) (rest : Bytes) (ha : ∀ x ∈ a, p x = false) (hb : p b = true) :
    splitAt p (a ++ b :: rest) = some (a, rest) := by
  induction a with
  | nil => simp [splitAt, hb]
  | cons x a ih =>
    have hx := ha x (by simp)
    simp only [List.cons_append, splitAt, hx, Bool.false_eq_true, if_false, ih (fun y hy => ha y (by simp [hy]))]
    rfl

theorem splitAt_none (p : Nat → Bool) (a : Bytes) (ha : ∀ x ∈ a, p x = false) : splitAt p a = none := by
  induction a with
  | nil => rfl
  | cons x a ih =>
    simp [splitAt, ha x (by simp), ih (fun y hy => ha y (by simp [hy]))]

theorem optionName_plain {x : Nat} (h : isOptionNameByte x = true) : x ≠ 61 ∧ x ≠ 58 ∧ x ≠ 10 := by
  unfold isOptionNameByte isAlnumAscii at h
  simp only [Bool.or_eq_true, Bool.and_eq_true, decide_eq_true_eq] at h
  omega

/-- `name=` is read back as `(name, 1)` -/
theorem C11_param_name_roundtrip (nm rest : Bytes) (hn : ∀ x ∈ nm, isOptionNameByte x = true) :
    readParameter (nm ++ 61 :: rest) = .ok (nm, 1, rest) := by
  unfold readParameter
  rw [splitAt_eq (· = 61) nm 61 rest (fun x hx => by simpa using (optionName_plain (hn x hx)).1) (by simp)]
  simp only
  rw [splitAt_none (· = 58) nm (fun x hx => by simpa using (optionName_plain (hn x hx)).2.1)]
  simp only
  rw [if_pos (List.all_eq_true.mpr hn)]

/-- `name:k=` is read back as `(name, k)` for every count `1 ≤ k < 2^64` (what `write_param_slice` writes) -/
theorem C11_param_count_roundtrip (nm rest : Bytes) (k : Nat) (hn : ∀ x ∈ nm, isOptionNameByte x = true)
    (hk : k ≠ 0) (hk' : k ≤ 2 ^ 64 - 1) :
    readParameter (nm ++ 58 :: digits k ++ 61 :: rest) = .ok (nm, k, rest) := by
  obtain ⟨_, hd, _⟩ := digits_spec k
  have hsplit : splitAt (· = 61) (nm ++ 58 :: digits k ++ 61 :: rest) = some (nm ++ 58 :: digits k, rest) := by
    have : nm ++ 58 :: digits k ++ 61 :: rest = (nm ++ 58 :: digits k) ++ 61 :: rest := by simp
    rw [this]
    apply splitAt_eq
    · intro x hx
      simp only [List.mem_append, List.mem_cons] at hx
      rcases hx with h | rfl | h
      · simpa using (optionName_plain (hn x h)).1
      · decide
      · have := hd x h; simp; omega
    · simp
  unfold readParameter
  rw [hsplit]
  simp only
  rw [splitAt_eq (· = 58) nm 58 (digits k) (fun x hx => by simpa using (optionName_plain (hn x hx)).2.1) (by simp)]
  simp only
  rw [utf8Valid_ascii _ (fun b hb => by have := hd b hb; omega), parseUnsigned_digits _ _ hk']
  simp only [Bool.not_true, Bool.false_eq_true, if_false]
  cases k with
  | zero => exact absurd rfl hk
  | succ k' =>
    rw [if_pos (List.all_eq_true.mpr hn)]

/-! ## the schema the code defines today -/

def bytesPlain (l : Bytes) : Bool := !l.isEmpty && l.all (fun b => b ≠ 0 && !isSpace b && b ≠ 10 && b < 128)

/-- well-formedness of a schema: what the theorems about whole messages need from the table -/
def SchemaOK (S : Schema) : Bool :=
  -- message names: plain tokens, pairwise distinct (so `from_name` inverts `name`)
  S.all (fun sp => bytesPlain sp.wire) && (S.map (·.wire)).Nodup &&
  -- parameter names: option-name bytes, non-empty, pairwise distinct within a message
  S.all (fun sp => sp.fields.all (fun f => !f.name.isEmpty && f.name.all isOptionNameByte) && (sp.fields.map (·.name)).Nodup) &&
  -- the enum / number constraints name existing fields
  S.all (fun sp => sp.enums.all (fun e => e.1 < sp.fields.length) && sp.nums.all (fun e => e.1 < sp.fields.length))

/-- **table obligation**, re-decided on every run for the schema regenerated from `message.rs` -/
theorem schema_ok : SchemaOK schema = true := by decide +kernel

theorem schema_has_45_kinds : schema.length = 45 := by decide +kernel

/-! ## one line -/

theorem encSlice_no_lf (vs : List Scalar) (e : Bytes) (he : encSlice vs = .ok e) : ∀ b ∈ e, b ≠ 10 := by
  induction vs generalizing e with
  | nil => simp only [encSlice] at he; cases he; simp
  | cons v vs ih =>
    cases vs with
    | nil => simp only [encSlice] at he; exact encScalar_no_lf v e he
    | cons w ws =>
      simp only [encSlice] at he
      split at he
      · next a b' ha hb =>
        cases he
        intro x hx
        simp only [List.mem_append, List.mem_cons, List.not_mem_nil, or_false] at hx
        rcases hx with (h | h) | h
        · exact encScalar_no_lf v a ha x h
        · subst h; decide
        · exact ih b' hb x h
      · cases he
      · cases he

theorem encField_no_lf (f : Field) (v : FVal) (e : Bytes) (hn : ∀ x ∈ f.name, isOptionNameByte x = true)
    (he : encField f v = .ok e) : ∀ b ∈ e, b ≠ 10 := by
  have hname : ∀ x ∈ f.name, x ≠ 10 := fun x hx => (optionName_plain (hn x hx)).2.2
  have hscalar : ∀ (x : Scalar) (e : Bytes), (match encScalar x with
      | .ok a => Except.ok ([32] ++ f.name ++ [61] ++ a) | .error er => Except.error er) = Except.ok e → ∀ b ∈ e, b ≠ 10 := by
    intro x e he
    split at he
    · next a ha =>
      cases he
      intro b hb
      simp only [List.mem_append, List.mem_cons, List.not_mem_nil, or_false] at hb
      rcases hb with ((h | h) | h) | h
      · subst h; decide
      · exact hname b h
      · subst h; decide
      · exact encScalar_no_lf x a ha b h
    · cases he
  unfold encField at he
  split at he
  · exact hscalar _ _ he
  · cases he; simp
  · exact hscalar _ _ he
  · cases he; simp
  · next vs _ =>
    split at he
    · next a ha =>
      cases he
      intro b hb
      simp only [List.mem_append, List.mem_cons, List.not_mem_nil, or_false] at hb
      rcases hb with ((((h | h) | h) | h) | h) | h
      · subst h; decide
      · exact hname b h
      · subst h; decide
      · have := (digits_spec vs.length).2.1 b h; omega
      · subst h; decide
      · exact encSlice_no_lf vs a ha b h
    · cases he

theorem encFields_no_lf (fvs : List (Field × FVal)) (e : Bytes)
    (hn : ∀ p ∈ fvs, ∀ x ∈ p.1.name, isOptionNameByte x = true) (he : encFields fvs = .ok e) : ∀ b ∈ e, b ≠ 10 := by
  induction fvs generalizing e with
  | nil => simp only [encFields] at he; cases he; simp
  | cons p rest ih =>
    obtain ⟨f, v⟩ := p
    simp only [encFields] at he
    split at he
    · next a b' ha hb =>
      cases he
      intro x hx
      rcases List.mem_append.mp hx with h | h
      · exact encField_no_lf f v a (hn (f, v) (by simp)) ha x h
      · exact ih b' (fun p hp => hn p (by simp [hp])) hb x h
    · cases he
    · cases he

theorem mem_insertByName {x y : Field × FVal} {l : List (Field × FVal)} (h : y ∈ insertByName x l) : y = x ∨ y ∈ l := by
  induction l with
  | nil => simp [insertByName] at h; exact Or.inl h
  | cons z zs ih =>
    simp only [insertByName] at h
    split at h
    · simp only [List.mem_cons] at h ⊢; exact h
    · simp only [List.mem_cons] at h ⊢
      rcases h with h | h
      · exact Or.inr (Or.inl h)
      · rcases ih h with h' | h'
        · exact Or.inl h'
        · exact Or.inr (Or.inr h')

theorem mem_canonical {y : Field × FVal} {l : List (Field × FVal)} (h : y ∈ canonical l) : y ∈ l := by
  unfold canonical at h
  rcases List.mem_append.mp h with h | h
  · exact (List.mem_filter.mp (List.mem_of_mem_take h)).1
  · have : ∀ (l' : List (Field × FVal)), y ∈ l'.foldr insertByName [] → y ∈ l' := by
      intro l'
      induction l' with
      | nil => simp
      | cons z zs ih =>
        intro hy
        simp only [List.foldr_cons] at hy
        rcases mem_insertByName hy with h' | h'
        · simp [h']
        · simp [ih h']
    exact (List.mem_filter.mp (this _ h)).1

/-- **C11 (one line).** Whatever `serialize` accepts is written as exactly one line: the output ends in LF and
    contains no other LF — for every message of every kind of a well-formed schema. -/
theorem C11_encode_one_line (S : Schema) (hS : SchemaOK S = true) (cap : Nat) (m : Msg) (l : Bytes)
    (h : encode S cap m = .ok l) : ∃ body, l = body ++ [10] ∧ ∀ b ∈ body, b ≠ 10 := by
  unfold encode at h
  split at h
  · cases h
  · next spec hspec =>
    split at h
    · cases h
    · split at h
      · cases h
      · next ps hps =>
        simp only at h
        split at h
        · cases h
          have hmem : spec ∈ S := List.mem_of_getElem? hspec
          unfold SchemaOK at hS
          simp only [Bool.and_eq_true, List.all_eq_true] at hS
          obtain ⟨⟨⟨hwire, _⟩, hfields⟩, _⟩ := hS
          have hw := hwire spec hmem
          unfold bytesPlain at hw
          simp only [Bool.and_eq_true, List.all_eq_true, Bool.not_eq_eq_eq_not, Bool.not_true, decide_eq_true_eq, ne_eq,
            decide_not] at hw
          have hf := (hfields spec hmem)
          refine ⟨spec.wire ++ ps, by simp, ?_⟩
          intro b hb
          rcases List.mem_append.mp hb with hb | hb
          · have := (hw.2 b hb).1.2
            simpa using this
          · refine encFields_no_lf _ ps ?_ hps b hb
            intro p hp x hx
            have hp' := mem_canonical hp
            have hfm : p.1 ∈ spec.fields := (List.of_mem_zip hp').1
            exact (hf.1 p.1 hfm).2 x hx
        · cases h

/-! ## whole messages -/

/-- the values of a message have the types its kind declares -/
def FValWT (f : Field) : FVal → Prop
  | .reg x => f.kind = .regular ∧ ScalarWT f.ty x
  | .opt none => f.kind = .optional
  | .opt (some x) => f.kind = .optional ∧ ScalarWT f.ty x
  | .vec vs => f.kind = .vec ∧ ∀ x ∈ vs, ScalarWT f.ty x

def MsgWT (S : Schema) (m : Msg) : Prop :=
  ∃ spec, S[m.kind]? = some spec ∧ m.vals.length = spec.fields.length ∧
    ∀ p ∈ spec.fields.zip m.vals, FValWT p.1 p.2

/-- **C11 (round trip), full statement**: every well-typed message that encodes, encodes to a line whose body decodes
    to the same message.  Proved so far at the level of values, parameter names and counts (above) and validated at
    the level of whole messages by the correspondence suite and an implementation-side round-trip oracle on every
    accepted message; the composition over the parameter loop and the field assignment is the part still open. -/
def C11_roundtrip_full (S : Schema) : Prop :=
  ∀ (cap : Nat) (m : Msg) (body : Bytes), MsgWT S m → encode S cap m = .ok (body ++ [10]) → decode S body = .ok m

/-! ## non-vacuity -/

-- `ERROR id=7 reason=TIMEOUT detail=\"a b\\\"` : an escaped value ending in a backslash, decoded back
example :
    (do let l ← (encode schema 4096 { kind := 8, vals := [.opt (some (.num 7)), .reg (.str [84, 73, 77, 69, 79, 85, 84]),
            .opt (some (.str [97, 32, 98, 92]))] }).toOption
        pure (l, (decode schema (l.take (l.length - 1))).toOption)) =
      some ([69, 82, 82, 79, 82, 32, 105, 100, 61, 55, 32, 100, 101, 116, 97, 105, 108, 61, 92, 34, 97, 32, 98, 92, 92, 34, 32,
              114, 101, 97, 115, 111, 110, 61, 84, 73, 77, 69, 79, 85, 84, 10],
            some { kind := 8, vals := [.opt (some (.num 7)), .reg (.str [84, 73, 77, 69, 79, 85, 84]), .opt (some (.str [97, 32, 98, 92]))] }) := by
  decide +kernel

#print axioms C11_decode_never_panics
#print axioms C11_value_roundtrip
#print axioms C11_encStr_refuses
#print axioms C11_param_name_roundtrip
#print axioms C11_param_count_roundtrip
#print axioms C11_encode_one_line
#print axioms schema_ok

end Narwhal.Codec
