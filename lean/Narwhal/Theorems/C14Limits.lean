import Narwhal.Model.Limits
/-!
# C14 — connection admission and the in-flight gate
-/
namespace Narwhal.Limits

/-- counting identity and the admission bound, for every interleaving of the counter's atomic operations -/
def AInv (s : ASt) : Prop :=
  s.cur = s.admitted + s.pendOk + s.pendBad + s.refusing ∧ s.admitted + s.pendOk ≤ s.max

theorem ainv_init (max : Nat) : AInv (ainit max) := by simp [AInv, ainit]

theorem ainv_step (s : ASt) (e : AStep) (h : AInv s) : AInv (astep s e) := by
  obtain ⟨h1, h2⟩ := h
  cases e <;> simp only [astep] <;> split <;> simp_all [AInv] <;> omega

theorem ainv_run (s : ASt) (l : List AStep) (h : AInv s) : AInv (arun s l) := by
  induction l generalizing s with
  | nil => exact h
  | cons e es ih => exact ih _ (ainv_step s e h)

theorem arun_max (s : ASt) (l : List AStep) : (arun s l).max = s.max := by
  induction l generalizing s with
  | nil => rfl
  | cons e es ih =>
    simp only [arun, List.foldl_cons] at ih ⊢
    rw [ih]
    cases e <;> simp only [astep] <;> split <;> rfl

/-- **C14 (max_connections)**: whatever the interleaving of arrivals, comparisons, refusals and endings on any number of
    threads, never more than `max_connections` connections run at once — including `max = 0`. -/
theorem C14_conn_admission (max : Nat) (l : List AStep) : (arun (ainit max) l).admitted ≤ max := by
  have h := ainv_run _ l (ainv_init max)
  have hm : (arun (ainit max) l).max = max := arun_max (ainit max) l
  obtain ⟨_, h2⟩ := h
  rw [hm] at h2
  omega

/-- **C14 (no drift)**: the counter is exactly the number of connections that have incremented and not yet
    decremented it; with nobody left it is zero again, so the effective limit stays the configured one. -/
theorem C14_conn_counter_exact (max : Nat) (l : List AStep) :
    let s := arun (ainit max) l
    s.cur = s.admitted + s.pendOk + s.pendBad + s.refusing ∧
    (s.admitted = 0 → s.pendOk = 0 → s.pendBad = 0 → s.refusing = 0 → s.cur = 0) := by
  intro s
  have h := (ainv_run _ l (ainv_init max)).1
  exact ⟨h, by intro a b c d; rw [h, a, b, c, d]⟩

/-- a connection arriving while fewer than `max` are counted is admitted (not refused below the limit) -/
theorem C14_conn_admitted_below_limit (s : ASt) (h : s.cur < s.max) :
    (astep s .arrive).pendOk = s.pendOk + 1 ∧ (astep s .arrive).pendBad = s.pendBad := by
  simp [astep, h]

/-! ## the sequential view (what the `limits` suite compares) -/

def SInv (s : St) : Prop :=
  s.conns.length ≤ s.maxConn ∧ (∀ c ∈ s.conns, c.executing ≤ s.inflight) ∧ (s.conns.map (·.id)).Nodup

theorem ids_unique (l : List Conn) (h : (l.map (·.id)).Nodup) (a b : Conn) (ha : a ∈ l) (hb : b ∈ l) (hid : a.id = b.id) :
    a = b := by
  induction l with
  | nil => cases ha
  | cons x xs ih =>
    simp only [List.map_cons, List.nodup_cons, List.mem_map, not_exists, not_and] at h
    simp only [List.mem_cons] at ha hb
    rcases ha with ha | ha <;> rcases hb with hb | hb
    · rw [ha, hb]
    · subst ha; exact absurd hid.symm (h.1 b hb)
    · subst hb; exact absurd hid (h.1 a ha)
    · exact ih h.2 ha hb

theorem C14_open_bound (s : St) (k : Nat) (h : SInv s) : SInv (openConn s k).1 := by
  obtain ⟨h1, h2, h3⟩ := h
  unfold openConn
  split
  · exact ⟨h1, h2, h3⟩
  · next hn =>
    simp only [not_or, Nat.not_le, ge_iff_le] at hn
    refine ⟨by simp; omega, ?_, ?_⟩
    · intro c hc
      simp only [List.mem_append, List.mem_singleton] at hc
      rcases hc with hc | hc
      · exact h2 c hc
      · subst hc; simp
    · simp only [List.map_append, List.map_cons, List.map_nil]
      rw [List.nodup_append]
      refine ⟨h3, by simp, ?_⟩
      intro a ha b hb
      simp only [List.mem_singleton] at hb
      subst hb
      intro hab
      subst hab
      exact hn.2 ha

/-- a connection is refused exactly when the limit is reached (never below it) -/
theorem C14_open_refused_iff (s : St) (k : Nat) (hk : k ∉ s.conns.map (·.id)) :
    (openConn s k).2 = false ↔ s.conns.length ≥ s.maxConn := by
  unfold openConn
  split
  · next h =>
    rcases h with h | h
    · simp [h]
    · exact absurd h hk
  · next h =>
    simp only [not_or, Nat.not_le, ge_iff_le] at h
    simp
    omega

theorem C14_close_bound (s : St) (k : Nat) (h : SInv s) : SInv (closeConn s k) := by
  obtain ⟨h1, h2, h3⟩ := h
  refine ⟨Nat.le_trans (List.length_filter_le _ _) h1, ?_, ?_⟩
  · intro c hc
    exact h2 c (List.mem_filter.mp hc).1
  · exact List.Nodup.sublist (List.Sublist.map _ List.filter_sublist) h3

/-- closing frees the slot: the connection is gone, so a new one is admitted again -/
theorem C14_close_frees (s : St) (k : Nat) (c : Conn) (hc : c ∈ s.conns) (hk : c.id = k) :
    (closeConn s k).conns.length < s.conns.length := by
  unfold closeConn
  simp only
  apply List.length_filter_lt_length_iff_exists.mpr
  exact ⟨c, hc, by simp [hk]⟩

theorem map_ids_update (l : List Conn) (f : Conn → Conn) (hf : ∀ c, (f c).id = c.id) : (l.map f).map (·.id) = l.map (·.id) := by
  induction l with
  | nil => rfl
  | cons x xs ih => simp [hf, ih]

/-- **C14 (max_inflight_requests)**: after any burst of pipelined requests no connection has more than
    `max_inflight_requests` handlers executing; a burst that would exceed the limit closes its connection instead. -/
theorem C14_inflight_bound (s : St) (k n : Nat) (h : SInv s) : SInv (burst s k n).1 := by
  obtain ⟨h1, h2, h3⟩ := h
  unfold burst
  split
  · exact ⟨h1, h2, h3⟩
  · next c hf =>
    have hcm : c ∈ s.conns := List.mem_of_find?_eq_some hf
    have hck : c.id = k := by simpa using List.find?_some hf
    split
    · next hle =>
      refine ⟨by simpa using h1, ?_, ?_⟩
      · intro c' hc'
        simp only [List.mem_map] at hc'
        obtain ⟨c0, hc0, rfl⟩ := hc'
        split
        · next hid =>
          have : c0 = c := ids_unique s.conns h3 c0 c hc0 hcm (by rw [hid, hck])
          subst this
          simpa using hle
        · exact h2 c0 hc0
      · rw [map_ids_update]
        · exact h3
        · intro c0; split <;> rfl
    · exact C14_close_bound s k ⟨h1, h2, h3⟩

/-- **a request that ends in a recoverable refusal costs nothing**: any number of them leaves every counter where it was, and
    the connection open — so a later burst within the limit is still admitted -/
theorem C14_failed_requests_free_their_slots (s : St) (k n : Nat) :
    (failing s k n).1 = s ∧ (failing s k n).2.2 = false := by
  unfold failing
  split <;> simp

/-- **C14 (slots are released)**: when the modulator answers, every handler finishes: nothing stays counted. -/
theorem C14_release_frees (s : St) (h : SInv s) : SInv (release s).1 ∧ ∀ c ∈ (release s).1.conns, c.executing = 0 := by
  obtain ⟨h1, h2, h3⟩ := h
  refine ⟨⟨by simpa [release] using h1, ?_, ?_⟩, ?_⟩
  · intro c hc
    simp only [release, List.mem_map] at hc
    obtain ⟨c0, _, rfl⟩ := hc
    simp
  · simp only [release]
    rw [map_ids_update]
    · exact h3
    · intro c0; rfl
  · intro c hc
    simp only [release, List.mem_map] at hc
    obtain ⟨c0, _, rfl⟩ := hc
    rfl

-- non-vacuity: a window of 2, three pipelined requests close the connection, two are admitted
example : (burst { maxConn := 2, inflight := 2, conns := [⟨1, true, 0⟩] } 1 3).2 = (0, true) := by decide
example : (burst { maxConn := 2, inflight := 2, conns := [⟨1, true, 0⟩] } 1 2).2 = (2, false) := by decide
example : SInv { maxConn := 2, inflight := 2, conns := [⟨1, true, 1⟩, ⟨4, false, 0⟩] } := by simp [SInv]
example : (arun (ainit 1) [.arrive, .arrive, .decideOk, .decideBad, .refuse, .finish, .arrive, .decideOk]).admitted = 1 := by decide

end Narwhal.Limits

#print axioms Narwhal.Limits.C14_conn_admission
#print axioms Narwhal.Limits.C14_conn_counter_exact
#print axioms Narwhal.Limits.C14_conn_admitted_below_limit
#print axioms Narwhal.Limits.C14_open_bound
#print axioms Narwhal.Limits.C14_open_refused_iff
#print axioms Narwhal.Limits.C14_close_bound
#print axioms Narwhal.Limits.C14_close_frees
#print axioms Narwhal.Limits.C14_inflight_bound
#print axioms Narwhal.Limits.C14_release_frees
#print axioms Narwhal.Limits.C14_failed_requests_free_their_slots
