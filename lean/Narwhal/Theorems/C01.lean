import Narwhal.Lemmas.Checks
import Narwhal.Lemmas.Invariants
/-!
# C01 — broadcast confinement; C02 — completeness; C08 — modulator payload gate

All three are statements about what `doBroadcast` queues.  `deliveries` is the *only* source of MESSAGE
frames in the model (`message_only_from_broadcast`), so confinement over whole histories follows from
the per-step statements plus the cache invariant of `Invariants.lean` (`targets` = read-permitted members).
-/
namespace Narwhal.Server
open Narwhal.Acl (isAllowed)

/-- `k` is sent a closing ERROR that carries request id `id` -/
def closedWithErrorId (k id : Nat) (out : List Emit) : Prop :=
  ∃ e ∈ out, e.conn = k ∧ e.close = true ∧ ∃ r, e.frame = .error (some id) r

/-- MESSAGE frames of one BROADCAST step: who gets what -/
theorem broadcast_messages (s : Srv) (k : Nat) (u : Str) (id : Nat) (raw : Str) (q : Option Nat) (p : Payload)
    (env : Env) (e : Emit) (he : e ∈ (doBroadcast s k u id raw q p env).2) (hm : e.frame.isMessage = true) :
    ∃ c p', broadcastCheck s u id raw q p env = .ok (c, p') ∧ e ∈ deliveries s k u raw c p' := by
  unfold doBroadcast at he
  split at he
  · next i r hc =>
    exfalso
    unfold fail at he
    split at he
    · simp only [List.mem_singleton] at he; subst he; simp [errFrame, Frame.isMessage] at hm
    · simp only [List.mem_cons] at he
      rcases he with rfl | he
      · simp [errFrame, Frame.isMessage] at hm
      · have := (dropConn_plain s k env e he).1
        cases hf : e.frame <;> simp [hf, Frame.isEvent, Frame.isMessage] at this hm
  · next c p' hc =>
    refine ⟨c, p', hc, ?_⟩
    split at he
    · simp only [List.mem_cons] at he
      rcases he with rfl | he
      · simp [Frame.isMessage] at hm
      · exact he
    · simp only [List.mem_append, List.mem_singleton] at he
      rcases he with he | rfl
      · exact he
      · simp [Frame.isMessage] at hm

/-- **C01 (one step).** Every MESSAGE a BROADCAST produces: goes to a connection other than the sender's,
    of a user in the channel's reader list; carries the sender's own NID, the channel named in the request
    and the accepted payload; and the publisher is a member permitted by the publish list. -/
theorem C01_confinement_step (s : Srv) (k : Nat) (u : Str) (id : Nat) (raw : Str) (q : Option Nat) (p : Payload)
    (env : Env) (e : Emit) (he : e ∈ (doBroadcast s k u id raw q p env).2) (hm : e.frame.isMessage = true) :
    ∃ h c p' t, Id.parseChannelId raw = some (h, s.cfg.domain) ∧ findChan s.chans h = some c ∧
      u ∈ c.members ∧ isAllowed c.publishAcl u s.cfg.domain = true ∧
      t ∈ c.targets ∧ e.conn ∈ connsOf s t ∧ e.conn ≠ k ∧
      e.frame = .message (fullNid s u) raw p' ∧ payloadGate s p env = .ok p' := by
  obtain ⟨c, p', hc, hd⟩ := broadcast_messages s k u id raw q p env e he hm
  obtain ⟨⟨h, hp, hf⟩, hmem, hpub, hg, _⟩ := broadcastCheck_ok hc
  unfold deliveries at hd
  obtain ⟨hfr, _, hne, t, ht, hconn⟩ := routeTo_mem hd
  exact ⟨h, c, p', t, hp, hf, hmem, hpub, ht, hconn, fun hk => hne (by rw [hk]), hfr, hg⟩

/-- with the cache invariant: the receiving user is a current member permitted by the read list -/
theorem C01_confinement_members (s : Srv) (hinv : ChansOK s) (k : Nat) (u : Str) (id : Nat) (raw : Str)
    (q : Option Nat) (p : Payload) (env : Env) (e : Emit) (he : e ∈ (doBroadcast s k u id raw q p env).2)
    (hm : e.frame.isMessage = true) :
    ∃ h c t, Id.parseChannelId raw = some (h, s.cfg.domain) ∧ findChan s.chans h = some c ∧
      t ∈ c.members ∧ isAllowed c.readAcl t s.cfg.domain = true ∧ e.conn ∈ connsOf s t ∧
      u ∈ c.members ∧ isAllowed c.publishAcl u s.cfg.domain = true := by
  obtain ⟨h, c, p', t, hp, hf, hmem, hpub, ht, hconn, _, _, _⟩ := C01_confinement_step s k u id raw q p env e he hm
  have hc := (hinv h c hf).2.1
  rw [hc] at ht
  simp only [List.mem_filter] at ht
  exact ⟨h, c, t, hp, hf, ht.1, ht.2, hconn, hmem, hpub⟩

/-- **C01 over every history**: in any state reachable from `init` by any history (any modulator outcomes,
    any owner picks), a BROADCAST's MESSAGEs go only to connections of *current members permitted by the
    read list*, from a publisher who is a *current member permitted by the publish list*. -/
theorem C01_confinement (cfg : Cfg) (hist : List (Op × Env)) (k : Nat) (u : Str) (id : Nat) (raw : Str)
    (q : Option Nat) (p : Payload) (env : Env) (e : Emit)
    (he : e ∈ (doBroadcast (run (init cfg) hist).1 k u id raw q p env).2) (hm : e.frame.isMessage = true) :
    ∃ h c t, Id.parseChannelId raw = some (h, (run (init cfg) hist).1.cfg.domain) ∧
      findChan (run (init cfg) hist).1.chans h = some c ∧
      t ∈ c.members ∧ isAllowed c.readAcl t (run (init cfg) hist).1.cfg.domain = true ∧
      e.conn ∈ connsOf (run (init cfg) hist).1 t ∧
      u ∈ c.members ∧ isAllowed c.publishAcl u (run (init cfg) hist).1.cfg.domain = true :=
  C01_confinement_members _ (reachable_ChansOK cfg hist) k u id raw q p env e he hm

/-- no other request kind produces a MESSAGE -/
theorem message_only_from_broadcast (s : Srv) (k : Nat) (u : Str) (r : Req) (env : Env) (e : Emit)
    (he : e ∈ (authedStep s k u r env).2) (hm : e.frame.isMessage = true) :
    ∃ id raw q p, r = .broadcast id raw q p := by
  have hfail : ∀ i r', e ∈ (fail s k i r' env).2 → False := by
    intro i r' h
    unfold fail at h
    split at h
    · simp only [List.mem_singleton] at h; subst h; simp [errFrame, Frame.isMessage] at hm
    · simp only [List.mem_cons] at h
      rcases h with rfl | h
      · simp [errFrame, Frame.isMessage] at hm
      · have := (dropConn_plain s k env e h).1
        cases hf : e.frame <;> simp [hf, Frame.isEvent, Frame.isMessage] at this hm
  have hplain : ∀ l : List Emit, (∀ x ∈ l, x.plainEvent) → e ∈ l → False := by
    intro l hl h
    have := (hl e h).1
    cases hf : e.frame <;> simp [hf, Frame.isEvent, Frame.isMessage] at this hm
  have hsingle : ∀ f : Frame, f.isMessage = false → e ∈ [({ conn := k, frame := f } : Emit)] → False := by
    intro f hf h; simp only [List.mem_singleton] at h; subst h; simp [hf] at hm
  cases r with
  | broadcast id raw q p => exact ⟨id, raw, q, p, rfl⟩
  | join id c ob =>
    exfalso; simp only [authedStep] at he; unfold doJoin at he
    split at he
    · exact hfail _ _ he
    · split at he
      · exact hfail _ _ he
      · simp only [List.mem_append] at he
        rcases he with he | he
        · exact hplain _ (by unfold joinedEvents; exact routeTo_event_plain) he
        · exact hsingle _ rfl he
  | leave id c ob =>
    exfalso; simp only [authedStep] at he; unfold doLeave at he
    split at he
    · exact hfail _ _ he
    · split at he
      · exact hfail _ _ he
      · unfold leaveTail at he
        split at he
        · simp only [List.mem_append] at he
          rcases he with (he | he) | he
          · exact hplain _ leftEvents_plain he
          · exact hsingle _ rfl he
          · exact hplain _ (removeMember_plain _ _ _ _) he
        · simp only [List.mem_append] at he
          rcases he with ((he | he) | he) | he
          · exact hplain _ leftEvents_plain he
          · exact hsingle _ rfl he
          · exact hplain _ (removeMember_plain _ _ _ _) he
          · unfold fail at he
            split at he
            · exact hsingle _ rfl he
            · simp only [List.mem_cons] at he
              rcases he with rfl | he
              · simp [errFrame, Frame.isMessage] at hm
              · exact hplain _ (dropConn_plain _ _ _) he
  | members id c pg sz =>
    exfalso; simp only [authedStep] at he; unfold doMembers at he
    split at he
    · exact hfail _ _ he
    · exact hsingle _ rfl he
  | channels id pg sz o => exfalso; simp only [authedStep, doChannels, reply] at he; exact hsingle _ rfl he
  | getAcl id c t pg sz =>
    exfalso; simp only [authedStep] at he; unfold doGetAcl at he
    split at he
    · exact hfail _ _ he
    · exact hsingle _ rfl he
  | setAcl id c t a ns =>
    exfalso; simp only [authedStep] at he; unfold doSetAcl at he
    split at he
    · exact hfail _ _ he
    · exact hsingle _ rfl he
  | getConfig id c =>
    exfalso; simp only [authedStep] at he; unfold doGetConfig at he
    split at he
    · exact hfail _ _ he
    · exact hsingle _ rfl he
  | setConfig id c mc mp =>
    exfalso; simp only [authedStep] at he; unfold doSetConfig at he
    split at he
    · exact hfail _ _ he
    · exact hsingle _ rfl he
  | modDirect id p =>
    exfalso; simp only [authedStep] at he; unfold doModDirect at he
    split at he
    · exact hfail _ _ he
    · exact hsingle _ rfl he
  | connect v hb => exfalso; simp only [authedStep] at he; exact hfail _ _ he
  | identify n => exfalso; simp only [authedStep] at he; exact hfail _ _ he
  | auth t => exfalso; simp only [authedStep] at he; exact hfail _ _ he
  | other => exfalso; simp only [authedStep] at he; exact hfail _ _ he
  | malformed => exfalso; simp only [authedStep] at he; exact hfail _ _ he

/-! ## C02 — an acknowledged broadcast reaches exactly the reader list, once per connection -/

/-- the BROADCAST_ACK is sent iff the check passed, and then the MESSAGE frames are exactly `deliveries` -/
theorem C02_ack_iff_delivered (s : Srv) (k : Nat) (u : Str) (id : Nat) (raw : Str) (q : Option Nat) (p : Payload)
    (env : Env) :
    (∃ c p', broadcastCheck s u id raw q p env = .ok (c, p') ∧
        (doBroadcast s k u id raw q p env).1 = s ∧
        ((doBroadcast s k u id raw q p env).2 = { conn := k, frame := .broadcastAck id } :: deliveries s k u raw c p' ∨
         (doBroadcast s k u id raw q p env).2 = deliveries s k u raw c p' ++ [{ conn := k, frame := .broadcastAck id }])) ∨
    (∃ e, broadcastCheck s u id raw q p env = .error e ∧ doBroadcast s k u id raw q p env = fail s k e.1 e.2 env) := by
  unfold doBroadcast
  split
  · next i r hc => exact Or.inr ⟨(i, r), hc, rfl⟩
  · next c p' hc =>
    left
    refine ⟨c, p', hc, ?_⟩
    split
    · exact ⟨rfl, Or.inl rfl⟩
    · exact ⟨rfl, Or.inr rfl⟩

theorem sum_eq_zero_of_all_zero (l : List Nat) (h : ∀ n ∈ l, n = 0) : l.sum = 0 := by
  induction l with
  | nil => rfl
  | cons a as ih =>
    simp only [List.sum_cons]
    rw [h a List.mem_cons_self, ih (fun n hn => h n (List.mem_cons_of_mem _ hn))]

/-- how many frames connection `k'` gets from `routeTo` -/
theorem routeTo_count (s : Srv) (us : List Str) (excl : Option Nat) (f : Frame) (k' : Nat) :
    ((routeTo s us excl f).filter (fun e => e.conn = k')).length =
      (us.map (fun t => ((connsOf s t).filter (fun x => some x ≠ excl ∧ x = k')).length)).sum := by
  induction us with
  | nil => simp [routeTo]
  | cons t ts ih =>
    simp only [routeTo, List.flatMap_cons, List.filter_append, List.length_append, List.map_cons, List.sum_cons] at ih ⊢
    rw [ih]
    congr 1
    simp only [List.filter_map, List.length_map, List.filter_filter]
    congr 1
    apply List.filter_congr
    intro x _
    simp [Function.comp, Bool.and_comm]

/-- **C02 exactly once**, under the router well-formedness of `Invariants.lean`: a connection `k' ≠ k`
    registered for exactly one reader `t` (and once) receives exactly one MESSAGE. -/
theorem C02_exactly_once (s : Srv) (k : Nat) (u : Str) (raw : Str) (c : Chan) (p' : Payload) (k' : Nat) (t : Str)
    (hk : k' ≠ k) (ht : t ∈ c.targets) (hnodup : c.targets.Nodup)
    (honce : ((connsOf s t).filter (· = k')).length = 1)
    (hother : ∀ t' ∈ c.targets, t' ≠ t → k' ∉ connsOf s t') :
    ((deliveries s k u raw c p').filter (fun e => e.conn = k')).length = 1 := by
  unfold deliveries
  rw [routeTo_count]
  have hfilt : ∀ t', ((connsOf s t').filter (fun x => some x ≠ some k ∧ x = k')).length =
      ((connsOf s t').filter (· = k')).length := by
    intro t'
    congr 1
    apply List.filter_congr
    intro x _
    by_cases hx : x = k'
    · subst hx; simp [hk]
    · simp [hx]
  simp only [hfilt]
  clear hfilt
  generalize c.targets = ts at ht hnodup hother
  induction ts with
  | nil => cases ht
  | cons a as ih =>
    simp only [List.nodup_cons] at hnodup
    simp only [List.map_cons, List.sum_cons]
    by_cases hat : a = t
    · subst hat
      rw [honce]
      have : (as.map (fun t' => ((connsOf s t').filter (· = k')).length)).sum = 0 := by
        apply sum_eq_zero_of_all_zero
        intro n hn
        simp only [List.mem_map] at hn
        obtain ⟨t', ht', rfl⟩ := hn
        have hne : t' ≠ a := fun h => hnodup.1 (h ▸ ht')
        have := hother t' (List.mem_cons_of_mem _ ht') hne
        rw [List.length_eq_zero_iff, List.filter_eq_nil_iff]
        intro x hx hxe
        simp only [decide_eq_true_eq] at hxe
        exact this (hxe ▸ hx)
      omega
    · have hmem : t ∈ as := by
        simp only [List.mem_cons] at ht
        rcases ht with h | h
        · exact absurd h.symm hat
        · exact h
      have h0 : ((connsOf s a).filter (· = k')).length = 0 := by
        have := hother a List.mem_cons_self hat
        rw [List.length_eq_zero_iff, List.filter_eq_nil_iff]
        intro x hx hxe
        simp only [decide_eq_true_eq] at hxe
        exact this (hxe ▸ hx)
      rw [h0, Nat.zero_add]
      exact ih hmem hnodup.2 (fun t' ht' hne => hother t' (List.mem_cons_of_mem _ ht') hne)

/-! ## C08 — the modulator gate is fail-closed, alterations are delivered faithfully -/

/-- **C08.** With a modulator: any MESSAGE of a BROADCAST step carries exactly the payload the modulator
    declared valid *for this request* (the altered one if it altered), and a rejected / failed validation
    or a lost modulator link produces no MESSAGE at all, only the ERROR with the broadcast's id (which closes the publisher). -/
theorem C08_gate (s : Srv) (hmod : s.cfg.hasMod = true) (k : Nat) (u : Str) (id : Nat) (raw : Str) (q : Option Nat)
    (p : Payload) (env : Env) :
    (∀ e ∈ (doBroadcast s k u id raw q p env).2, e.frame.isMessage = true →
        (env.verdict = .valid ∧ ∃ f c, e.frame = .message f c p) ∨
        (∃ p', env.verdict = .altered p' ∧ ∃ f c, e.frame = .message f c p')) ∧
    ((env.verdict = .invalid ∨ env.verdict = .failed ∨ env.down = true ∨ env.verdict = .altered []) →
        (∀ e ∈ (doBroadcast s k u id raw q p env).2, e.frame.isMessage = false) ∧
        (closedWithErrorId k id (doBroadcast s k u id raw q p env).2 ∨ p.isEmpty = true ∨ q.any (· > 1) = true ∨ id = 0
          ∨ p.length > s.cfg.maxPayload ∨ Id.parseChannelId raw = none)) := by
  constructor
  · intro e he hm
    obtain ⟨h, c, p', t, _, _, _, _, _, _, _, hfr, hg⟩ := C01_confinement_step s k u id raw q p env e he hm
    rcases payloadGate_ok hg with ⟨hno, _⟩ | ⟨_, _, ⟨hv, hpp⟩ | hv⟩
    · rw [hmod] at hno; cases hno
    · subst hpp; exact Or.inl ⟨hv, _, _, hfr⟩
    · exact Or.inr ⟨p', hv, _, _, hfr⟩
  · intro hbad
    have hgate : ∀ p', payloadGate s p env ≠ .ok p' := by
      intro p' h
      have hraw := h
      rcases payloadGate_ok h with ⟨hno, _⟩ | ⟨_, hup, ⟨hv, _⟩ | hv⟩
      · rw [hmod] at hno; cases hno
      · rcases hbad with h' | h' | h' | h'
        · rw [hv] at h'; cases h'
        · rw [hv] at h'; cases h'
        · rw [hup] at h'; cases h'
        · rw [hv] at h'; cases h'
      · rcases hbad with h' | h' | h' | h'
        · rw [hv] at h'; cases h'
        · rw [hv] at h'; cases h'
        · rw [hup] at h'; cases h'
        · -- an alteration to nothing: the gate itself refuses it
          rw [hv] at h'
          cases h'
          unfold payloadGate at hraw
          simp [hmod, hup, hv] at hraw
    constructor
    · intro e he
      cases hm : e.frame.isMessage
      · rfl
      · obtain ⟨_, _, _, _, _, _, _, _, _, _, _, _, hg⟩ := C01_confinement_step s k u id raw q p env e he hm
        exact absurd hg (hgate _)
    · unfold doBroadcast broadcastCheck
      by_cases h0 : (q.any (· > 1) || p.isEmpty || id = 0) = true
      · right
        simp only [Bool.or_eq_true, decide_eq_true_eq] at h0
        rcases h0 with (h0 | h0) | h0
        · exact Or.inr (Or.inl h0)
        · exact Or.inl h0
        · exact Or.inr (Or.inr (Or.inl h0))
      · simp only [h0, Bool.false_eq_true, if_false]
        by_cases h1 : p.length > s.cfg.maxPayload
        · exact Or.inr (Or.inr (Or.inr (Or.inr (Or.inl h1))))
        · simp only [h1, if_false]
          cases hp : Id.parseChannelId raw with
          | none => exact Or.inr (Or.inr (Or.inr (Or.inr (Or.inr rfl))))
          | some hd =>
            obtain ⟨h, d⟩ := hd
            left
            simp only
            cases hg : payloadGate s p env with
            | ok p' => exact absurd hg (hgate p')
            | error r =>
              simp only
              have hr : r.recoverable = false := by
                unfold payloadGate at hg
                rw [hmod] at hg
                simp only [if_true] at hg
                split at hg
                · cases hg; rfl
                · split at hg
                  · cases hg
                  · split at hg <;> cases hg <;> rfl
                  · cases hg; rfl
                  · cases hg; rfl
              unfold closedWithErrorId fail
              simp only [hr, Bool.false_eq_true, if_false]
              exact ⟨_, List.mem_cons_self, rfl, rfl, r, rfl⟩

/-- **C08 / C02: every MESSAGE of a BROADCAST carries a non-empty payload** — so it can always be serialised (a MESSAGE's
    `length` must be non-zero): an alteration to nothing is refused at the gate instead of tearing down the subscribers -/
theorem C08_message_payload_nonempty (s : Srv) (k : Nat) (u : Str) (id : Nat) (raw : Str) (q : Option Nat) (p : Payload)
    (env : Env) (e : Emit) (he : e ∈ (doBroadcast s k u id raw q p env).2) (f c : Str) (p' : Payload)
    (hfr : e.frame = .message f c p') : p' ≠ [] := by
  have hm : e.frame.isMessage = true := by rw [hfr]; rfl
  obtain ⟨cc, p'', hc, hd⟩ := broadcast_messages s k u id raw q p env e he hm
  obtain ⟨_, _, _, hg, _, _, hpne⟩ := broadcastCheck_ok hc
  unfold deliveries at hd
  obtain ⟨hfr', _⟩ := routeTo_mem hd
  rw [hfr] at hfr'
  cases hfr'
  exact payloadGate_nonempty hg hpne

end Narwhal.Server

#print axioms Narwhal.Server.C01_confinement_step
#print axioms Narwhal.Server.C01_confinement_members
#print axioms Narwhal.Server.C01_confinement
#print axioms Narwhal.Server.message_only_from_broadcast
#print axioms Narwhal.Server.C02_ack_iff_delivered
#print axioms Narwhal.Server.C02_exactly_once
#print axioms Narwhal.Server.C08_gate
#print axioms Narwhal.Server.C08_message_payload_nonempty
