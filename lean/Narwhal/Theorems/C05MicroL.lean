import Narwhal.Model.MicroL
import Narwhal.Theorems.C05Micro
/-!
# C05 / C01 with connections: no member without a live connection except what a running clean-up still owes;
a name that can be identified again has no memberships
-/
namespace Narwhal.MicroL
open Narwhal.Micro

/-! ## where an index entry can come from -/

theorem lockedJoin_index (s : Micro.St) (t o : Nat) (e : Env) (u : User) (x : Name)
    (h : x ∈ (lockedJoin s t o e).index u) : x ∈ s.index u ∨ (e.accept = true ∧ (s.tasks t).m = u) := by
  unfold lockedJoin at h
  simp only [] at h
  repeat' split at h
  all_goals (simp only [setPc_index, setIndex_index, setObj_index, setMap_index] at h)
  all_goals (first | (left; exact h) | skip)
  all_goals (
    split at h
    · simp only [mem_addIdx] at h
      grind
    · left; exact h)

theorem lockedLeave_index (s : Micro.St) (t o : Nat) : (lockedLeave s t o).index = s.index := by
  unfold lockedLeave
  simp only []
  repeat' split
  all_goals rfl

theorem runTask_index (s : Micro.St) (t : Nat) (e : Env) (u : User) (x : Name)
    (h : x ∈ (runTask s t e).index u) : x ∈ s.index u ∨ (e.accept = true ∧ (s.tasks t).m = u) := by
  unfold runTask at h
  simp only [] at h
  split at h
  · left; exact h
  · split at h
    · split at h
      · split at h
        · exact lockedJoin_index s t _ e u x h
        · left; simpa using h
      · have := lockedJoin_index _ t s.next e u x h
        simpa using this
    · split at h
      · left; simpa using h
      · split at h
        · left; rw [lockedLeave_index] at h; exact h
        · left; simpa using h
  · split at h
    · left; simpa using h
    · split at h
      · exact lockedJoin_index s t _ e u x h
      · left; exact h
  · split at h
    · left; simpa using h
    · split at h
      · left; rw [lockedLeave_index] at h; exact h
      · left; exact h
  · -- jNotify: acknowledged, cancelled or rolled back — entries only disappear
    left
    repeat' split at h
    all_goals (simp only [setPc_index, setObj_index, setIndex_index, setMap_index] at h)
    all_goals (try (split at h))
    all_goals (first | exact h | (simp only [mem_delIdx] at h; (first | exact h.1 | (next hu => rw [hu]; exact h.1))))
  · left
    repeat' split at h
    all_goals (simp only [setPc_index, setObj_index, setIndex_index, setMap_index] at h)
    all_goals (try (split at h))
    all_goals (first | exact h | (simp only [mem_delIdx] at h; (first | exact h.1 | (next hu => rw [hu]; exact h.1))))
  · left; simpa using h

theorem step_index (b : Micro.St) (l : Micro.Label) (u : User) (x : Name) (h : x ∈ (Micro.step b l).index u) :
    (x ∈ b.index u ∧ l ≠ .cleanup u) ∨ (∃ t e, l = .run t e ∧ e.accept = true ∧ (b.tasks t).m = u) := by
  cases l with
  | spawn t k m n =>
    left
    simp only [Micro.step] at h
    split at h <;> exact ⟨h, by simp⟩
  | run t e =>
    rcases runTask_index b t e u x h with h1 | h1
    · left; exact ⟨h1, by simp⟩
    · right; exact ⟨t, e, rfl, h1⟩
  | cleanup u' =>
    left
    simp only [Micro.step, setIndex_index] at h
    split at h
    · simp at h
    · next hne => exact ⟨h, by simp only [ne_eq, Micro.Label.cleanup.injEq]; exact fun hh => hne hh.symm⟩
  | cleanupNext i n t =>
    left
    simp only [Micro.step] at h
    split at h
    · exact ⟨h, by simp⟩
    · split at h <;> exact ⟨h, by simp⟩

/-! ## the invariant -/

structure LInv (s : St) : Prop where
  strict   : s.base.strict = true
  inv      : Micro.Inv s.base
  dead_idx : ∀ u, s.live u = false → s.base.index u = []

theorem linv_init : LInv { base := Micro.init true, live := fun _ => false } :=
  ⟨rfl, inv_init true, fun _ _ => rfl⟩

theorem linv_stepBase (s : St) (h : LInv s) (l : Micro.Label) : LInv (stepBase s l) := by
  obtain ⟨hs, hi, hd⟩ := h
  cases l with
  | cleanup u =>
    refine ⟨by simp only [stepBase]; rw [step_strict]; exact hs, by simp only [stepBase]; exact inv_step _ hs hi _, ?_⟩
    intro i hl
    simp only [stepBase] at hl ⊢
    simp only [Micro.step, setIndex_index]
    split
    · rfl
    · next hne => simp only [hne, if_false] at hl; exact hd i hl
  | run t e =>
    refine ⟨by simp only [stepBase, gate]; rw [step_strict]; exact hs, by simp only [stepBase, gate]; exact inv_step _ hs hi _, ?_⟩
    intro i hl
    simp only [stepBase, gate] at hl ⊢
    apply List.eq_nil_iff_forall_not_mem.mpr
    intro x hx
    rcases step_index _ _ i x hx with ⟨h1, _⟩ | ⟨t', e', hl', hacc, hm⟩
    · rw [hd i hl] at h1; cases h1
    · simp only [Micro.Label.run.injEq] at hl'
      obtain ⟨ht, he⟩ := hl'
      subst ht; subst he
      simp only [Bool.and_eq_true] at hacc
      rw [hm] at hacc
      rw [hl] at hacc
      exact absurd hacc.2 (by simp)
  | spawn t k m n =>
    refine ⟨by simp only [stepBase, gate]; rw [step_strict]; exact hs, by simp only [stepBase, gate]; exact inv_step _ hs hi _, ?_⟩
    intro i hl
    simp only [stepBase, gate] at hl ⊢
    apply List.eq_nil_iff_forall_not_mem.mpr
    intro x hx
    rcases step_index _ _ i x hx with ⟨h1, _⟩ | ⟨t', e', hl', _⟩
    · rw [hd i hl] at h1; cases h1
    · cases hl'
  | cleanupNext j n t =>
    refine ⟨by simp only [stepBase, gate]; rw [step_strict]; exact hs, by simp only [stepBase, gate]; exact inv_step _ hs hi _, ?_⟩
    intro i hl
    simp only [stepBase, gate] at hl ⊢
    apply List.eq_nil_iff_forall_not_mem.mpr
    intro x hx
    rcases step_index _ _ i x hx with ⟨h1, _⟩ | ⟨t', e', hl', _⟩
    · rw [hd i hl] at h1; cases h1
    · cases hl'

theorem linv_reach (s : St) (h : Reach s) : LInv s := by
  induction h with
  | init => exact linv_init
  | base s l _ ih => exact linv_stepBase s ih l
  | connect s u _ hl hc ih =>
    obtain ⟨hs, hi, hd⟩ := ih
    refine ⟨hs, hi, ?_⟩
    intro i hli
    simp only at hli
    split at hli
    · cases hli
    · exact hd i hli

/-! ## the statements -/

/-- **C05 with connections, every reachable state**: whoever is listed as a member of a channel has a live connection, or is
    owed to a clean-up that is still running (the channel is in a clean-up record of that user, or one of the clean-up's LEAVEs for
    that channel has not finished) -/
theorem C05_micro_no_ghost_member (s : St) (h : Reach s) (n : Name) (o : Nat) (u : User)
    (hm : s.base.map n = some o) (hu : u ∈ (s.base.objs o).members) :
    s.live u = true ∨ debt s.base u n o := by
  obtain ⟨_, hi, hd⟩ := linv_reach s h
  rcases hi.mem_idx n o u hm hu with hidx | hdebt
  · left
    cases hl : s.live u with
    | true => rfl
    | false => rw [hd u hl] at hidx; cases hidx
  · right; exact hdebt

/-- at quiescence every listed member has a live connection -/
theorem C05_micro_members_are_live_at_quiescence (s : St) (h : Reach s) (hq : Quiescent s.base) (n : Name) (o : Nat) (u : User)
    (hm : s.base.map n = some o) (hu : u ∈ (s.base.objs o).members) : s.live u = true := by
  rcases C05_micro_no_ghost_member s h n o u hm hu with hl | hdebt
  · exact hl
  · exfalso
    rcases hdebt with ⟨p, hp, _, hn⟩ | ⟨t, _, _, _, hpc⟩
    · rw [hq.2 p hp] at hn; cases hn
    · have := hq.1 t
      rcases hpc with hpc | hpc | hpc <;> rw [this] at hpc <;> cases hpc

/-- **C01, a returning user**: a name that can be identified again — no connection holds it and its clean-up has finished — is a
    member of nothing, so the new session receives nothing until it joins -/
theorem C01_micro_fresh_session_has_no_memberships (s : St) (h : Reach s) (u : User)
    (hl : s.live u = false) (hc : ¬ CleaningUp s.base u) (n : Name) (o : Nat) (hm : s.base.map n = some o) :
    u ∉ (s.base.objs o).members := by
  intro hu
  rcases C05_micro_no_ghost_member s h n o u hm hu with hl' | hdebt
  · rw [hl] at hl'; cases hl'
  · apply hc
    rcases hdebt with ⟨p, hp, hpu, hn⟩ | ⟨t, hk, hmm, _, hpc⟩
    · left; exact ⟨p, hp, hpu, List.ne_nil_of_mem hn⟩
    · right
      refine ⟨t, hk, hmm, ?_⟩
      rcases hpc with hpc | hpc | hpc <;> rw [hpc] <;> simp

open Narwhal.Generated in
/-- **the three places where the code consults or changes liveness are as the model has them** (read from the source on every run) -/
theorem live_table_ok :
    joinChecksLiveUnderLock = true ∧ hasConnectionNeedsLiveEntry = true ∧ requestsEndBeforeCleanup = true ∧
    unregisterOneSection = true := by decide

/-! ## non-vacuity: a user joins, disconnects, is cleaned up, and the name comes back -/

def exRun : St :=
  let s0 : St := { base := Micro.init true, live := fun i => i = 1 }
  [ Micro.Label.spawn 0 .join 1 7, .run 0 {}, .run 0 {}, .cleanup 1, .cleanupNext 0 7 1, .run 1 {}, .run 1 {} ].foldl stepBase s0

example : exRun.base.map 7 = none ∧ exRun.live 1 = false := by decide

#print axioms C05_micro_no_ghost_member
#print axioms C05_micro_members_are_live_at_quiescence
#print axioms C01_micro_fresh_session_has_no_memberships
#print axioms live_table_ok

end Narwhal.MicroL
