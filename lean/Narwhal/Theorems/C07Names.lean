import Narwhal.Model.Names
import Narwhal.Generated.Steps
/-!
# C07 — a username has at most one live holder, under every interleaving

Without modulator authentication, for every sequence of registrations and connection ends (in any order, by any number of
connections): a name is held by at most one connection; an IDENTIFY is acknowledged exactly when nobody holds the name; the
holder keeps the name until *its own* connection ends — nothing another connection does takes it away; and the name is free
again as soon as the holder has ended.
-/
namespace Narwhal.Names

theorem step_le_one (r : Router) (op : Op) (h : ∀ n, (r n).length ≤ 1) : ∀ n, ((step r op) n).length ≤ 1 := by
  intro n
  cases op with
  | identify name k =>
    simp only [step]
    split
    · by_cases hn : n = name <;> simp [hn, h n]
    · exact h n
  | ended name k =>
    simp only [step]
    by_cases hn : n = name
    · simp only [hn, if_true]; exact Nat.le_trans (List.length_filter_le _ _) (h name)
    · simp only [hn, if_false]; exact h n

/-- **C07 (unique while live)**: whatever the interleaving, at most one connection holds a name -/
theorem C07_unique_holder (ops : List Op) (n : Name) : ((run init ops) n).length ≤ 1 := by
  have : ∀ (r : Router), (∀ n, (r n).length ≤ 1) → ∀ n, ((run r ops) n).length ≤ 1 := by
    induction ops with
    | nil => intro r h; exact h
    | cons op ops ih => intro r h; exact ih (step r op) (step_le_one r op h)
  exact this init (fun _ => by simp [init]) n

/-- an IDENTIFY is acknowledged exactly when the name is free, and then the connection holds it -/
theorem C07_identify_iff_free (r : Router) (name : Name) (k : Nat) :
    (accepted r (.identify name k) = true ↔ r name = []) ∧
    (accepted r (.identify name k) = true → (step r (.identify name k)) name = [k]) ∧
    (accepted r (.identify name k) = false → step r (.identify name k) = r) := by
  refine ⟨by simp [accepted, List.isEmpty_iff], ?_, ?_⟩
  · intro h; simp only [accepted] at h; simp [step, h]
  · intro h; simp only [accepted] at h; simp [step, h]

/-- **nothing but its own end takes a name from its holder**: no registration attempt and no other connection's end (or
    clean-up) removes `k` from the name it holds -/
theorem C07_holder_keeps_name (r : Router) (op : Op) (name : Name) (k : Nat) (hk : k ∈ r name)
    (hop : op ≠ .ended name k) : k ∈ (step r op) name := by
  cases op with
  | identify name' k' =>
    simp only [step]
    split
    · next he =>
      by_cases hn : name = name'
      · subst hn; simp [List.isEmpty_iff] at he; rw [he] at hk; cases hk
      · simp only [hn, if_false]; exact hk
    · exact hk
  | ended name' k' =>
    simp only [step]
    by_cases hn : name = name'
    · subst hn
      simp only [if_true, List.mem_filter, ne_eq, decide_not, Bool.not_eq_eq_eq_not, Bool.not_true, decide_eq_false_iff_not]
      refine ⟨hk, fun h0 => ?_⟩
      subst h0; exact hop rfl
    · simp [hn, hk]

/-- **the name is available again once its holder has ended** -/
theorem C07_name_reusable (r : Router) (name : Name) (k k' : Nat) (h : r name = [k]) :
    accepted (step r (.ended name k)) (.identify name k') = true := by
  simp [accepted, step, h]

open Narwhal.Generated in
/-- table obligation (regenerated from c2s/router.rs on every run): each of the two operations is one critical section on the
    connection map, so the atomic steps of the model are the real granularity on any number of worker threads -/
theorem names_table_ok : registerOneSection = true ∧ unregisterOneSection = true := by decide

example : (run init [.identify 7 1, .identify 7 2, .ended 7 1, .identify 7 3]) 7 = [3] := by decide

end Narwhal.Names

#print axioms Narwhal.Names.C07_unique_holder
#print axioms Narwhal.Names.C07_identify_iff_free
#print axioms Narwhal.Names.C07_holder_keeps_name
#print axioms Narwhal.Names.C07_name_reusable
#print axioms Narwhal.Names.names_table_ok
