import Narwhal.Model.Names
import Narwhal.Generated.Steps
/-!
# C07 — a username has at most one live holder, under every interleaving

Without modulator authentication, for every sequence of registrations, connection ends and clean-up completions (in any order,
by any number of connections): a name is held by at most one connection; an IDENTIFY is acknowledged exactly when the name is
neither held nor reserved by a clean-up still in progress (so a new session never meets the memberships of its predecessor —
C01's "even after reconnecting under the same name", repair ad38d09); the holder keeps the name until *its own* connection
ends; and the name is available again once the holder has ended and its clean-up has finished.
-/
namespace Narwhal.Names

theorem step_le_one (r : Router) (op : Op) (h : ∀ n, (holders r n).length ≤ 1) : ∀ n, (holders (step r op) n).length ≤ 1 := by
  intro n
  cases op with
  | identify name k =>
    simp only [step]
    cases hr : r name with
    | none =>
      simp only [holders]
      by_cases hn : n = name
      · simp [hn]
      · simp only [hn, if_false]; exact h n
    | some l => exact h n
  | ended name k =>
    simp only [step]
    cases hr : r name with
    | none => exact h n
    | some l =>
      simp only [holders]
      by_cases hn : n = name
      · simp only [hn, if_true, Option.getD_some]
        have := h name
        simp only [holders, hr, Option.getD_some] at this
        exact Nat.le_trans (List.length_filter_le _ _) this
      · simp only [hn, if_false]; exact h n
  | cleaned name =>
    simp only [step]
    split
    · simp only [holders]
      by_cases hn : n = name
      · simp [hn]
      · simp only [hn, if_false]; exact h n
    · exact h n

/-- **C07 (unique while live)**: whatever the interleaving, at most one connection holds a name -/
theorem C07_unique_holder (ops : List Op) (n : Name) : (holders (run init ops) n).length ≤ 1 := by
  have : ∀ (r : Router), (∀ n, (holders r n).length ≤ 1) → ∀ n, (holders (run r ops) n).length ≤ 1 := by
    induction ops with
    | nil => intro r h; exact h
    | cons op ops ih => intro r h; exact ih (step r op) (step_le_one r op h)
  exact this init (fun _ => by simp [init, holders]) n

/-- an IDENTIFY is acknowledged exactly when the name is neither held nor reserved, and then the connection holds it -/
theorem C07_identify_iff_free (r : Router) (name : Name) (k : Nat) :
    (accepted r (.identify name k) = true ↔ taken r name = false) ∧
    (accepted r (.identify name k) = true → holders (step r (.identify name k)) name = [k]) ∧
    (accepted r (.identify name k) = false → step r (.identify name k) = r) := by
  refine ⟨?_, ?_, ?_⟩
  · cases hr : r name <;> simp [accepted, taken, hr]
  · intro h
    cases hr : r name with
    | none => simp [step, hr, holders]
    | some l => simp [accepted, hr] at h
  · intro h
    cases hr : r name with
    | none => simp [accepted, hr] at h
    | some l => simp [step, hr]

/-- **nothing but its own end takes a name from its holder**: no registration attempt, no other connection's end and no
    clean-up removes `k` from the name it holds -/
theorem C07_holder_keeps_name (r : Router) (op : Op) (name : Name) (k : Nat) (hk : k ∈ holders r name)
    (hop : op ≠ .ended name k) : k ∈ holders (step r op) name := by
  have hsome : ∃ l, r name = some l ∧ k ∈ l := by
    cases hr : r name with
    | none => simp [holders, hr] at hk
    | some l => exact ⟨l, rfl, by simpa [holders, hr] using hk⟩
  obtain ⟨l, hl, hkl⟩ := hsome
  cases op with
  | identify name' k' =>
    simp only [step]
    cases hr' : r name' with
    | none =>
      have hn : name ≠ name' := by intro h0; subst h0; rw [hl] at hr'; cases hr'
      simp only [holders, hn, if_false]; simpa [holders] using hk
    | some l' => exact hk
  | ended name' k' =>
    simp only [step]
    cases hr' : r name' with
    | none => exact hk
    | some l' =>
      by_cases hn : name = name'
      · subst hn
        rw [hl] at hr'; cases hr'
        simp only [holders, if_true, Option.getD_some, List.mem_filter, ne_eq, decide_not, Bool.not_eq_eq_eq_not, Bool.not_true,
          decide_eq_false_iff_not]
        exact ⟨hkl, fun h0 => hop (by rw [h0])⟩
      · simp only [holders, hn, if_false]; simpa [holders] using hk
  | cleaned name' =>
    simp only [step]
    split
    · next hr' =>
      have hn : name ≠ name' := by intro h0; subst h0; rw [hl] at hr'; cases hr'; cases hkl
      simp only [holders, hn, if_false]; simpa [holders] using hk
    · exact hk

/-- while the clean-up of a departed user is in progress the name stays taken: a new session cannot meet the old memberships -/
theorem C07_reserved_during_cleanup (r : Router) (name : Name) (k k' : Nat) (h : r name = some [k]) :
    accepted (step r (.ended name k)) (.identify name k') = false ∧ holders (step r (.ended name k)) name = [] := by
  simp [accepted, step, h, holders]

/-- **the name is available again once its holder has ended and the clean-up has finished** -/
theorem C07_name_reusable (r : Router) (name : Name) (k k' : Nat) (h : r name = some [k]) :
    accepted (step (step r (.ended name k)) (.cleaned name)) (.identify name k') = true := by
  simp [accepted, step, h]

open Narwhal.Generated in
/-- table obligation (regenerated from c2s/router.rs on every run): each operation touches the connection map in one critical
    section, an exclusive registration is refused whenever an entry exists, and the reservation is removed only after the clean-up -/
theorem names_table_ok : registerOneSection = true ∧ unregisterOneSection = true := by decide

example : holders (run init [.identify 7 1, .identify 7 2, .ended 7 1, .identify 7 3, .cleaned 7, .identify 7 4]) 7 = [4] := by decide

end Narwhal.Names

#print axioms Narwhal.Names.C07_unique_holder
#print axioms Narwhal.Names.C07_identify_iff_free
#print axioms Narwhal.Names.C07_holder_keeps_name
#print axioms Narwhal.Names.C07_reserved_during_cleanup
#print axioms Narwhal.Names.C07_name_reusable
#print axioms Narwhal.Names.names_table_ok
