import Narwhal.Model.Batch
import Narwhal.Generated.Writer
/-!
# C13 / C15 / C19 — writers sharing the message pool never wait for one another (after 02d0f5c)

With `try_acquire` batching a writer that waits for the pool holds no buffer, so every buffer that is not free is held by
a writer that is collecting (which never waits) or writing (which only waits for its own peer).  Hence whenever some
writer waits for a buffer and none is free, a writer exists whose next step does not depend on the pool — there is no
state in which writers only wait for each other.  With the old rule (`awaitMode`) such a state is reachable.
-/
namespace Narwhal.Batch

/-- the shape of the batch-filling loop the model describes (regenerated from the source on every run) -/
theorem batch_table_ok :
    Narwhal.Generated.maxIovs = 128 ∧ Narwhal.Generated.batchTriesBuffers = true ∧
    Narwhal.Generated.batchNeverAwaitsBuffer = true ∧ Narwhal.Generated.batchBufferBeforeDequeue = true ∧
    Narwhal.Generated.connLoopSelectFair = true := by decide

def heldSum (ws : List Writer) : Nat := (ws.map (·.held)).sum

/-- conservation, and no hold-and-wait -/
def Inv (s : St) : Prop :=
  s.free + heldSum s.ws = s.cap ∧
  (s.awaitMode = false → ∀ w ∈ s.ws, (w.waitsForPool = true → w.held = 0) ∧ (w.phase = .idle → w.held = 0))

theorem heldSum_set (ws : List Writer) (i : Nat) (w w' : Writer) (h : ws[i]? = some w) :
    heldSum (ws.set i w') + w.held = heldSum ws + w'.held := by
  induction ws generalizing i with
  | nil => simp at h
  | cons x xs ih =>
    cases i with
    | zero =>
      simp only [List.getElem?_cons_zero, Option.some.injEq] at h
      subst h
      simp only [List.set_cons_zero, heldSum, List.map_cons, List.sum_cons]
      omega
    | succ j =>
      simp only [List.getElem?_cons_succ] at h
      have := ih j h
      simp only [List.set_cons_succ, heldSum, List.map_cons, List.sum_cons] at this ⊢
      omega

theorem mem_set_cases (ws : List Writer) (i : Nat) (w' v : Writer) (h : v ∈ ws.set i w') : v = w' ∨ v ∈ ws := by
  induction ws generalizing i with
  | nil => simp at h
  | cons x xs ih =>
    cases i with
    | zero =>
      simp only [List.set_cons_zero, List.mem_cons] at h
      rcases h with h | h
      · exact Or.inl h
      · exact Or.inr (by simp [h])
    | succ j =>
      simp only [List.set_cons_succ, List.mem_cons] at h
      rcases h with h | h
      · exact Or.inr (by simp [h])
      · rcases ih j h with h | h
        · exact Or.inl h
        · exact Or.inr (by simp [h])

theorem inv_init (cap mb n : Nat) (am : Bool) : Inv (init cap mb n am) := by
  refine ⟨?_, ?_⟩
  · simp only [init, heldSum]
    induction n with
    | zero => simp
    | succ k ih => simpa [List.replicate_succ, List.sum_cons] using ih
  · intro _ w hw
    simp only [init, List.mem_replicate] at hw
    rw [hw.2]; simp [Writer.waitsForPool]

theorem inv_step (s : St) (e : Step) (h : Inv s) : Inv (step s e) := by
  obtain ⟨hc, hn⟩ := h
  cases e with
  | enqueue i =>
    simp only [step]
    cases hw : s.ws[i]? with
    | none => exact ⟨hc, hn⟩
    | some w =>
      refine ⟨?_, ?_⟩
      · have := heldSum_set s.ws i w { w with queue := w.queue + 1 } hw
        simp only [setW] at this ⊢; omega
      · intro ha v hv
        rcases mem_set_cases _ _ _ _ hv with rfl | hv
        · have := hn ha w (List.mem_of_getElem? hw)
          simpa [Writer.waitsForPool] using this
        · exact hn ha v hv
  | wake i =>
    simp only [step]
    cases hw : s.ws[i]? with
    | none => exact ⟨hc, hn⟩
    | some w =>
      simp only
      split
      · next hcond =>
        refine ⟨?_, ?_⟩
        · have := heldSum_set s.ws i w { w with phase := .first, queue := w.queue - 1 } hw
          simp only [setW] at this ⊢; omega
        · intro ha v hv
          rcases mem_set_cases _ _ _ _ hv with rfl | hv
          · have := (hn ha w (List.mem_of_getElem? hw)).2 hcond.1
            simp [Writer.waitsForPool, this]
          · exact hn ha v hv
      · exact ⟨hc, hn⟩
  | take i =>
    simp only [step]
    cases hw : s.ws[i]? with
    | none => exact ⟨hc, hn⟩
    | some w =>
      simp only
      split
      · next hcond =>
        refine ⟨?_, ?_⟩
        · have := heldSum_set s.ws i w { w with phase := .collecting, held := w.held + 1 } hw
          simp only [setW] at this ⊢; omega
        · intro ha v hv
          rcases mem_set_cases _ _ _ _ hv with rfl | hv
          · simp [Writer.waitsForPool]
          · exact hn ha v hv
      · exact ⟨hc, hn⟩
  | more i =>
    simp only [step]
    cases hw : s.ws[i]? with
    | none => exact ⟨hc, hn⟩
    | some w =>
      simp only
      split
      · next hph =>
        split
        · refine ⟨?_, ?_⟩
          · have := heldSum_set s.ws i w { w with phase := .writing } hw
            simp only [setW] at this ⊢; omega
          · intro ha v hv
            rcases mem_set_cases _ _ _ _ hv with rfl | hv
            · simp [Writer.waitsForPool]
            · exact hn ha v hv
        · split
          · next ham =>
            refine ⟨?_, ?_⟩
            · have := heldSum_set s.ws i w { w with phase := .waitingMore, queue := w.queue - 1 } hw
              simp only [setW] at this ⊢; omega
            · intro ha; rw [ham] at ha; cases ha
          · split
            · refine ⟨?_, ?_⟩
              · have := heldSum_set s.ws i w { w with held := w.held + 1, queue := w.queue - 1 } hw
                simp only [setW] at this ⊢; omega
              · intro ha v hv
                rcases mem_set_cases _ _ _ _ hv with rfl | hv
                · simp [Writer.waitsForPool, hph]
                · exact hn ha v hv
            · refine ⟨?_, ?_⟩
              · have := heldSum_set s.ws i w { w with phase := .writing } hw
                simp only [setW] at this ⊢; omega
              · intro ha v hv
                rcases mem_set_cases _ _ _ _ hv with rfl | hv
                · simp [Writer.waitsForPool]
                · exact hn ha v hv
      · exact ⟨hc, hn⟩
  | wrote i =>
    simp only [step]
    cases hw : s.ws[i]? with
    | none => exact ⟨hc, hn⟩
    | some w =>
      simp only
      split
      · refine ⟨?_, ?_⟩
        · have := heldSum_set s.ws i w { w with phase := .idle, held := 0 } hw
          simp only [setW] at this ⊢; omega
        · intro ha v hv
          rcases mem_set_cases _ _ _ _ hv with rfl | hv
          · simp [Writer.waitsForPool]
          · exact hn ha v hv
      · exact ⟨hc, hn⟩

theorem step_awaitMode (s : St) (e : Step) : (step s e).awaitMode = s.awaitMode := by
  cases e <;> simp only [step] <;> (repeat' split) <;> rfl

theorem step_cap (s : St) (e : Step) : (step s e).cap = s.cap := by
  cases e <;> simp only [step] <;> (repeat' split) <;> rfl

theorem inv_run (s : St) (l : List Step) (h : Inv s) : Inv (run s l) := by
  induction l generalizing s with
  | nil => exact h
  | cons e es ih => exact ih _ (inv_step s e h)

theorem run_awaitMode (s : St) (l : List Step) : (run s l).awaitMode = s.awaitMode := by
  induction l generalizing s with
  | nil => rfl
  | cons e es ih => simp only [run, List.foldl_cons] at ih ⊢; rw [ih, step_awaitMode]

theorem run_cap (s : St) (l : List Step) : (run s l).cap = s.cap := by
  induction l generalizing s with
  | nil => rfl
  | cons e es ih => simp only [run, List.foldl_cons] at ih ⊢; rw [ih, step_cap]

theorem heldSum_pos (ws : List Writer) (h : 0 < heldSum ws) : ∃ w ∈ ws, 0 < w.held := by
  induction ws with
  | nil => simp [heldSum] at h
  | cons x xs ih =>
    simp only [heldSum, List.map_cons, List.sum_cons] at h
    by_cases hx : 0 < x.held
    · exact ⟨x, by simp, hx⟩
    · have : 0 < heldSum xs := by simp only [heldSum]; omega
      obtain ⟨w, hw, hh⟩ := ih this
      exact ⟨w, by simp [hw], hh⟩

/-- **no hold-and-wait, no circular wait** (current code): in every state reachable by any interleaving of routing,
    writer steps and peers accepting or not accepting bytes, a writer that waits for a pool buffer holds none; and if
    the pool is empty (and has any capacity at all), some writer holds buffers without waiting for the pool — it is
    collecting (its next step needs nothing) or writing (it needs only its own peer).  So the writers never wait
    only for each other, however many receivers are slow. -/
theorem C13_writers_never_deadlock (cap mb n : Nat) (l : List Step) (hcap : 0 < cap) :
    let s := run (init cap mb n false) l
    (∀ w ∈ s.ws, w.waitsForPool = true → w.held = 0) ∧
    (s.free = 0 → ∃ w ∈ s.ws, 0 < w.held ∧ w.waitsForPool = false ∧ (w.phase = .collecting ∨ w.phase = .writing)) := by
  intro s
  have hinv := inv_run _ l (inv_init cap mb n false)
  have ham : s.awaitMode = false := by
    show (run (init cap mb n false) l).awaitMode = false
    rw [run_awaitMode]; rfl
  have hcp : s.cap = cap := by
    show (run (init cap mb n false) l).cap = cap
    rw [run_cap]; rfl
  obtain ⟨hc, hn⟩ := hinv
  refine ⟨fun w hw => (hn ham w hw).1, ?_⟩
  intro hf
  have : 0 < heldSum s.ws := by
    have : s.free + heldSum s.ws = s.cap := hc
    omega
  obtain ⟨w, hw, hh⟩ := heldSum_pos s.ws this
  have h1 := hn ham w hw
  refine ⟨w, hw, hh, ?_, ?_⟩
  · cases hwp : w.waitsForPool with
    | false => rfl
    | true => have := h1.1 hwp; omega
  · cases hp : w.phase with
    | idle => have := h1.2 hp; omega
    | first => have := h1.1 (by simp [Writer.waitsForPool, hp]); omega
    | collecting => exact Or.inl rfl
    | waitingMore => have := h1.1 (by simp [Writer.waitsForPool, hp]); omega
    | writing => exact Or.inr rfl

/-- the old batching rule: two writers, three buffers, two frames queued for each — both end up holding buffers and
    waiting for the pool, with nothing free and nobody writing: a wait that no peer's reading can end (DESIGN D25) -/
theorem old_batching_deadlocks :
    let s := run (init 2 128 2 true)
      [.enqueue 0, .enqueue 0, .enqueue 1, .enqueue 1, .wake 0, .wake 1, .take 0, .take 1, .more 0, .more 1]
    s.free = 0 ∧ ∀ w ∈ s.ws, w.waitsForPool = true ∧ 0 < w.held := by
  decide

-- non-vacuity: the same schedule under the current rule ends with both writers writing
example : ((run (init 2 128 2 false)
    [.enqueue 0, .enqueue 0, .enqueue 1, .enqueue 1, .wake 0, .wake 1, .take 0, .take 1, .more 0, .more 1]).ws.map (·.phase)) =
    [.writing, .writing] := by decide

end Narwhal.Batch

#print axioms Narwhal.Batch.batch_table_ok
#print axioms Narwhal.Batch.C13_writers_never_deadlock
#print axioms Narwhal.Batch.old_batching_deadlocks
