import Narwhal.Lemmas.Checks
import Narwhal.Lemmas.Invariants
/-!
# C06 — nothing acts before the handshake; C09 — modulator auth is fail-closed; C07 — identities

C2S part, on the sequential server model.  (S2M / M2S: `Generated/Dispatch.lean` table obligations, below.)
-/
namespace Narwhal.Server

def phaseOf (s : Srv) (k : Nat) : Option Phase := (findConn s.conns k).map (·.phase)

def Phase.rank : Phase → Nat
  | .connecting => 0 | .connected => 1 | .authed _ => 2

/-- a non-recoverable failure of an unauthenticated connection touches nothing but that connection -/
theorem fail_preauth (s : Srv) (k : Nat) (c : Conn) (r : Reason) (env : Env)
    (hc : findConn s.conns k = some c) (hp : ∀ u, c.phase ≠ .authed u) (hr : r.recoverable = false) :
    fail s k none r env = (withoutConn s k, [{ conn := k, frame := .error none r, close := true }]) := by
  unfold fail dropConn
  simp only [hr, Bool.false_eq_true, if_false, hc, errFrame]

/-- **C06, connecting phase**: anything but a version-1 CONNECT gets one ERROR and the connection is
    closed; channels, index and router are untouched and nobody else is sent anything. -/
theorem C06_connecting_inert (s : Srv) (k : Nat) (c : Conn) (r : Req) (env : Env)
    (hc : findConn s.conns k = some c) (hp : c.phase = .connecting) :
    (∃ hb, r = .connect 1 hb ∧ (connectingStep s k r env).1 = setPhase s k .connected ∧
        ∃ f, (connectingStep s k r env).2 = [{ conn := k, frame := f }]) ∨
    (∃ reason, reason.recoverable = false ∧
        connectingStep s k r env = (withoutConn s k, [{ conn := k, frame := .error none reason, close := true }])) := by
  have hp' : ∀ u, c.phase ≠ .authed u := by intro u h; rw [hp] at h; cases h
  unfold connectingStep
  split
  · next v hb =>
    split
    · exact Or.inr ⟨_, rfl, fail_preauth s k c _ env hc hp' rfl⟩
    · next hv =>
      split
      · exact Or.inr ⟨_, rfl, fail_preauth s k c _ env hc hp' rfl⟩
      · have : v = 1 := by simpa using hv
        subst this
        exact Or.inl ⟨hb, rfl, rfl, _, rfl⟩
  · exact Or.inr ⟨_, rfl, fail_preauth s k c _ env hc hp' rfl⟩

theorem withoutConn_frames (s : Srv) (k : Nat) :
    (withoutConn s k).chans = s.chans ∧ (withoutConn s k).index = s.index ∧ (withoutConn s k).router = s.router := ⟨rfl, rfl, rfl⟩

theorem setPhase_frames (s : Srv) (k : Nat) (p : Phase) :
    (setPhase s k p).chans = s.chans ∧ (setPhase s k p).index = s.index ∧ (setPhase s k p).router = s.router := ⟨rfl, rfl, rfl⟩

/-- **C06, connected phase**: only IDENTIFY (auth off) or AUTH (auth on) can do anything; every other frame
    — any channel operation, publish, direct message, repeated CONNECT — closes the connection with an
    ERROR and changes nothing else. -/
theorem C06_connected_inert (s : Srv) (k : Nat) (c : Conn) (r : Req) (env : Env)
    (hc : findConn s.conns k = some c) (hp : c.phase = .connected)
    (hr : (∀ n, r ≠ .identify n) ∧ (∀ t, r ≠ .auth t)) :
    connectedStep s k r env = (withoutConn s k, [{ conn := k, frame := .error none .unexpectedMessage, close := true }]) := by
  have hp' : ∀ u, c.phase ≠ .authed u := by intro u h; rw [hp] at h; cases h
  unfold connectedStep
  split
  · next n => exact absurd rfl (hr.1 n)
  · next t => exact absurd rfl (hr.2 t)
  · exact fail_preauth s k c _ env hc hp' rfl

/-- handshake steps never touch channels or the membership index, whatever they are sent -/
theorem C06_handshake_no_channel_effect (s : Srv) (k : Nat) (c : Conn) (r : Req) (env : Env)
    (hc : findConn s.conns k = some c) (hp : ∀ u, c.phase ≠ .authed u) :
    (connectingStep s k r env).1.chans = s.chans ∧ (connectingStep s k r env).1.index = s.index ∧
    (connectedStep s k r env).1.chans = s.chans ∧ (connectedStep s k r env).1.index = s.index := by
  have hf : ∀ reason, reason.recoverable = false → (fail s k none reason env).1.chans = s.chans ∧ (fail s k none reason env).1.index = s.index := by
    intro reason hr; rw [fail_preauth s k c reason env hc hp hr]; exact ⟨rfl, rfl⟩
  refine ⟨?_, ?_, ?_, ?_⟩
  · unfold connectingStep; split
    · split
      · exact (hf _ rfl).1
      · split
        · exact (hf _ rfl).1
        · rfl
    · exact (hf _ rfl).1
  · unfold connectingStep; split
    · split
      · exact (hf _ rfl).2
      · split
        · exact (hf _ rfl).2
        · rfl
    · exact (hf _ rfl).2
  · unfold connectedStep; split
    · split
      · exact (hf _ rfl).1
      · split
        · exact (hf _ rfl).1
        · split
          · simp [fail, Reason.recoverable]
          · rfl
    · split
      · exact (hf _ rfl).1
      · split
        · exact (hf _ rfl).1
        · split
          · split
            · exact (hf _ rfl).1
            · rfl
          · rfl
          · rfl
          · exact (hf _ rfl).1
    · exact (hf _ rfl).1
  · unfold connectedStep; split
    · split
      · exact (hf _ rfl).2
      · split
        · exact (hf _ rfl).2
        · split
          · simp [fail, Reason.recoverable]
          · rfl
    · split
      · exact (hf _ rfl).2
      · split
        · exact (hf _ rfl).2
        · split
          · split
            · exact (hf _ rfl).2
            · rfl
          · rfl
          · rfl
          · exact (hf _ rfl).2
    · exact (hf _ rfl).2

/-- **C06, authenticated is terminal**: CONNECT, IDENTIFY and AUTH are refused (UNEXPECTED_MESSAGE, close)
    once authenticated — a connection can never re-identify or change identity. -/
theorem C06_authed_terminal (s : Srv) (k : Nat) (u : Str) (env : Env) :
    (∀ v hb, authedStep s k u (.connect v hb) env = fail s k none .unexpectedMessage env) ∧
    (∀ n, authedStep s k u (.identify n) env = fail s k none .unexpectedMessage env) ∧
    (∀ t, authedStep s k u (.auth t) env = fail s k none .unexpectedMessage env) := ⟨fun _ _ => rfl, fun _ => rfl, fun _ => rfl⟩

/-! ## C09 / C07: how a connection becomes authenticated -/

theorem findConn_map_other (cs : List Conn) (k : Nat) (f : Conn → Conn) (hid : ∀ c, (f c).id = c.id) :
    findConn (cs.map f) k = (findConn cs k).map f := by
  induction cs with
  | nil => rfl
  | cons c rest ih =>
    simp only [List.map_cons, findConn, hid]
    split
    · rfl
    · exact ih

theorem findConn_id {cs : List Conn} {k : Nat} {c : Conn} (hc : findConn cs k = some c) : c.id = k := by
  induction cs with
  | nil => simp [findConn] at hc
  | cons x rest ih =>
    simp only [findConn] at hc
    split at hc
    · next h => cases hc; exact h
    · exact ih hc

theorem phaseOf_setPhase (s : Srv) (k : Nat) (p : Phase) (c : Conn) (hc : findConn s.conns k = some c) :
    phaseOf (setPhase s k p) k = some p := by
  unfold phaseOf setPhase
  simp only
  rw [findConn_map_other _ _ _ (by intro c; split <;> rfl), hc]
  simp [findConn_id hc]

theorem findConn_filter_ne (cs : List Conn) (k : Nat) : findConn (cs.filter (fun c => c.id ≠ k)) k = none := by
  induction cs with
  | nil => rfl
  | cons c rest ih =>
    have ih' : findConn (List.filter (fun c => !decide (c.id = k)) rest) k = none := by
      have : (fun c : Conn => decide (c.id ≠ k)) = (fun c : Conn => !decide (c.id = k)) := by
        funext c; simp
      rw [← this]; exact ih
    by_cases h : c.id = k
    · simp [List.filter_cons, h, ih']
    · simp [List.filter_cons, h, findConn, ih']

theorem findConn_withoutConn (s : Srv) (k : Nat) : findConn (withoutConn s k).conns k = none := by
  unfold withoutConn
  exact findConn_filter_ne _ _

/-- **C09.** With modulator auth, a connection in the connected phase becomes authenticated in a step only
    if that step handled an AUTH on *this* connection and the modulator's outcome for it was `success u`;
    the identity is then exactly `u` and the acknowledgement names `u@domain`.  Failure, challenge and
    error outcomes leave the phase as it was (or end the connection). -/
theorem C09_auth_only_on_success (s : Srv) (k : Nat) (c : Conn) (r : Req) (env : Env) (u : Str)
    (hauth : s.cfg.authRequired = true) (hc : findConn s.conns k = some c) (hp : c.phase = .connected)
    (hres : phaseOf (connectedStep s k r env).1 k = some (.authed u)) :
    (∃ t, r = .auth t) ∧ env.auth = .success u ∧ u ≠ [] ∧
      (connectedStep s k r env).2 = [{ conn := k, frame := .authAck none (some true) (some (fullNid s u)) }] ∧
      env.down = false := by
  have hp' : ∀ u, c.phase ≠ .authed u := by intro u h; rw [hp] at h; cases h
  have hfail : ∀ reason, reason.recoverable = false → phaseOf (fail s k none reason env).1 k = some (.authed u) → False := by
    intro reason hr h
    rw [fail_preauth s k c reason env hc hp' hr] at h
    simp [phaseOf, findConn_withoutConn] at h
  have hsame : phaseOf s k = some (.authed u) → False := by
    intro h; simp [phaseOf, hc, hp] at h
  unfold connectedStep at hres ⊢
  split at hres
  · next n => simp only [hauth, if_true] at hres; exact absurd hres (fun h => hfail _ rfl h)
  · next t =>
    simp only [hauth, Bool.not_true, Bool.false_eq_true, if_false] at hres ⊢
    split at hres
    · exact absurd hres (fun h => hfail _ rfl h)
    · next hdn =>
      have hdn' : env.down = false := by simpa using hdn
      simp only [hdn', Bool.false_eq_true, if_false]
      split at hres
      · next u' hs =>
        simp only [hs]
        split at hres
        · exact absurd hres (fun h => hfail _ rfl h)
        · next hv =>
          simp only [hv, if_false]
          unfold register at hres
          have := phaseOf_setPhase { s with router := setA s.router u' (connsOf s u' ++ [k]) } k (.authed u') c hc
          rw [this] at hres
          cases hres
          refine ⟨⟨t, rfl⟩, rfl, ?_, rfl, trivial⟩
          intro h0; simp [h0] at hv
      · exact absurd hres hsame
      · exact absurd hres hsame
      · exact absurd hres (fun h => hfail _ rfl h)
  · exact absurd hres (fun h => hfail _ rfl h)

/-- **C09.** IDENTIFY is refused when the modulator authenticates -/
theorem C09_identify_refused (s : Srv) (k : Nat) (n : Str) (env : Env) (hauth : s.cfg.authRequired = true) :
    connectedStep s k (.identify n) env = fail s k none .unexpectedMessage env := by
  simp [connectedStep, hauth]

/-! ## C07: assigned identities -/

open Narwhal.Generated in
/-- table fact, re-decided on every regeneration of `Generated/Unicode.lean`: no whitespace code point and
    not `'@'` is alphanumeric -/
theorem whitespace_not_alnum : (whitespaceCodes.all (fun w => !Id.inRanges alnumRanges w)) = true ∧
    Id.inRanges alnumRanges 64 = false := by decide +kernel

theorem usernameChar_ok (c : Char) (h : Id.isUsernameChar c = true) : Id.isWhitespace c = false ∧ c ≠ '@' := by
  have htab := whitespace_not_alnum
  constructor
  · cases hw : Id.isWhitespace c
    · rfl
    · exfalso
      unfold Id.isWhitespace at hw
      have hmem : c.toNat ∈ Generated.whitespaceCodes := by simpa using hw
      have hna := (List.all_eq_true.mp htab.1) c.toNat hmem
      simp only [Bool.not_eq_true'] at hna
      unfold Id.isUsernameChar Id.isAlnum at h
      rw [hna] at h
      simp only [Bool.false_or, Bool.or_eq_true, beq_iff_eq] at h
      rcases h with (h | h) | h <;> subst h <;> revert hmem <;> decide +kernel
  · intro h0; subst h0
    unfold Id.isUsernameChar Id.isAlnum at h
    have : ('@' : Char).toNat = 64 := by decide
    rw [this, htab.2] at h
    revert h; decide

/-- **C07 well-formedness.** Whatever bytes a client puts in IDENTIFY, an assigned username is non-empty and
    contains neither whitespace nor `'@'`; the NID is that username at the server's domain. -/
theorem C07_nid_wellformed (raw dom : Str) (u : Str) (h : Id.identifyUsername raw dom = some u) :
    u ≠ [] ∧ ∀ c ∈ u, Id.isWhitespace c = false ∧ c ≠ '@' := by
  unfold Id.identifyUsername at h
  simp only at h
  split at h
  · cases h
  · next hne =>
    split at h
    · next hv =>
      cases h
      refine ⟨by intro h0; simp [h0] at hne, ?_⟩
      intro c hc
      unfold Id.validNidParts at hv
      simp only [Bool.and_eq_true] at hv
      exact usernameChar_ok c ((List.all_eq_true.mp hv.1.2) c hc)
    · cases h

/-- **C07 uniqueness.** Without modulator auth an IDENTIFY is acknowledged only for a name that no live
    connection holds at that moment (and it then holds it alone). -/
theorem C07_identify_exclusive (s : Srv) (k : Nat) (raw : Str) (env : Env) (e : Emit)
    (he : e ∈ (connectedStep s k (.identify raw) env).2) (nid : Str) (hf : e.frame = .identifyAck nid) :
    s.cfg.authRequired = false ∧ ∃ u, Id.identifyUsername raw s.cfg.domain = some u ∧ connsOf s u = [] ∧
      nid = fullNid s u ∧ (connectedStep s k (.identify raw) env).1 = register s k u := by
  have hfail : ∀ reason, e ∈ (fail s k none reason env).2 → False := by
    intro reason h
    unfold fail at h
    split at h
    · simp only [List.mem_singleton] at h; subst h; simp [errFrame] at hf
    · simp only [List.mem_cons] at h
      rcases h with rfl | h
      · simp [errFrame] at hf
      · have := (dropConn_plain s k env e h).1
        rw [hf] at this; simp [Frame.isEvent] at this
  unfold connectedStep at he ⊢
  simp only at he ⊢
  split at he
  · exact absurd he (hfail _)
  · next hau =>
    split at he
    · exact absurd he (hfail _)
    · next u hu =>
      split at he
      · exact absurd he (hfail _)
      · next hfree =>
        simp only [List.mem_singleton] at he
        subst he
        simp only at hf
        cases hf
        refine ⟨by simpa using hau, u, hu, ?_, rfl, ?_⟩
        · cases hcn : connsOf s u with
          | nil => rfl
          | cons a as => simp [hcn] at hfree
        · simp [hau, hu, hfree]

end Narwhal.Server

#print axioms Narwhal.Server.C06_connecting_inert
#print axioms Narwhal.Server.C06_connected_inert
#print axioms Narwhal.Server.C06_handshake_no_channel_effect
#print axioms Narwhal.Server.C06_authed_terminal
#print axioms Narwhal.Server.C09_auth_only_on_success
#print axioms Narwhal.Server.C09_identify_refused
#print axioms Narwhal.Server.C07_nid_wellformed
#print axioms Narwhal.Server.C07_identify_exclusive
#print axioms Narwhal.Server.whitespace_not_alnum
