import Narwhal.Model.Writer
/-!
# C15 — outbound frames arrive intact and in order; a slow consumer only hurts itself
-/
namespace Narwhal.Writer

theorem total_eq_flatten_length (bufs : List (List Byte)) : total bufs = bufs.flatten.length := by
  induction bufs with
  | nil => rfl
  | cons b bs ih => simp [total, List.sum_cons] at ih ⊢; try omega

/-- `advance_slices` drops exactly `n` bytes of the concatenation -/
theorem advance_flatten (bufs : List (List Byte)) (n : Nat) (h : n ≤ total bufs) :
    (advance bufs n).flatten = bufs.flatten.drop n := by
  induction bufs generalizing n with
  | nil => simp [advance]
  | cons b bs ih =>
    simp only [advance]
    split
    · next hge =>
      have : n - b.length ≤ total bs := by simp [total, List.sum_cons] at h ⊢; omega
      rw [ih _ this]
      simp only [List.flatten_cons]
      rw [List.drop_append]
      simp [List.drop_of_length_le hge]
    · next hlt =>
      simp only [List.flatten_cons]
      rw [List.drop_append_of_le_length (by omega)]

theorem advance_total (bufs : List (List Byte)) (n : Nat) (h : n ≤ total bufs) :
    total (advance bufs n) = total bufs - n := by
  rw [total_eq_flatten_length, advance_flatten bufs n h, total_eq_flatten_length]
  simp

/-- what `advance_slices` leaves never starts with an empty slice: if bytes remain, so do slices with bytes -/
theorem advance_tidy (bufs : List (List Byte)) (n : Nat) : total (advance bufs n) = 0 → advance bufs n = [] := by
  induction bufs generalizing n with
  | nil => intro _; rfl
  | cons b bs ih =>
    simp only [advance]
    split
    · exact ih _
    · next hlt =>
      intro h0
      simp [total, List.sum_cons] at h0
      omega

/-- **whatever the transport accepts, what reached it is a prefix of the batch's bytes, and if
    `write_all_vectored` returns Ok it is all of them — nothing duplicated, dropped or reordered** -/
theorem writeAll_prefix (bufs : List (List Byte)) (accepts : List Nat) :
    ∃ k, (writeAll bufs accepts).1 = bufs.flatten.take k ∧
      ((writeAll bufs accepts).2 = .done → (writeAll bufs accepts).1 = bufs.flatten) := by
  induction accepts generalizing bufs with
  | nil =>
    cases bufs with
    | nil => exact ⟨0, by simp [writeAll], fun _ => by simp [writeAll]⟩
    | cons b bs => exact ⟨0, by simp [writeAll], fun h => by simp [writeAll] at h⟩
  | cons a as ih =>
    cases bufs with
    | nil => exact ⟨0, by simp [writeAll], fun _ => by simp [writeAll]⟩
    | cons b bs =>
      simp only [writeAll]
      split
      · exact ⟨0, by simp, fun h => by cases h⟩
      · have hle : min a (total (b :: bs)) ≤ total (b :: bs) := Nat.min_le_right _ _
        obtain ⟨k, hk, hdone⟩ := ih (advance (b :: bs) (min a (total (b :: bs))))
        simp only
        rw [advance_flatten _ _ hle] at hk hdone
        refine ⟨min a (total (b :: bs)) + k, ?_, ?_⟩
        · rw [hk, ← List.take_add]
        · intro hd
          rw [hdone hd, List.take_append_drop]

/-- a transport that keeps accepting at least one byte finishes within `total` calls (for slice lists that, like
    every batch laid out by `prepare_iovs`, do not consist of empty slices only) -/
theorem writeAll_terminates (bufs : List (List Byte)) (accepts : List Nat)
    (hpos : ∀ a ∈ accepts, 1 ≤ a) (hlen : total bufs ≤ accepts.length) (htidy : total bufs = 0 → bufs = []) :
    (writeAll bufs accepts).2 = .done := by
  induction accepts generalizing bufs with
  | nil =>
    have : total bufs = 0 := by simpa using hlen
    rw [htidy this]; simp [writeAll]
  | cons a as ih =>
    cases bufs with
    | nil => simp [writeAll]
    | cons b bs =>
      have ha : 1 ≤ a := hpos a List.mem_cons_self
      have ht : 0 < total (b :: bs) := by
        rcases Nat.eq_zero_or_pos (total (b :: bs)) with h | h
        · exact absurd (htidy h) (by simp)
        · exact h
      have hn : min a (total (b :: bs)) ≠ 0 := by
        have : 1 ≤ min a (total (b :: bs)) := by rw [Nat.le_min]; exact ⟨ha, ht⟩
        omega
      simp only [writeAll, hn, if_false]
      apply ih
      · intro x hx; exact hpos x (List.mem_cons_of_mem _ hx)
      · rw [advance_total _ _ (Nat.min_le_right _ _)]
        simp only [List.length_cons] at hlen
        omega
      · exact advance_tidy _ _

/-- a transport that accepts 0 bytes is reported as closed and nothing more is written -/
theorem writeAll_zero_closes (bufs : List (List Byte)) (as : List Nat) (h : total bufs ≠ 0) :
    writeAll bufs (0 :: as) = ([], .closed) := by
  cases bufs with
  | nil => simp [total] at h
  | cons b bs => simp [writeAll]

/-- every batch `prepare_iovs` lays out starts with a non-empty header, so it has bytes whenever it has slices -/
theorem iovs_tidy (batch : List OutFrame) (hh : ∀ f ∈ batch, f.header ≠ []) :
    total (batch.flatMap iovs) = 0 → batch.flatMap iovs = [] := by
  cases batch with
  | nil => intro _; rfl
  | cons f fs =>
    intro h0
    have hne := hh f List.mem_cons_self
    have : 0 < total ((f :: fs).flatMap iovs) := by
      simp only [List.flatMap_cons, total, List.map_append, List.sum_append]
      have : 0 < ((iovs f).map List.length).sum := by
        unfold iovs
        have hl : 0 < f.header.length := List.length_pos_iff.mpr hne
        split <;> simp [List.sum_cons] <;> omega
      omega
    omega

/-- `prepare_iovs` layout: the slices of a batch concatenate to the frames' renderings, in queue order,
    and a batch of `n` frames uses at most `3 n` slices -/
theorem iov_layout (batch : List OutFrame) :
    (batch.flatMap iovs).flatten = (batch.map render).flatten ∧ (batch.flatMap iovs).length ≤ 3 * batch.length := by
  induction batch with
  | nil => simp
  | cons f fs ih =>
    obtain ⟨h1, h2⟩ := ih
    constructor
    · simp only [List.flatMap_cons, List.flatten_append, List.map_cons, List.flatten_cons, h1, render]
    · simp only [List.flatMap_cons, List.length_append, List.length_cons]
      have : (iovs f).length ≤ 3 := by unfold iovs; split <;> simp
      omega

/-- **batching is invisible**: however the queue is cut into batches, the concatenation of the batches'
    bytes is the concatenation of the frames' renderings in queue order -/
theorem batches_flatten (m : Nat) (hm : 0 < m) (fuel : Nat) (q : List OutFrame) (hf : q.length ≤ fuel) :
    (batches m fuel q).flatten = q := by
  induction fuel generalizing q with
  | zero =>
    have : q = [] := List.length_eq_zero_iff.mp (by omega)
    subst this; rfl
  | succ fuel ih =>
    cases q with
    | nil => rfl
    | cons x xs =>
      have hm0 : m ≠ 0 := by omega
      simp only [batches, hm0, if_false, List.flatten_cons]
      rw [ih]
      · exact List.take_append_drop _ _
      · simp only [List.length_drop, List.length_cons] at hf ⊢; omega

/-- **C15, bytes are frames.** Every batch written to completion delivers exactly the renderings of its
    frames; so over any batching and any pattern of partial writes the peer receives
    `(queue.map render).flatten`. -/
theorem C15_bytes_are_frames (m : Nat) (hm : 0 < m) (q : List OutFrame)
    (accepts : List OutFrame → List Nat)
    (hdone : ∀ b ∈ batches m q.length q, (writeAll (b.flatMap iovs) (accepts b)).2 = .done) :
    ((batches m q.length q).map (fun b => (writeAll (b.flatMap iovs) (accepts b)).1)).flatten = (q.map render).flatten := by
  have hb := batches_flatten m hm q.length q (Nat.le_refl _)
  have : ∀ bs : List (List OutFrame), (∀ b ∈ bs, (writeAll (b.flatMap iovs) (accepts b)).2 = .done) →
      (bs.map (fun b => (writeAll (b.flatMap iovs) (accepts b)).1)).flatten = (bs.flatten.map render).flatten := by
    intro bs
    induction bs with
    | nil => intro _; rfl
    | cons b bs ih =>
      intro h
      simp only [List.map_cons, List.flatten_cons, List.map_append, List.flatten_append]
      obtain ⟨_, _, hd⟩ := writeAll_prefix (b.flatMap iovs) (accepts b)
      rw [hd (h b List.mem_cons_self), (iov_layout b).1, ih (fun b' hb' => h b' (List.mem_cons_of_mem _ hb'))]
  rw [this _ hdone, hb]


theorem batches_take_flatten (m : Nat) (hm : 0 < m) (fuel : Nat) (q : List OutFrame) (hf : q.length ≤ fuel) (k : Nat) :
    ((batches m fuel q).take k).flatten = q.take (k * m) := by
  induction fuel generalizing q k with
  | zero =>
    have : q = [] := List.length_eq_zero_iff.mp (by omega)
    subst this; simp [batches]
  | succ fuel ih =>
    cases q with
    | nil => simp [batches]
    | cons x xs =>
      have hm0 : m ≠ 0 := by omega
      cases k with
      | zero => simp
      | succ k =>
        simp only [batches, hm0, if_false, List.take_succ_cons, List.flatten_cons]
        rw [ih _ (by simp only [List.length_drop, List.length_cons] at hf ⊢; omega)]
        have : (k + 1) * m = m + k * m := by rw [Nat.add_mul, Nat.one_mul, Nat.add_comm]
        rw [this, List.take_add]

/-- **C15, a close never cuts a frame.** Whenever the connection is closed by the server while frames are queued — an
    overflow close, a ping timeout, shutdown — and however far the writer had got, the peer receives the renderings of a
    prefix of the queue, whole frames in order, then the closing frame. -/
theorem C15_close_between_frames (m : Nat) (hm : 0 < m) (q : List OutFrame) (k : Nat) (closing : List Byte) :
    ∃ j, j ≤ q.length ∧ loopOut m q k closing = ((q.take j).map render).flatten ++ closing := by
  refine ⟨min (k * m) q.length, Nat.min_le_right _ _, ?_⟩
  unfold loopOut
  congr 1
  have h1 : ∀ bs : List (List OutFrame), (bs.map (fun b => (b.flatMap iovs).flatten)).flatten = (bs.flatten.map render).flatten := by
    intro bs
    induction bs with
    | nil => rfl
    | cons b bs ih =>
      simp only [List.map_cons, List.flatten_cons, List.map_append, List.flatten_append, ih, (iov_layout b).1]
  rw [h1, batches_take_flatten m hm q.length q (Nat.le_refl _) k]
  congr 2
  by_cases h : k * m ≤ q.length
  · rw [Nat.min_eq_left h]
  · have h' : q.length ≤ k * m := by omega
    rw [Nat.min_eq_right h', List.take_of_length_le h', List.take_of_length_le (Nat.le_refl _)]

/-! ## slow consumers -/

/-- sending never blocks and never loses silently: the frame is queued, or this connection's close is requested -/
theorem trySend_total (c : ConnQ) (f : OutFrame) :
    (trySend c f = { c with queue := c.queue ++ [f] } ∧ c.queue.length < c.cap) ∨
    (trySend c f = { c with closeReq := true } ∧ c.cap ≤ c.queue.length) := by
  unfold trySend
  split
  · next h => exact Or.inl ⟨rfl, h⟩
  · next h => exact Or.inr ⟨rfl, by omega⟩

/-- the queue never exceeds its capacity -/
theorem trySend_bounded (c : ConnQ) (f : OutFrame) (h : c.queue.length ≤ c.cap) : (trySend c f).queue.length ≤ (trySend c f).cap := by
  unfold trySend
  split
  · simp; omega
  · exact h

/-- **non-interference**: what routing does to connection `j` depends only on `j`'s own queue — a stalled
    receiver `i ≠ j` (whatever its queue holds) changes nothing for `j`, nor for the publisher, whose
    acknowledgement is not a function of any queue. -/
theorem C15_non_interference (cs cs' : List ConnQ) (targets : List Nat) (f : OutFrame) (j : Nat)
    (_hlen : cs.length = cs'.length) (hsame : cs[j]? = cs'[j]?) :
    (route cs targets f)[j]? = (route cs' targets f)[j]? := by
  unfold route
  simp only [List.getElem?_mapIdx]
  rw [hsame]

/-- a full queue closes that connection and only that one -/
theorem C15_overflow_closes_self (cs : List ConnQ) (targets : List Nat) (f : OutFrame) (j : Nat) (c : ConnQ)
    (hj : cs[j]? = some c) :
    (route cs targets f)[j]? =
      some (if j ∈ targets then (if c.queue.length < c.cap then { c with queue := c.queue ++ [f] } else { c with closeReq := true }) else c) := by
  unfold route
  simp only [List.getElem?_mapIdx, hj, Option.map_some, trySend]

/-! ### non-vacuity -/
example : (writeAll [[1, 2, 3], [4], [10]] [2, 1, 5]) = ([1, 2, 3, 4, 10], .done) := by decide

end Narwhal.Writer

#print axioms Narwhal.Writer.writeAll_prefix
#print axioms Narwhal.Writer.writeAll_terminates
#print axioms Narwhal.Writer.iov_layout
#print axioms Narwhal.Writer.C15_bytes_are_frames
#print axioms Narwhal.Writer.trySend_total
#print axioms Narwhal.Writer.C15_non_interference
#print axioms Narwhal.Writer.C15_overflow_closes_self
#print axioms Narwhal.Writer.C15_close_between_frames
