import Narwhal.Lemmas.Checks
import Narwhal.Lemmas.Invariants
/-!
# C14 — configured limits are enforced (channel-manager part)

Admission theorems, for every state and every limit value (0 and 1 included): a request is admitted only
while the limit still has room *in the pre-state*, so the count after the request never exceeds the limit.
Connection and in-flight admission live in the connection model (`C06`/`C13`); release ("slots come back")
is the content of `C05`'s clean-up theorems and of the pool/connection counters checked by the
`limits` correspondence suite.
-/
namespace Narwhal.Server

/-- JOIN is admitted only below max_clients, below the joiner's max_subscriptions, and — when it creates
    the channel — below max_channels -/
theorem C14_join_admission (s : Srv) (u : Str) (id : Nat) (raw : Str) (ob : Option Str) (h m : Str)
    (hc : joinCheck s u id raw ob = .ok (h, m)) :
    (chanOrNew s h).members.length < (chanOrNew s h).maxClients ∧
      (indexOf s m).length < s.cfg.maxSubs ∧
      ((findChan s.chans h).isNone = true → s.chans.length < s.cfg.maxChannels) := by
  obtain ⟨_, hcap, _, hja⟩ := joinCheck_ok hc
  obtain ⟨_, _, h3, h4⟩ := joinAdmit_none hja
  exact ⟨h3, h4, hcap⟩

/-- after an admitted JOIN the channel holds at most max_clients members -/
theorem C14_members_after_join (s : Srv) (u : Str) (id : Nat) (raw : Str) (ob : Option Str) (h m : Str)
    (hc : joinCheck s u id raw ob = .ok (h, m)) :
    (withMember s.cfg.domain (chanOrNew s h) m).members.length ≤ (withMember s.cfg.domain (chanOrNew s h) m).maxClients := by
  have := (C14_join_admission s u id raw ob h m hc).1
  simp only [withMember, rebuild_members, List.length_append, List.length_singleton]
  show _ ≤ (chanOrNew s h).maxClients
  omega

/-- SET_CHAN_CONFIG never raises a channel's settings above the server's caps -/
theorem C14_config_caps (s : Srv) (u : Str) (id : Nat) (raw : Str) (mc mp : Nat) (c : Chan)
    (hc : setConfigCheck s u id raw mc mp = .ok c)
    (hold : c.maxClients ≤ s.cfg.maxClients ∧ c.maxPayload ≤ s.cfg.maxPayload) :
    (mergeConfig c mc mp).maxClients ≤ s.cfg.maxClients ∧ (mergeConfig c mc mp).maxPayload ≤ s.cfg.maxPayload := by
  obtain ⟨_, _, h1, h2⟩ := setConfigCheck_ok hc
  unfold mergeConfig
  constructor
  · simp only; split <;> omega
  · simp only; split <;> omega

/-- an accepted SET_CHAN_ACL leaves at most max_clients entries (users and bare domains) in the list -/
theorem C14_acl_cap (s : Srv) (u : Str) (id : Nat) (raw : Str) (t : AclType) (a : AclAction) (ns : List Str) (c : Chan)
    (hc : setAclCheck s u id raw t a ns = .ok c) :
    Acl.totalEntries (updatedAcl c t a ns) ≤ c.maxClients := (setAclCheck_ok hc).2.2

/-- an accepted BROADCAST is within the server's and the channel's payload limits -/
theorem C14_payload_caps (s : Srv) (u : Str) (id : Nat) (raw : Str) (q : Option Nat) (p : Payload) (env : Env)
    (c : Chan) (p' : Payload) (hc : broadcastCheck s u id raw q p env = .ok (c, p')) :
    p.length ≤ s.cfg.maxPayload ∧ p'.length ≤ c.maxPayload := by
  obtain ⟨_, _, _, _, h1, h2, _⟩ := broadcastCheck_ok hc
  exact ⟨h1, h2⟩

end Narwhal.Server

#print axioms Narwhal.Server.C14_join_admission
#print axioms Narwhal.Server.C14_members_after_join
#print axioms Narwhal.Server.C14_config_caps
#print axioms Narwhal.Server.C14_acl_cap
#print axioms Narwhal.Server.C14_payload_caps
