import Narwhal.Model.Reader
/-!
# C10 — inbound framing is segmentation-independent

`frames` (the buffer-and-chunks model of `StreamReader` + the connection loop's frame reader) equals
`spec` (a recursion over the whole byte stream) for **every** buffer capacity, every header
interpretation, every payload limit and every way of cutting the stream into non-empty chunks.
Hence any two segmentations of one stream give the same frames (`C10_segmentation_independent`);
payload bytes are never searched for newlines or shown to the header parser (`spec` takes them with
`take n`), and every payload length up to the limit is accepted (`C10_payload_lengths_accepted`).
-/
namespace Narwhal.Reader

/-! ## `findLF` -/

theorem findLF_lt (l : List Byte) (p : Nat) (h : findLF l = some p) : p < l.length := by
  induction l generalizing p with
  | nil => simp [findLF] at h
  | cons b bs ih =>
    simp only [findLF] at h
    split at h
    · simp at h; subst h; simp
    · cases hb : findLF bs with
      | none => simp [hb] at h
      | some q => simp [hb] at h; subst h; have := ih q hb; simp; omega

theorem findLF_append_some (l m : List Byte) (p : Nat) (h : findLF l = some p) : findLF (l ++ m) = some p := by
  induction l generalizing p with
  | nil => simp [findLF] at h
  | cons b bs ih =>
    simp only [findLF, List.cons_append] at h ⊢
    split
    · simp_all
    · rename_i hb
      simp [hb] at h
      cases hq : findLF bs with
      | none => simp [hq] at h
      | some q => simp [hq] at h; subst h; simp [ih q hq]

theorem findLF_take (l : List Byte) (p n : Nat) (h : findLF l = some p) (hn : p < n) : findLF (l.take n) = some p := by
  induction l generalizing p n with
  | nil => simp [findLF] at h
  | cons b bs ih =>
    cases n with
    | zero => omega
    | succ n =>
      simp only [findLF, List.take_succ_cons] at h ⊢
      split
      · simp_all
      · rename_i hb; simp [hb] at h
        cases hq : findLF bs with
        | none => simp [hq] at h
        | some q => simp [hq] at h; subst h; simp [ih q n hq (by omega)]

theorem findLF_take_none (l : List Byte) (n : Nat) (h : findLF l = none) : findLF (l.take n) = none := by
  induction l generalizing n with
  | nil => simp [findLF]
  | cons b bs ih =>
    cases n with
    | zero => simp [findLF]
    | succ n =>
      simp only [findLF, List.take_succ_cons] at h ⊢
      split
      · rename_i hb; simp [hb] at h
      · rename_i hb; simp [hb] at h; simp [ih n h]

/-! ## one `next` against the stream -/

/-- what one `next` means on the whole remaining stream -/
def specNext (cap : Nat) (r : List Byte) : NextRes × List Byte :=
  match findLF (r.take cap) with
  | some p => (.line (r.take p), r.drop (p + 1))
  | none => if r.length ≥ cap then (.tooLong, r) else (.eof, r)

/-- reader states as the code produces them: a recorded line position points into the buffer -/
def RS.WF (s : RS) : Prop :=
  match s.linePos with
  | some p => p < s.buf.length
  | none => True

def NonEmpty (cs : List (List Byte)) : Prop := ∀ c ∈ cs, c ≠ []

theorem headCheck_some_spec (cap : Nat) (buf rest : List Byte) (r : NextRes) (s : RS)
    (hb : buf.length ≤ cap) (h : headCheck cap buf = some (r, s)) :
    (specNext cap (buf ++ rest)).1 = r ∧ (specNext cap (buf ++ rest)).2 = s.unread ++ rest ∧ s.WF ∧
      s.buf.length ≤ cap := by
  unfold headCheck at h
  cases hf : findLF buf with
  | some p =>
    simp [hf] at h
    obtain ⟨rfl, rfl⟩ := h
    have hp := findLF_lt buf p hf
    have h1 : findLF ((buf ++ rest).take cap) = some p :=
      findLF_take _ p cap (findLF_append_some buf rest p hf) (by omega)
    simp only [specNext, h1, RS.unread, RS.WF]
    refine ⟨?_, ?_, hp, hb⟩
    · rw [List.take_append_of_le_length (by omega)]
    · rw [List.drop_append_of_le_length (by omega)]
  | none =>
    simp [hf] at h
    obtain ⟨hlen, rfl, rfl⟩ := h
    have hcap : buf.length = cap := by omega
    have h1 : findLF ((buf ++ rest).take cap) = none := by
      rw [List.take_append_of_le_length (by omega), List.take_of_length_le (by omega)]; exact hf
    have hge : cap ≤ buf.length + rest.length := by omega
    simp [specNext, h1, RS.unread, hge, RS.WF, hb]

theorem headCheck_none (cap : Nat) (buf : List Byte) (h : headCheck cap buf = none) :
    findLF buf = none ∧ buf.length < cap := by
  unfold headCheck at h
  cases hf : findLF buf with
  | some p => simp [hf] at h
  | none => simp [hf] at h; exact ⟨rfl, h⟩

/-- the read loop refines `specNext` -/
theorem nextLoop_spec (cap : Nat) (buf : List Byte) (cs : List (List Byte)) (hb : buf.length ≤ cap) (hne : NonEmpty cs) :
    (nextLoop cap buf cs).1 = (specNext cap (buf ++ cs.flatten)).1 ∧
    ((nextLoop cap buf cs).1 ≠ .eof →
      (nextLoop cap buf cs).2.1.unread ++ (nextLoop cap buf cs).2.2.flatten = (specNext cap (buf ++ cs.flatten)).2 ∧
      (nextLoop cap buf cs).2.1.WF ∧ (nextLoop cap buf cs).2.1.buf.length ≤ cap ∧ NonEmpty (nextLoop cap buf cs).2.2) := by
  induction cs generalizing buf with
  | nil =>
    simp only [nextLoop, List.flatten_nil, List.append_nil]
    cases hh : headCheck cap buf with
    | some rs =>
      obtain ⟨r, s⟩ := rs
      have := headCheck_some_spec cap buf [] r s hb hh
      simp only [List.append_nil] at this
      refine ⟨this.1.symm, fun _ => ⟨by simpa using this.2.1.symm, this.2.2.1, this.2.2.2, by intro c hc; cases hc⟩⟩
    | none =>
      obtain ⟨hf, hlt⟩ := headCheck_none cap buf hh
      have : findLF (buf.take cap) = none := findLF_take_none _ _ hf
      have hnot : ¬ (buf.length ≥ cap) := by omega
      simp [specNext, this, hnot]
  | cons chunk rest ih =>
    have hne' : NonEmpty rest := fun c hc => hne c (List.mem_cons_of_mem _ hc)
    have hchunk : chunk ≠ [] := hne chunk List.mem_cons_self
    simp only [nextLoop, List.flatten_cons]
    cases hh : headCheck cap buf with
    | some rs =>
      obtain ⟨r, s⟩ := rs
      have := headCheck_some_spec cap buf (chunk ++ rest.flatten) r s hb hh
      refine ⟨this.1.symm, fun _ => ⟨?_, this.2.2.1, this.2.2.2, hne⟩⟩
      simp only [List.flatten_cons]
      exact this.2.1.symm
    | none =>
      simp only
      obtain ⟨_, hlt⟩ := headCheck_none cap buf hh
      have hce : chunk.isEmpty = false := by cases chunk <;> simp_all
      simp only [hce, Bool.false_eq_true, if_false]
      split
      · rename_i hle
        have := ih (buf ++ chunk) (by simp; omega) hne'
        simpa [List.append_assoc] using this
      · rename_i hgt
        have hlen : (buf ++ chunk.take (cap - buf.length)).length = cap := by simp; omega
        have hsplit : buf ++ (chunk ++ rest.flatten) =
            (buf ++ chunk.take (cap - buf.length)) ++ (chunk.drop (cap - buf.length) ++ rest.flatten) := by
          simp only [List.append_assoc]
          rw [← List.append_assoc (chunk.take _), List.take_append_drop]
        have hdropne : chunk.drop (cap - buf.length) ≠ [] := by
          intro h0
          have := congrArg List.length h0
          simp at this; omega
        cases hh2 : headCheck cap (buf ++ chunk.take (cap - buf.length)) with
        | some rs =>
          obtain ⟨r, s⟩ := rs
          have := headCheck_some_spec cap _ (chunk.drop (cap - buf.length) ++ rest.flatten) r s (by omega) hh2
          rw [hsplit]
          refine ⟨this.1.symm, fun _ => ⟨?_, this.2.2.1, this.2.2.2, ?_⟩⟩
          · simp only [List.flatten_cons]; exact this.2.1.symm
          · intro c hc
            simp only [List.mem_cons] at hc
            rcases hc with rfl | hc
            · exact hdropne
            · exact hne' c hc
        | none =>
          exfalso
          have := (headCheck_none cap _ hh2).2
          omega

theorem compact_buf {s : RS} (h : s.WF) : (compact s).buf = s.unread ∧ (compact s).linePos = none := by
  unfold compact RS.unread
  unfold RS.WF at h
  cases hl : s.linePos with
  | none => simp [hl]
  | some p => simp only [hl] at h ⊢; simp [h]

theorem unread_length_le {s : RS} : s.unread.length ≤ s.buf.length := by
  unfold RS.unread
  cases s.linePos <;> simp

/-- **`next` refines `specNext`** on the remaining stream `s.unread ++ cs.flatten` -/
theorem next_spec (cap : Nat) (s : RS) (cs : List (List Byte)) (hwf : s.WF) (hb : s.buf.length ≤ cap) (hne : NonEmpty cs) :
    (next cap s cs).1 = (specNext cap (s.unread ++ cs.flatten)).1 ∧
    ((next cap s cs).1 ≠ .eof →
      (next cap s cs).2.1.unread ++ (next cap s cs).2.2.flatten = (specNext cap (s.unread ++ cs.flatten)).2 ∧
      (next cap s cs).2.1.WF ∧ (next cap s cs).2.1.buf.length ≤ cap ∧ NonEmpty (next cap s cs).2.2) := by
  unfold next
  rw [← (compact_buf hwf).1]
  apply nextLoop_spec cap _ cs _ hne
  rw [(compact_buf hwf).1]
  exact Nat.le_trans unread_length_le hb

/-! ## `read_raw` against the stream -/

theorem readExact_spec (cs : List (List Byte)) (n : Nat) (hne : NonEmpty cs) :
    (cs.flatten.length < n → readExact cs n = none) ∧
    (n ≤ cs.flatten.length → ∃ cs', readExact cs n = some (cs.flatten.take n, cs') ∧
        cs'.flatten = cs.flatten.drop n ∧ NonEmpty cs') := by
  induction cs generalizing n with
  | nil =>
    cases n with
    | zero => simp [readExact]; intro c hc; cases hc
    | succ n => simp [readExact]
  | cons chunk rest ih =>
    have hne' : NonEmpty rest := fun c hc => hne c (List.mem_cons_of_mem _ hc)
    have hchunk : chunk ≠ [] := hne chunk List.mem_cons_self
    have hce : chunk.isEmpty = false := by cases chunk <;> simp_all
    cases n with
    | zero =>
      simp only [readExact]
      exact ⟨by intro h; omega, fun _ => ⟨chunk :: rest, by simp, by simp, hne⟩⟩
    | succ n =>
      simp only [readExact, hce, Bool.false_eq_true, if_false, List.flatten_cons, List.length_append]
      split
      · next hle =>
        obtain ⟨h1, h2⟩ := ih (n + 1 - chunk.length) hne'
        constructor
        · intro hlt
          rw [h1 (by omega)]; rfl
        · intro hge
          obtain ⟨cs', he, hf, hn⟩ := h2 (by omega)
          refine ⟨cs', ?_, ?_, hn⟩
          · rw [he]
            simp only [Option.map_some]
            rw [List.take_append, List.take_of_length_le (show chunk.length ≤ n + 1 by omega)]
          · rw [hf, List.drop_append]
            simp [List.drop_of_length_le (show chunk.length ≤ n + 1 by omega)]
      · next hgt =>
        have hgt' : n + 1 < chunk.length := by omega
        constructor
        · intro hlt; omega
        · intro _
          refine ⟨chunk.drop (n + 1) :: rest, ?_, ?_, ?_⟩
          · rw [List.take_append_of_le_length (by omega)]
          · simp only [List.flatten_cons]
            rw [List.drop_append_of_le_length (by omega)]
          · intro c hc
            simp only [List.mem_cons] at hc
            rcases hc with rfl | hc
            · intro h0
              have := congrArg List.length h0
              simp at this; omega
            · exact hne' c hc

theorem remainingCount_pos {s : RS} (h : s.WF) : remainingCount s > 0 ↔ s.unread ≠ [] := by
  unfold remainingCount RS.unread
  unfold RS.WF at h
  cases hl : s.linePos with
  | none =>
    simp only
    constructor
    · intro hp h0; simp [h0] at hp
    · intro hne; cases hb : s.buf with
      | nil => exact absurd hb hne
      | cons a as => simp
  | some p =>
    simp only [hl] at h ⊢
    constructor
    · intro hp h0
      have := congrArg List.length h0
      simp at this
      split at hp <;> omega
    · intro hne
      have : (s.buf.drop (p + 1)).length ≠ 0 := by
        intro h0; exact hne (List.length_eq_zero_iff.mp h0)
      simp at this
      split <;> omega

/-- **`read_raw` takes exactly the next `n` bytes of the stream** (or reports EOF if there are fewer) -/
theorem readRaw_spec (s : RS) (n : Nat) (cs : List (List Byte)) (hwf : s.WF) (hne : NonEmpty cs) (hn : 1 ≤ n) :
    ((s.unread ++ cs.flatten).length < n → readRaw s n cs = none) ∧
    (n ≤ (s.unread ++ cs.flatten).length → ∃ s' cs', readRaw s n cs = some ((s.unread ++ cs.flatten).take n, s', cs') ∧
        s'.unread ++ cs'.flatten = (s.unread ++ cs.flatten).drop n ∧ s'.WF ∧ s'.buf.length ≤ s.buf.length ∧ NonEmpty cs') := by
  unfold readRaw
  by_cases hrem : remainingCount s > 0
  · have hU : s.unread ≠ [] := (remainingCount_pos hwf).mp hrem
    simp only [hrem, if_true, extract, (compact_buf hwf).1]
    have hs'wf : RS.WF { buf := s.unread.drop n, linePos := none } := by simp [RS.WF]
    have hs'un : RS.unread { buf := s.unread.drop n, linePos := none } = s.unread.drop n := rfl
    have hs'len : (s.unread.drop n).length ≤ s.buf.length := by
      have := @unread_length_le s
      simp; omega
    by_cases hshort : (s.unread.take n).length < n
    · simp only [hshort, if_true]
      have hlen : s.unread.length < n := by simp at hshort; omega
      have htake : s.unread.take n = s.unread := List.take_of_length_le (by omega)
      obtain ⟨h1, h2⟩ := readExact_spec cs (n - (s.unread.take n).length) hne
      rw [htake] at h1 h2 ⊢
      constructor
      · intro hlt
        simp only [List.length_append] at hlt
        rw [h1 (by omega)]; rfl
      · intro hge
        simp only [List.length_append] at hge
        obtain ⟨cs', he, hf, hn'⟩ := h2 (by omega)
        refine ⟨_, cs', ?_, ?_, hs'wf, hs'len, hn'⟩
        · rw [he]
          simp only [Option.map_some]
          rw [List.take_append, List.take_of_length_le (show s.unread.length ≤ n by omega)]
        · rw [hs'un, hf, List.drop_append]
    · simp only [hshort, if_false]
      have hlen : n ≤ s.unread.length := by simp at hshort; omega
      constructor
      · intro hlt; simp only [List.length_append] at hlt; omega
      · intro _
        refine ⟨_, cs, ?_, ?_, hs'wf, hs'len, hne⟩
        · rw [List.take_append_of_le_length hlen]
        · rw [hs'un, List.drop_append_of_le_length hlen]
  · have hU : s.unread = [] := by
      cases hu : s.unread with
      | nil => rfl
      | cons a as => exact absurd ((remainingCount_pos hwf).mpr (by rw [hu]; simp)) hrem
    simp only [hrem, if_false, hU, List.nil_append]
    obtain ⟨h1, h2⟩ := readExact_spec cs n hne
    constructor
    · intro hlt; rw [h1 hlt]; rfl
    · intro hge
      obtain ⟨cs', he, hf, hn'⟩ := h2 hge
      exact ⟨s, cs', by rw [he]; rfl, by rw [hU]; simpa using hf, hwf, Nat.le_refl _, hn'⟩

/-! ## the frame loop -/

/-- **C10, main theorem.** For every buffer capacity, payload limit, header interpretation, reader state
    as the code produces it, and every list of non-empty chunks: the frames the connection loop acts on
    are those of the stream-level specification applied to the concatenated bytes. -/
theorem frames_eq_spec (cap maxPayload : Nat) (hdr : List Byte → Hdr) (hpos : ∀ l n, hdr l = .payload n → 1 ≤ n)
    (fuel : Nat) (s : RS) (cs : List (List Byte))
    (hwf : s.WF) (hb : s.buf.length ≤ cap) (hne : NonEmpty cs) :
    frames cap maxPayload hdr fuel s cs = spec cap maxPayload hdr fuel (s.unread ++ cs.flatten) := by
  induction fuel generalizing s cs with
  | zero => rfl
  | succ fuel ih =>
    obtain ⟨hres, hrest⟩ := next_spec cap s cs hwf hb hne
    simp only [frames, spec]
    generalize hR : s.unread ++ cs.flatten = R at hres hrest ⊢
    unfold specNext at hres hrest
    rcases hnx : next cap s cs with ⟨res, s1, cs1⟩
    rw [hnx] at hres hrest
    simp only at hres hrest
    cases hf : findLF (R.take cap) with
    | none =>
      simp only [hf] at hres hrest ⊢
      split at hres
      · next hge => subst hres; simp [hge]
      · next hlt => subst hres; simp [hlt]
    | some p =>
      simp only [hf] at hres hrest ⊢
      subst hres
      obtain ⟨hstream, hwf1, hb1, hne1⟩ := hrest (by simp)
      simp only
      cases hh : hdr (R.take p) with
      | bad => rfl
      | plain =>
        simp only
        rw [ih s1 cs1 hwf1 hb1 hne1, hstream]
      | payload n =>
        simp only
        by_cases hbig : n > maxPayload
        · simp [hbig]
        · simp only [hbig, if_false]
          have hn0 : 1 ≤ n := hpos _ _ hh
          obtain ⟨r1, r2⟩ := readRaw_spec s1 n cs1 hwf1 hne1 hn0
          rw [hstream] at r1 r2
          by_cases hlenp : (R.drop (p + 1)).length < n
          · rw [r1 hlenp]
            have : (R.drop (p + 1)).length < n + 1 := by omega
            rw [if_pos this]
          · obtain ⟨s2, cs2, hr2, hst2, hwf2, hb2, hne2⟩ := r2 (by omega)
            rw [hr2]
            simp only
            obtain ⟨t1, t2⟩ := readRaw_spec s2 1 cs2 hwf2 hne2 (Nat.le_refl 1)
            rw [hst2] at t1 t2
            by_cases hlen1 : ((R.drop (p + 1)).drop n).length < 1
            · rw [t1 hlen1]
              have : (R.drop (p + 1)).length < n + 1 := by simp at hlen1 ⊢; omega
              rw [if_pos this]
            · obtain ⟨s3, cs3, hr3, hst3, hwf3, hb3, hne3⟩ := t2 (by omega)
              rw [hr3]
              have : ¬ (R.drop (p + 1)).length < n + 1 := by simp at hlen1 ⊢; omega
              rw [if_neg this]
              simp only
              by_cases heq : ((R.drop (p + 1)).drop n).take 1 = [LF]
              · rw [if_pos heq, if_pos heq, ih s3 cs3 hwf3 (by omega) hne3, hst3, List.drop_drop]
              · rw [if_neg heq, if_neg heq]

/-- **C10, segmentation independence.** Any two ways of cutting the same byte stream into non-empty
    segments make the server act on the same sequence of header lines and payloads (and end the same way). -/
theorem C10_segmentation_independent (cap maxPayload : Nat) (hdr : List Byte → Hdr)
    (hpos : ∀ l n, hdr l = .payload n → 1 ≤ n) (fuel : Nat)
    (cs cs' : List (List Byte)) (hne : NonEmpty cs) (hne' : NonEmpty cs') (hsame : cs.flatten = cs'.flatten) :
    frames cap maxPayload hdr fuel init cs = frames cap maxPayload hdr fuel init cs' := by
  rw [frames_eq_spec cap maxPayload hdr hpos fuel init cs (by simp [RS.WF, init]) (by simp [init]) hne,
      frames_eq_spec cap maxPayload hdr hpos fuel init cs' (by simp [RS.WF, init]) (by simp [init]) hne',
      hsame]

/-- **payload bytes are opaque and every announced length up to the limit is accepted**: for a header that
    announces `n ≤ maxPayload` bytes, followed by *any* `n` bytes and a newline, the frame is delivered with
    exactly those bytes, whatever they contain, and parsing resumes right after the newline. -/
theorem C10_payload_lengths_accepted (cap maxPayload : Nat) (hdr : List Byte → Hdr) (fuel : Nat)
    (line payload rest : List Byte) (hline : findLF line = none) (hfit : line.length < cap)
    (hh : hdr line = .payload payload.length) (hle : payload.length ≤ maxPayload) :
    spec cap maxPayload hdr (fuel + 1) (line ++ [LF] ++ payload ++ [LF] ++ rest) =
      .msg line (some payload) :: spec cap maxPayload hdr fuel rest := by
  have hfind : findLF (line ++ [LF]) = some line.length := by
    clear hh hfit
    induction line with
    | nil => simp [findLF]
    | cons b bs ih =>
      simp only [findLF, List.cons_append] at hline ⊢
      split at hline
      · cases hline
      · next hb =>
        simp only [hb, if_false]
        cases hq : findLF bs with
        | none => simp [ih hq]
        | some q => simp [hq] at hline
  have hR : line ++ [LF] ++ payload ++ [LF] ++ rest = (line ++ [LF]) ++ (payload ++ [LF] ++ rest) := by simp
  have h1 : findLF ((line ++ [LF] ++ payload ++ [LF] ++ rest).take cap) = some line.length := by
    rw [hR]
    exact findLF_take _ _ cap (findLF_append_some _ _ _ hfind) hfit
  simp only [spec, h1]
  have htake : (line ++ [LF] ++ payload ++ [LF] ++ rest).take line.length = line := by
    simp [List.append_assoc]
  have hdrop : (line ++ [LF] ++ payload ++ [LF] ++ rest).drop (line.length + 1) = payload ++ [LF] ++ rest := by
    rw [hR, List.drop_append_of_le_length (by simp)]
    simp
  rw [htake, hdrop, hh]
  simp only
  have hnb : ¬ payload.length > maxPayload := by omega
  simp only [hnb, if_false]
  have hlen : ¬ (payload ++ [LF] ++ rest).length < payload.length + 1 := by simp
  simp only [hlen, if_false]
  have hterm : ((payload ++ [LF] ++ rest).drop payload.length).take 1 = [LF] := by
    simp [List.append_assoc]
  simp only [hterm, if_true]
  congr 2
  · simp [List.append_assoc]
  · simp [List.append_assoc]

/-- over-long headers, oversized payloads and missing terminators end in the documented close -/
theorem C10_documented_errors (cap maxPayload : Nat) (hdr : List Byte → Hdr) (fuel : Nat) (r : List Byte) :
    (findLF (r.take cap) = none → cap ≤ r.length → spec cap maxPayload hdr (fuel + 1) r = [.closedTooLong]) ∧
    (∀ p n, findLF (r.take cap) = some p → hdr (r.take p) = .payload n → n > maxPayload →
        spec cap maxPayload hdr (fuel + 1) r = [.closedPayloadTooLarge]) ∧
    (∀ p n, findLF (r.take cap) = some p → hdr (r.take p) = .payload n → n ≤ maxPayload →
        n + 1 ≤ (r.drop (p + 1)).length → ((r.drop (p + 1)).drop n).take 1 ≠ [LF] →
        spec cap maxPayload hdr (fuel + 1) r = [.closedBadTerminator]) := by
  refine ⟨?_, ?_, ?_⟩
  · intro h1 h2; simp [spec, h1, h2]
  · intro p n h1 h2 h3; simp [spec, h1, h2, h3]
  · intro p n h1 h2 h3 h4 h5
    have : ¬ n > maxPayload := by omega
    have h4' : ¬ (r.drop (p + 1)).length < n + 1 := by omega
    simp only [spec, h1, h2, this, if_false, h4']
    rw [if_neg h5]

/-- **C10 for a peer that goes silent**: what happens is still independent of the segmentation -/
theorem C10_stall_segmentation_independent (cap maxPayload : Nat) (hdr : List Byte → Hdr)
    (hpos : ∀ l n, hdr l = .payload n → 1 ≤ n) (fuel : Nat)
    (cs cs' : List (List Byte)) (hne : NonEmpty cs) (hne' : NonEmpty cs') (hsame : cs.flatten = cs'.flatten) :
    stallView (frames cap maxPayload hdr fuel init cs) = stallView (frames cap maxPayload hdr fuel init cs') := by
  rw [C10_segmentation_independent cap maxPayload hdr hpos fuel cs cs' hne hne' hsame]

theorem stallView_last (l : List Ev) (e : Ev) (hl : l.getLast? = some e) :
    (e = .closedTruncated → (stallView l).getLast? = some .closedPayloadTimeout) ∧
    (e = .eof → (stallView l).getLast? = some .waiting) ∧
    (e ≠ .closedTruncated → e ≠ .eof → (stallView l).getLast? = some (.ev e)) := by
  induction l with
  | nil => simp at hl
  | cons a as ih =>
    cases as with
    | nil =>
      simp only [List.getLast?_singleton, Option.some.injEq] at hl
      subst hl
      cases a <;> simp [stallView]
    | cons b bs =>
      have hl' : (b :: bs).getLast? = some e := by simpa [List.getLast?_cons_cons] using hl
      obtain ⟨i1, i2, i3⟩ := ih hl'
      have hne : stallView (b :: bs) ≠ [] := by
        cases b <;> cases bs <;> simp [stallView]
      have hs : stallView (a :: b :: bs) = .ev a :: stallView (b :: bs) := by
        cases a <;> simp [stallView]
      rw [hs]
      obtain ⟨x, xs, hx⟩ := List.exists_cons_of_ne_nil hne
      rw [hx] at i1 i2 i3 ⊢
      simp only [List.getLast?_cons_cons]
      exact ⟨i1, i2, i3⟩

/-- **never a hang inside a payload**: if the bytes received so far end inside a payload — its body or its terminating newline
    outstanding — the connection is closed with the payload-read TIMEOUT; only between frames does the reader keep waiting -/
theorem C10_stall_inside_payload_times_out (cap maxPayload : Nat) (hdr : List Byte → Hdr) (fuel : Nat) (r : List Byte)
    (h : (spec cap maxPayload hdr fuel r).getLast? = some .closedTruncated) :
    (stallView (spec cap maxPayload hdr fuel r)).getLast? = some .closedPayloadTimeout :=
  (stallView_last _ _ h).1 rfl

/-- the terminator counts as part of the payload: a header announcing `n` bytes followed by exactly `n` bytes and nothing more
    is *inside* the payload -/
theorem C10_missing_terminator_is_inside_payload (cap maxPayload : Nat) (hdr : List Byte → Hdr) (fuel : Nat)
    (line payload : List Byte) (hline : findLF line = none) (hfit : line.length < cap)
    (hh : hdr line = .payload payload.length) (hle : payload.length ≤ maxPayload) :
    spec cap maxPayload hdr (fuel + 1) (line ++ [LF] ++ payload) = [.closedTruncated] := by
  have hfind : findLF (line ++ [LF]) = some line.length := by
    clear hh hfit
    induction line with
    | nil => simp [findLF]
    | cons b bs ih =>
      simp only [findLF, List.cons_append] at hline ⊢
      split at hline
      · cases hline
      · next hb =>
        simp only [hb, if_false]
        cases hq : findLF bs with
        | none => simp [ih hq]
        | some q => simp [hq] at hline
  have h1 : findLF ((line ++ [LF] ++ payload).take cap) = some line.length :=
    findLF_take _ _ cap (findLF_append_some _ _ _ hfind) hfit
  simp only [spec, h1]
  have htake : (line ++ [LF] ++ payload).take line.length = line := by simp [List.append_assoc]
  have hdrop : (line ++ [LF] ++ payload).drop (line.length + 1) = payload := by
    rw [List.drop_append_of_le_length (by simp)]
    simp
  rw [htake, hdrop, hh]
  have hnb : ¬ payload.length > maxPayload := by omega
  simp [hnb]

/-! ### non-vacuity -/
example : NonEmpty [[80, 73], [78, 71, 32, 105, 100, 61, 49, 10]] := by
  intro c hc; simp at hc; rcases hc with rfl | rfl <;> simp

end Narwhal.Reader

#print axioms Narwhal.Reader.frames_eq_spec
#print axioms Narwhal.Reader.C10_segmentation_independent
#print axioms Narwhal.Reader.C10_payload_lengths_accepted
#print axioms Narwhal.Reader.C10_documented_errors
#print axioms Narwhal.Reader.C10_stall_segmentation_independent
#print axioms Narwhal.Reader.C10_stall_inside_payload_times_out
#print axioms Narwhal.Reader.C10_missing_terminator_is_inside_payload
