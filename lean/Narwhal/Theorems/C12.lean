import Narwhal.Lemmas.Emit
/-!
# C12 — every accepted request gets exactly one reply, carrying its own id

For the sequential server model: for every state, every authenticated connection `k` of user `u`,
every request kind and every parameter value (ids, pages, channel strings, NIDs are universally
quantified: no bound), the frames queued to `k` by handling the request contain **exactly one** frame
whose correlation id is the request's id, or else an ERROR that closes `k`; and no frame queued to `k`
carries any other id.  Traffic the request causes on other connections (EVENT, MESSAGE) carries no id.
-/
namespace Narwhal.Server

/-- frames queued to `k` that bear id `i` -/
def repliesTo (k i : Nat) (out : List Emit) : List Emit :=
  out.filter (fun e => e.conn = k && e.frame.corrId == some i)

/-- `k` is sent a closing ERROR -/
def closedWithError (k : Nat) (out : List Emit) : Prop :=
  ∃ e ∈ out, e.conn = k ∧ e.close = true ∧ ∃ id r, e.frame = .error id r

/-- the C12 verdict for one request -/
def Answered (k i : Nat) (out : List Emit) : Prop :=
  (repliesTo k i out).length = 1 ∨ closedWithError k out

/-- no frame to `k` bears an id other than `i` -/
def NoForeignId (k i : Nat) (out : List Emit) : Prop :=
  ∀ e ∈ out, e.conn = k → e.frame.corrId = none ∨ e.frame.corrId = some i

theorem repliesTo_plain {k i : Nat} {l : List Emit} (h : ∀ e ∈ l, e.plainEvent) : repliesTo k i l = [] := by
  unfold repliesTo
  rw [List.filter_eq_nil_iff]
  intro e he
  simp [plain_corrId (h e he)]

theorem repliesTo_append (k i : Nat) (a b : List Emit) : repliesTo k i (a ++ b) = repliesTo k i a ++ repliesTo k i b := by
  simp [repliesTo]

/-- a refusal `(j, r)` is *well-addressed* for request id `i`: it bears the request's id, or it closes -/
def GoodRefusal (i : Nat) (e : Refusal) : Prop := e.1 = some i ∨ (e.1 = none ∧ e.2.recoverable = false)

theorem fail_answered (s : Srv) (k i : Nat) (e : Refusal) (env : Env) (h : GoodRefusal i e) :
    Answered k i (fail s k e.1 e.2 env).2 := by
  unfold fail
  by_cases hr : e.2.recoverable = true
  · simp only [hr, if_true]
    rcases h with h | ⟨_, h⟩
    · left; simp [repliesTo, errFrame, Frame.corrId, h]
    · rw [hr] at h; cases h
  · simp only [hr, if_false]
    right
    exact ⟨_, List.mem_cons_self, rfl, rfl, e.1, e.2, rfl⟩

theorem fail_noForeign (s : Srv) (k i : Nat) (e : Refusal) (env : Env) (h : GoodRefusal i e) :
    NoForeignId k i (fail s k e.1 e.2 env).2 := by
  have hid : (errFrame e.1 e.2).corrId = none ∨ (errFrame e.1 e.2).corrId = some i := by
    rcases h with h | ⟨h, _⟩ <;> simp [errFrame, Frame.corrId, h]
  unfold fail
  split
  · intro x hx _; simp only [List.mem_singleton] at hx; subst hx; exact hid
  · intro x hx _
    simp only [List.mem_cons] at hx
    rcases hx with rfl | hx
    · exact hid
    · exact Or.inl (plain_corrId (dropConn_plain s k env x hx))

theorem reply_answered (s : Srv) (k i : Nat) (f : Frame) (h : f.corrId = some i) : Answered k i (reply s k f).2 := by
  left; simp [reply, repliesTo, h]

theorem reply_noForeign (s : Srv) (k i : Nat) (f : Frame) (h : f.corrId = some i) : NoForeignId k i (reply s k f).2 := by
  intro e he _; simp only [reply, List.mem_singleton] at he; subst he; exact Or.inr h

/-! ### refusals of every handler are well-addressed -/

theorem joinCheck_good {s u i c ob e} (h : joinCheck s u i c ob = .error e) : GoodRefusal i e := by
  unfold joinCheck at h
  repeat' split at h
  all_goals first
    | (cases h; first | exact Or.inl rfl | exact Or.inr ⟨rfl, rfl⟩)
    | cases h

theorem leaveCheck_good {s u i c ob e} (h : leaveCheck s u i c ob = .error e) : GoodRefusal i e := by
  unfold leaveCheck at h
  repeat' split at h
  all_goals first
    | (cases h; first | exact Or.inl rfl | exact Or.inr ⟨rfl, rfl⟩)
    | cases h

theorem broadcastCheck_good {s u i c q p env e} (h : broadcastCheck s u i c q p env = .error e) : GoodRefusal i e := by
  unfold broadcastCheck at h
  repeat' split at h
  all_goals first
    | (cases h; first | exact Or.inl rfl | exact Or.inr ⟨rfl, rfl⟩)
    | cases h

theorem membersCheck_good {s u i c e} (h : membersCheck s u i c = .error e) : GoodRefusal i e := by
  unfold membersCheck at h
  repeat' split at h
  all_goals first
    | (cases h; first | exact Or.inl rfl | exact Or.inr ⟨rfl, rfl⟩)
    | cases h

theorem ownerCheck_good {s u i h' d e} (h : ownerCheck s u i h' d = .error e) : GoodRefusal i e := by
  unfold ownerCheck at h
  repeat' split at h
  all_goals first
    | (cases h; first | exact Or.inl rfl | exact Or.inr ⟨rfl, rfl⟩)
    | cases h

theorem getAclCheck_good {s u i c e} (h : getAclCheck s u i c = .error e) : GoodRefusal i e := by
  unfold getAclCheck at h
  split at h
  · cases h; exact Or.inr ⟨rfl, rfl⟩
  · exact ownerCheck_good h

theorem setAclCheck_good {s u i c t a ns e} (h : setAclCheck s u i c t a ns = .error e) : GoodRefusal i e := by
  unfold setAclCheck at h
  split at h
  · cases h; exact Or.inr ⟨rfl, rfl⟩
  · split at h
    · cases h; exact Or.inr ⟨rfl, rfl⟩
    · split at h
      · next he => cases h; exact ownerCheck_good he
      · split at h
        · cases h; exact Or.inl rfl
        · cases h

theorem getConfigCheck_good {s u i c e} (h : getConfigCheck s u i c = .error e) : GoodRefusal i e := by
  unfold getConfigCheck at h
  repeat' split at h
  all_goals first
    | (cases h; first | exact Or.inl rfl | exact Or.inr ⟨rfl, rfl⟩)
    | cases h

theorem setConfigCheck_good {s u i c mc mp e} (h : setConfigCheck s u i c mc mp = .error e) : GoodRefusal i e := by
  unfold setConfigCheck at h
  split at h
  · cases h; exact Or.inr ⟨rfl, rfl⟩
  · split at h
    · cases h; exact Or.inl rfl
    · split at h
      · cases h; exact Or.inl rfl
      · split at h
        · cases h; exact Or.inl rfl
        · exact ownerCheck_good h

theorem modDirectCheck_good {s i p env e} (h : modDirectCheck s (some i) p env = .error e) : GoodRefusal i e := by
  unfold modDirectCheck at h
  split at h
  · cases h; exact Or.inl rfl
  · split at h
    · cases h; exact Or.inr ⟨rfl, rfl⟩
    · split at h
      · cases h; exact Or.inr ⟨rfl, rfl⟩
      · split at h
        · cases h; exact Or.inr ⟨rfl, rfl⟩
        · simp only at h
          split at h
          · cases h; exact Or.inr ⟨rfl, rfl⟩
          · cases h; exact Or.inl rfl
          · cases h

theorem modDirectCheck_ok {s i p env j} (h : modDirectCheck s (some i) p env = .ok j) : j = i := by
  unfold modDirectCheck at h
  split at h
  · cases h
  · split at h
    · cases h
    · split at h
      · cases h
      · split at h
        · cases h
        · simp only at h
          split at h
          · cases h
          · cases h
          · cases h; rfl

/-! ### the requests that carry an id -/

def Req.id? : Req → Option Nat
  | .join id _ _ | .leave id _ _ | .broadcast id _ _ _ | .members id _ _ _ | .channels id _ _ _
  | .getAcl id _ _ _ _ | .setAcl id _ _ _ _ | .getConfig id _ | .setConfig id _ _ _ => some id
  | .modDirect id _ => id
  | _ => none

theorem events_then_ack_answered {k i : Nat} {evs evs2 : List Emit} {f : Frame}
    (h1 : ∀ e ∈ evs, e.frame.corrId = none) (h2 : ∀ e ∈ evs2, e.frame.corrId = none) (hf : f.corrId = some i) :
    (repliesTo k i (evs ++ [{ conn := k, frame := f }] ++ evs2)).length = 1 := by
  have e1 : repliesTo k i evs = [] := by
    unfold repliesTo; rw [List.filter_eq_nil_iff]; intro e he; simp [h1 e he]
  have e2 : repliesTo k i evs2 = [] := by
    unfold repliesTo; rw [List.filter_eq_nil_iff]; intro e he; simp [h2 e he]
  rw [repliesTo_append, repliesTo_append, e1, e2]
  simp [repliesTo, hf]

theorem routeTo_corrId_none {s us x f} (hf : f.corrId = none) : ∀ e ∈ routeTo s us x f, e.frame.corrId = none := by
  intro e he; rw [(routeTo_mem he).1]; exact hf

/-- **C12, exactly one reply.** -/
theorem C12_one_reply (s : Srv) (k : Nat) (u : Str) (r : Req) (env : Env) (i : Nat) (hi : r.id? = some i) :
    Answered k i (authedStep s k u r env).2 := by
  cases r <;> simp only [Req.id?] at hi <;> try cases hi
  all_goals simp only [authedStep]
  case join c ob =>
    unfold doJoin
    split
    · next e r' he => exact fail_answered s k i (e, r') env (joinCheck_good he)
    · split
      · exact fail_answered s k i (none, .internalServerError) env (Or.inr ⟨rfl, rfl⟩)
      · next h' m' _ _ =>
        left
        have := @events_then_ack_answered k i (joinedEvents s k h' m') [] (.joinAck i c)
          (by unfold joinedEvents; exact routeTo_corrId_none rfl) (by simp) rfl
        simpa using this
  case leave c ob =>
    unfold doLeave
    split
    · next e r' he => exact fail_answered s k i (e, r') env (leaveCheck_good he)
    · next c' m' _ =>
      split
      · exact fail_answered s k i (none, .internalServerError) env (Or.inr ⟨rfl, rfl⟩)
      · unfold leaveTail
        have hrm : ∀ e ∈ (removeMember s c' m' env).2.1, e.frame.corrId = none :=
          fun e he => plain_corrId (removeMember_plain s c' m' env e he)
        split
        · left
          exact events_then_ack_answered (by unfold leftEvents; exact routeTo_corrId_none rfl) (hrm) rfl
        · right
          have : Reason.internalServerError.recoverable = false := rfl
          simp only [fail, this, Bool.false_eq_true, if_false]
          exact ⟨{ conn := k, frame := errFrame none .internalServerError, close := true }, by simp, rfl, rfl, none,
            .internalServerError, rfl⟩
  case broadcast c q p =>
    unfold doBroadcast
    split
    · next e r' he => exact fail_answered s k i (e, r') env (broadcastCheck_good he)
    · split
      · next c' p' _ _ =>
        left
        have := @events_then_ack_answered k i [] (deliveries s k u c c' p') (.broadcastAck i)
          (by simp) (by unfold deliveries; exact routeTo_corrId_none rfl) rfl
        simpa using this
      · next c' p' _ _ =>
        left
        have := @events_then_ack_answered k i (deliveries s k u c c' p') [] (.broadcastAck i)
          (by unfold deliveries; exact routeTo_corrId_none rfl) (by simp) rfl
        simpa using this
  case members c pg sz =>
    unfold doMembers
    split
    · next e r' he => exact fail_answered s k i (e, r') env (membersCheck_good he)
    · exact reply_answered _ _ _ _ rfl
  case channels pg sz o => exact reply_answered _ _ _ _ rfl
  case getAcl c t pg sz =>
    unfold doGetAcl
    split
    · next e r' he => exact fail_answered s k i (e, r') env (getAclCheck_good he)
    · exact reply_answered _ _ _ _ rfl
  case setAcl c t a ns =>
    unfold doSetAcl
    split
    · next e r' he => exact fail_answered s k i (e, r') env (setAclCheck_good he)
    · left; simp [repliesTo, Frame.corrId]
  case getConfig c =>
    unfold doGetConfig
    split
    · next e r' he => exact fail_answered s k i (e, r') env (getConfigCheck_good he)
    · exact reply_answered _ _ _ _ rfl
  case setConfig c mc mp =>
    unfold doSetConfig
    split
    · next e r' he => exact fail_answered s k i (e, r') env (setConfigCheck_good he)
    · left; simp [repliesTo, Frame.corrId]
  case modDirect p =>
    unfold doModDirect
    split
    · next e r' he => exact fail_answered s k i (e, r') env (modDirectCheck_good he)
    · next j hj =>
      have : j = i := modDirectCheck_ok hj
      subst this
      exact reply_answered _ _ _ _ rfl


theorem noForeign_of_parts {k i : Nat} {out : List Emit}
    (h : ∀ e ∈ out, e.frame.corrId = none ∨ e.frame.corrId = some i) : NoForeignId k i out :=
  fun e he _ => h e he

/-- **C12, no foreign id**: nothing queued to the requester while handling request `i` bears another id. -/
theorem C12_no_foreign_id (s : Srv) (k : Nat) (u : Str) (r : Req) (env : Env) (i : Nat) (hi : r.id? = some i) :
    NoForeignId k i (authedStep s k u r env).2 := by
  cases r <;> simp only [Req.id?] at hi <;> try cases hi
  all_goals simp only [authedStep]
  case join c ob =>
    unfold doJoin
    split
    · next e r' he => exact fail_noForeign s k i (e, r') env (joinCheck_good he)
    · split
      · exact fail_noForeign s k i (none, .internalServerError) env (Or.inr ⟨rfl, rfl⟩)
      · apply noForeign_of_parts
        intro e he
        simp only [List.mem_append, List.mem_singleton] at he
        rcases he with he | rfl
        · unfold joinedEvents at he; exact Or.inl (routeTo_corrId_none rfl e he)
        · exact Or.inr rfl
  case leave c ob =>
    unfold doLeave
    split
    · next e r' he => exact fail_noForeign s k i (e, r') env (leaveCheck_good he)
    · next c' m' _ =>
      split
      · exact fail_noForeign s k i (none, .internalServerError) env (Or.inr ⟨rfl, rfl⟩)
      · unfold leaveTail
        have hrm : ∀ e ∈ (removeMember s c' m' env).2.1, e.frame.corrId = none :=
          fun e he => plain_corrId (removeMember_plain s c' m' env e he)
        have hle : ∀ e ∈ leftEvents s c' m' (some k), e.frame.corrId = none := by
          unfold leftEvents; exact routeTo_corrId_none rfl
        split
        · apply noForeign_of_parts
          intro e he
          simp only [List.mem_append, List.mem_singleton] at he
          rcases he with (he | rfl) | he
          · exact Or.inl (hle e he)
          · exact Or.inr rfl
          · exact Or.inl (hrm e he)
        · intro e he hk
          simp only [List.mem_append, List.mem_singleton] at he
          rcases he with ((he | rfl) | he) | he
          · exact Or.inl (hle e he)
          · exact Or.inr rfl
          · exact Or.inl (hrm e he)
          · exact fail_noForeign _ k i (none, .internalServerError) env (Or.inr ⟨rfl, rfl⟩) e he hk
  case broadcast c q p =>
    unfold doBroadcast
    split
    · next e r' he => exact fail_noForeign s k i (e, r') env (broadcastCheck_good he)
    · next c' p' _ =>
      have hd : ∀ e ∈ deliveries s k u c c' p', e.frame.corrId = none := by
        unfold deliveries; exact routeTo_corrId_none rfl
      split
      · apply noForeign_of_parts
        intro e he
        simp only [List.mem_cons] at he
        rcases he with rfl | he
        · exact Or.inr rfl
        · exact Or.inl (hd e he)
      · apply noForeign_of_parts
        intro e he
        simp only [List.mem_append, List.mem_singleton] at he
        rcases he with he | rfl
        · exact Or.inl (hd e he)
        · exact Or.inr rfl
  case members c pg sz =>
    unfold doMembers
    split
    · next e r' he => exact fail_noForeign s k i (e, r') env (membersCheck_good he)
    · exact reply_noForeign _ _ _ _ rfl
  case channels pg sz o => exact reply_noForeign _ _ _ _ rfl
  case getAcl c t pg sz =>
    unfold doGetAcl
    split
    · next e r' he => exact fail_noForeign s k i (e, r') env (getAclCheck_good he)
    · exact reply_noForeign _ _ _ _ rfl
  case setAcl c t a ns =>
    unfold doSetAcl
    split
    · next e r' he => exact fail_noForeign s k i (e, r') env (setAclCheck_good he)
    · intro e he _; simp only [List.mem_singleton] at he; subst he; exact Or.inr rfl
  case getConfig c =>
    unfold doGetConfig
    split
    · next e r' he => exact fail_noForeign s k i (e, r') env (getConfigCheck_good he)
    · exact reply_noForeign _ _ _ _ rfl
  case setConfig c mc mp =>
    unfold doSetConfig
    split
    · next e r' he => exact fail_noForeign s k i (e, r') env (setConfigCheck_good he)
    · intro e he _; simp only [List.mem_singleton] at he; subst he; exact Or.inr rfl
  case modDirect p =>
    unfold doModDirect
    split
    · next e r' he => exact fail_noForeign s k i (e, r') env (modDirectCheck_good he)
    · next j hj =>
      have : j = i := modDirectCheck_ok hj
      subst this
      exact reply_noForeign _ _ _ _ rfl

/-- a request without an id (unknown or out-of-phase kinds, id-less MOD_DIRECT) closes the connection -/
theorem C12_idless_closes (s : Srv) (k : Nat) (u : Str) (env : Env) :
    closedWithError k (authedStep s k u .other env).2 ∧ closedWithError k (authedStep s k u .malformed env).2 := by
  have hr : Reason.unexpectedMessage.recoverable = false := rfl
  constructor
  · simp only [authedStep, fail, hr, Bool.false_eq_true, if_false]
    exact ⟨_, List.mem_cons_self, rfl, rfl, none, _, rfl⟩
  · simp only [authedStep, fail, hr, Bool.false_eq_true, if_false]
    exact ⟨_, List.mem_cons_self, rfl, rfl, none, _, rfl⟩

/-! ### non-vacuity: a concrete reachable state and request meeting the hypotheses -/
def exDom : Str := ['l','o','c','a','l','h','o','s','t']
def exC1 : Str := ['!','c','1','@','l','o','c','a','l','h','o','s','t']
def exAlice : Str := ['a','l','i','c','e']
def exBob : Str := ['b','o','b']
def exCfgC12 : Cfg :=
  { domain := exDom
    maxChannels := 4
    maxClients := 3
    maxSubs := 2
    maxPayload := 64
    authRequired := false
    hasMod := false
    fwdEvent := false
    sendPrivate := false
    keepAlive := 60000
    minKeepAlive := 1000
    maxMessage := 4096
    maxInflight := 10
    appProtocol := none }

def exHistoryC12 : List (Op × Env) :=
  [(.open_ 1, {}), (.recv 1 (.connect 1 0), {}), (.recv 1 (.identify exAlice), {}),
   (.open_ 2, {}), (.recv 2 (.connect 1 0), {}), (.recv 2 (.identify exBob), {}),
   (.recv 1 (.join 7 exC1 none), {}), (.recv 2 (.join 8 exC1 none), {})]

/-- a 2-member channel exists after the history, and MEMBERS page=0 page_size=u32::MAX gets one reply -/
example : (repliesTo 2 9 (step (run (init exCfgC12) exHistoryC12).1 (.recv 2 (.members 9 exC1 (some 0) (some 4294967295))) {}).2).length = 1 := by
  decide +kernel

/-! ## replies that do not fit `max_message_size` (common/src/conn.rs `serialize_message_inner`) -/

/-- what the connection loop writes for a queued frame: a frame that does not fit the message buffer and bears an id is replaced by
    `ERROR RESPONSE_TOO_LARGE` with that id; one without an id cannot be written at all (the write fails and the connection ends) -/
def fitOrReplace (fits : Frame → Bool) (f : Frame) : Option Frame :=
  if fits f then some f
  else match f.corrId with
    | some i => some (.error (some i) .responseTooLarge)
    | none => none

def substEmit (fits : Frame → Bool) (e : Emit) : Emit := { e with frame := (fitOrReplace fits e.frame).getD e.frame }

def substOut (fits : Frame → Bool) (out : List Emit) : List Emit := out.map (substEmit fits)

theorem fitOrReplace_corrId {fits : Frame → Bool} {f g : Frame} (h : fitOrReplace fits f = some g) : g.corrId = f.corrId := by
  unfold fitOrReplace at h
  split at h
  · cases h; rfl
  · split at h
    · next i hi => cases h; rw [hi]; rfl
    · cases h

theorem fitOrReplace_error {fits : Frame → Bool} {f g : Frame} (h : fitOrReplace fits f = some g) (id : Option Nat) (r : Reason)
    (hf : f = .error id r) : ∃ id' r', g = .error id' r' := by
  unfold fitOrReplace at h
  split at h
  · cases h; exact ⟨id, r, hf⟩
  · split at h
    · cases h; exact ⟨_, _, rfl⟩
    · cases h

theorem substEmit_corrId (fits : Frame → Bool) (e : Emit) : (substEmit fits e).frame.corrId = e.frame.corrId := by
  unfold substEmit
  cases hg : fitOrReplace fits e.frame with
  | none => rfl
  | some g => exact fitOrReplace_corrId hg

/-- **C12 under the size limit**: replacing oversized replies keeps the verdict — still exactly one frame with the request's id
    (the reply or `RESPONSE_TOO_LARGE` in its place), or the closing ERROR -/
theorem C12_substitution_keeps_answer (fits : Frame → Bool) (k i : Nat) (out : List Emit)
    (hw : ∀ e ∈ out, (fitOrReplace fits e.frame).isSome) (h : Answered k i out) :
    Answered k i (substOut fits out) := by
  rcases h with h | ⟨e, he, hk, hc, id, r, hf⟩
  · left
    have : (repliesTo k i (substOut fits out)).length = (repliesTo k i out).length := by
      unfold repliesTo substOut
      rw [List.filter_map, List.length_map]
      congr 1
      apply List.filter_congr
      intro e _
      simp only [Function.comp, substEmit_corrId]
      rfl
    rw [this]; exact h
  · right
    obtain ⟨g, hg⟩ := Option.isSome_iff_exists.mp (hw e he)
    obtain ⟨id', r', hg'⟩ := fitOrReplace_error hg id r hf
    refine ⟨substEmit fits e, List.mem_map.mpr ⟨e, he, rfl⟩, hk, hc, id', r', ?_⟩
    simp [substEmit, hg, hg']

/-- … and still no frame with a foreign id -/
theorem C12_substitution_no_foreign_id (fits : Frame → Bool) (k i : Nat) (out : List Emit) (h : NoForeignId k i out) :
    NoForeignId k i (substOut fits out) := by
  intro e' he' hk'
  unfold substOut at he'
  obtain ⟨e, he, rfl⟩ := List.mem_map.mp he'
  rw [substEmit_corrId]
  exact h e he hk'

end Narwhal.Server

#print axioms Narwhal.Server.C12_one_reply
#print axioms Narwhal.Server.C12_no_foreign_id
#print axioms Narwhal.Server.C12_idless_closes
#print axioms Narwhal.Server.C12_substitution_keeps_answer
#print axioms Narwhal.Server.C12_substitution_no_foreign_id
