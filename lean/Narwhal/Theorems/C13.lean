import Narwhal.Model.Sched
/-!
# C13 — no sequence of requests can wedge a worker (lock discipline ⇒ progress)

For **every** set of handler programs that respect the discipline `wf` (checked for the programs extracted from the
current source in `Narwhal.Theorems.C13Table`), every interleaving chosen by the scheduler, every outcome and delay of
every modulator call and every cancellation:

* `C13_discipline_invariant` — every task of every reachable state still respects the discipline;
* `C13_no_wedge` — whenever no task is waiting for the modulator and some task is unfinished, some task can run:
  there is no state in which tasks only wait for each other;
* `C13_holder_can_run` — more precisely, the holder of any lock another task waits for is itself runnable or waiting
  for the modulator, never waiting for a lock;
* `C13_cancel_frees` / `C13_abort_frees` — a task that times out, is cancelled or fails holds nothing afterwards, so
  a failed or timed-out request cannot keep others out;
* `C13_run_decreases` — every scheduled action shortens the remaining work: no task runs forever.
-/
namespace Narwhal.Sched

def AllOk (s : St) : Prop := ∀ t ∈ s, t.ok

theorem advance_ok (t : Task) (h : t.ok) : (advance t).ok := by
  unfold Task.ok at *
  unfold advance
  cases hp : t.prog with
  | nil => simpa [hp] using h
  | cons a p =>
    rw [hp] at h
    cases a with
    | acquire l =>
      simp only [wf, Bool.and_eq_true, List.isEmpty_iff] at h
      simp [h.1, h.2]
    | release l =>
      simp only [wf, Bool.and_eq_true] at h
      simpa using h.2
    | call => simpa [wf] using h
    | step => simpa [wf] using h

theorem abort_ok (t : Task) : (abort t).ok := by simp [Task.ok, abort, wf]

theorem mem_modify {s : St} {i : Nat} {f : Task → Task} {t' : Task} (h : t' ∈ modify s i f) :
    t' ∈ s ∨ ∃ t ∈ s, t' = f t := by
  unfold modify at h
  rw [List.mem_mapIdx] at h
  obtain ⟨j, hj, rfl⟩ := h
  split
  · exact Or.inr ⟨s[j], List.getElem_mem hj, rfl⟩
  · exact Or.inl (List.getElem_mem hj)

theorem modify_ok {s : St} (hs : AllOk s) (i : Nat) (f : Task → Task) (hf : ∀ t, t.ok → (f t).ok) : AllOk (modify s i f) := by
  intro t' ht'
  rcases mem_modify ht' with h | ⟨t, ht, rfl⟩
  · exact hs t' h
  · exact hf t (hs t ht)

theorem next_ok (s : St) (e : Ev) (hs : AllOk s) : AllOk (next s e) := by
  cases e with
  | run i =>
    simp only [next]
    split
    · split
      · split
        · exact modify_ok hs i advance advance_ok
        · exact hs
      · split
        · exact modify_ok hs i advance advance_ok
        · exact hs
    · exact hs
  | answer i ok =>
    simp only [next]
    split
    · split
      · refine modify_ok hs i _ ?_
        intro t ht
        split
        · exact ht
        · exact abort_ok t
      · exact hs
    · exact hs
  | cancel i => exact modify_ok hs i abort (fun t _ => abort_ok t)
  | spawn p =>
    simp only [next]
    split
    · next hp =>
      intro t ht
      rcases List.mem_append.mp ht with h | h
      · exact hs t h
      · simp only [List.mem_singleton] at h; subst h; exact hp
    · exact hs

/-- **discipline is invariant**: every task of every reachable state respects it -/
theorem C13_discipline_invariant (evs : List Ev) (s : St) (hs : AllOk s) : AllOk (run s evs) := by
  induction evs generalizing s with
  | nil => exact hs
  | cons e es ih => exact ih _ (next_ok s e hs)

theorem reachable_ok (evs : List Ev) : AllOk (run [] evs) :=
  C13_discipline_invariant evs [] (by intro t ht; cases ht)

/-- a disciplined task that holds a lock has work left, and that work does not start with an `acquire` -/
theorem holder_not_blocked (t : Task) (h : t.ok) (hh : t.held ≠ []) :
    ∃ a p, t.prog = a :: p ∧ ∀ l, a ≠ .acquire l := by
  unfold Task.ok at h
  cases hp : t.prog with
  | nil =>
    rw [hp] at h
    simp only [wf, List.isEmpty_iff] at h
    exact absurd h hh
  | cons a p =>
    refine ⟨a, p, rfl, ?_⟩
    intro l ha
    subst ha
    rw [hp] at h
    simp only [wf, Bool.and_eq_true, List.isEmpty_iff] at h
    exact hh h.1

/-- **the holder of a contended lock can run**: if `l` is held, its holder is waiting for the modulator or has an
    enabled action — it never waits for a lock itself -/
theorem C13_holder_can_run (s : St) (hs : AllOk s) (u : Task) (hu : u ∈ s) (l : Nat) (hl : l ∈ u.held) :
    u.waiting = true ∨ enabled s u := by
  cases hw : u.waiting with
  | true => exact Or.inl rfl
  | false =>
    right
    obtain ⟨a, p, hp, hna⟩ := holder_not_blocked u (hs u hu) (by intro h; rw [h] at hl; cases hl)
    refine ⟨hw, ?_⟩
    rw [hp]
    cases a with
    | acquire l' => exact absurd rfl (hna l')
    | release _ => trivial
    | call => trivial
    | step => trivial

/-- **no wedge**: when no task is waiting for the modulator and some task is unfinished, some task can run -/
theorem C13_no_wedge (evs : List Ev) (t : Task) (ht : t ∈ run [] evs) (hunf : t.prog ≠ [])
    (hquiet : ∀ u ∈ run [] evs, u.waiting = false) : ∃ u ∈ run [] evs, enabled (run [] evs) u := by
  have hs := reachable_ok evs
  cases hp : t.prog with
  | nil => exact absurd hp hunf
  | cons a p =>
    cases a with
    | acquire l =>
      by_cases hfree : lockFree (run [] evs) l
      · exact ⟨t, ht, hquiet t ht, by rw [hp]; exact hfree⟩
      · unfold lockFree at hfree
        have : ∃ u ∈ run [] evs, l ∈ u.held := by
          apply Classical.byContradiction
          intro hno
          apply hfree
          intro u hu hl
          exact hno ⟨u, hu, hl⟩
        obtain ⟨u, hu, hl⟩ := this
        rcases C13_holder_can_run _ hs u hu l hl with hw | he
        · rw [hquiet u hu] at hw; cases hw
        · exact ⟨u, hu, he⟩
    | release l => exact ⟨t, ht, hquiet t ht, by rw [hp]; trivial⟩
    | call => exact ⟨t, ht, hquiet t ht, by rw [hp]; trivial⟩
    | step => exact ⟨t, ht, hquiet t ht, by rw [hp]; trivial⟩

/-- a cancelled / timed-out / failed task holds no lock and has nothing left to do: it cannot keep anybody out -/
theorem C13_abort_frees (t : Task) : (abort t).held = [] ∧ (abort t).prog = [] ∧ (abort t).waiting = false := ⟨rfl, rfl, rfl⟩

theorem C13_cancel_frees (s : St) (i : Nat) (t' : Task) (h : (next s (.cancel i))[i]? = some t') : t'.held = [] ∧ t'.prog = [] := by
  simp only [next, modify] at h
  rw [List.getElem?_mapIdx] at h
  cases hs : s[i]? with
  | none => simp [hs] at h
  | some t => simp [hs] at h; subst h; exact ⟨rfl, rfl⟩

/-- every action a task takes shortens what it has left: a scheduled task cannot run forever -/
theorem C13_run_decreases (t : Task) (h : t.prog ≠ []) : (advance t).prog.length < t.prog.length := by
  unfold advance
  cases hp : t.prog with
  | nil => exact absurd hp h
  | cons a p => cases a <;> simp

/-! ## non-vacuity: JOIN-shaped and LEAVE-shaped programs, contended, one answered with an error -/

def joinLike : Prog := [.acquire 0, .release 0, .step, .acquire 1, .step, .call, .release 1, .step]
def leaveLike : Prog := [.acquire 0, .release 0, .acquire 1, .call, .step, .release 1]

example : wf [] joinLike = true ∧ wf [] leaveLike = true := by decide

example :
    let s := run [] [.spawn joinLike, .spawn leaveLike, .run 0, .run 0, .run 0, .run 0, .run 0, .run 0, .run 1, .run 1, .run 1]
    -- task 0 is inside its modulator call holding lock 1, task 1 waits for lock 1
    (s.map (fun t => (t.held, t.waiting, t.prog.length))) = [([1], true, 2), ([], false, 4)] := by decide

#print axioms C13_discipline_invariant
#print axioms C13_no_wedge
#print axioms C13_holder_can_run
#print axioms C13_abort_frees
#print axioms C13_cancel_frees
#print axioms C13_run_decreases

end Narwhal.Sched
