import Narwhal.Model.Timers
/-!
# C20 — deadlines, keep-alive and shutdown behave as negotiated

Theorems about the timed automaton of `Narwhal/Model/Timers.lean`, for every configuration with positive timeouts and
`min ≤ max` keep-alive bounds, every requested heartbeat value, every event list (every timing of client activity
relative to the expiries, every PONG behaviour) and every connection state at the moment of shutdown.
-/
set_option linter.unusedSimpArgs false
namespace Narwhal.Timers
open Narwhal.Generated

/-! ## Table obligations (regenerated from the source on every run) -/

/-- what the keep-alive / deadline code of `common/src/conn.rs` must look like for the model to describe it -/
theorem timers_table_ok :
    pingTimeoutFactor = 3 ∧ rearmOnlyOnStateChange = true ∧ connectedArmsAuthTimeout = true ∧ authedStartsPingLoop = true ∧
    pongHandlerNonBlocking = true ∧ pingSleepRelative = true ∧ pongWaitRelative = true := by decide

/-- the property's reading of "clamped": 0 = no preference = the configured interval (the maximum) -/
def ClampSpec (f : Nat → Nat → Nat → Nat) : Prop :=
  ∀ ka mn req, mn ≤ ka →
    (req = 0 → f ka mn req = ka) ∧ (0 < req → req < mn → f ka mn req = mn) ∧
    (mn ≤ req → req ≤ ka → 0 < req → f ka mn req = req) ∧ (ka < req → f ka mn req = ka)

theorem clampC2s_spec : ClampSpec clampC2s := by
  intro ka mn req h
  unfold clampC2s
  refine ⟨?_, ?_, ?_, ?_⟩ <;> intros <;> (repeat' split) <;> omega

theorem clampS2m_spec : ClampSpec clampS2m := by
  intro ka mn req h
  unfold clampS2m
  refine ⟨?_, ?_, ?_, ?_⟩ <;> intros <;> (repeat' split) <;> omega

theorem clampM2s_spec : ClampSpec clampM2s := by
  intro ka mn req h
  unfold clampM2s
  refine ⟨?_, ?_, ?_, ?_⟩ <;> intros <;> (repeat' split) <;> omega

/-- configurations the theorems are about: positive deadlines, `0 < min ≤ max` -/
def Cfg.Pos (c : Cfg) : Prop := 0 < c.connectTimeout ∧ 0 < c.authTimeout ∧ 0 < c.minKeepAlive ∧ c.minKeepAlive ≤ c.keepAlive

theorem clamp_spec (c : Cfg) (h : c.minKeepAlive ≤ c.keepAlive) (req : Nat) :
    (req = 0 → c.clamp req = c.keepAlive) ∧ (0 < req → req < c.minKeepAlive → c.clamp req = c.minKeepAlive) ∧
    (c.minKeepAlive ≤ req → req ≤ c.keepAlive → 0 < req → c.clamp req = req) ∧ (c.keepAlive < req → c.clamp req = c.keepAlive) := by
  unfold Cfg.clamp
  cases c.link
  · exact clampC2s_spec _ _ req h
  · exact clampS2m_spec _ _ req h
  · exact clampM2s_spec _ _ req h

/-- **C20 (negotiation)**: the announced interval lies within the configured bounds, is the requested one when that
    lies within them, and is the nearer bound otherwise (0 = no preference = the maximum), for all three link types. -/
theorem C20_clamp (c : Cfg) (h : c.minKeepAlive ≤ c.keepAlive) (req : Nat) :
    c.minKeepAlive ≤ c.clamp req ∧ c.clamp req ≤ c.keepAlive ∧
    (c.minKeepAlive ≤ req → req ≤ c.keepAlive → 0 < req → c.clamp req = req) ∧
    (c.keepAlive < req → c.clamp req = c.keepAlive) ∧ (0 < req → req < c.minKeepAlive → c.clamp req = c.minKeepAlive) ∧
    (req = 0 → c.clamp req = c.keepAlive) := by
  obtain ⟨h0, h1, h2, h3⟩ := clamp_spec c h req
  refine ⟨?_, ?_, h2, h3, h1, h0⟩
  · by_cases hz : req = 0
    · rw [h0 hz]; exact h
    · by_cases hl : req < c.minKeepAlive
      · rw [h1 (by omega) hl]; exact Nat.le_refl _
      · by_cases hg : c.keepAlive < req
        · rw [h3 hg]; exact h
        · rw [h2 (by omega) (by omega) (by omega)]; omega
  · by_cases hz : req = 0
    · rw [h0 hz]; exact Nat.le_refl _
    · by_cases hl : req < c.minKeepAlive
      · rw [h1 (by omega) hl]; exact h
      · by_cases hg : c.keepAlive < req
        · rw [h3 hg]; exact Nat.le_refl _
        · rw [h2 (by omega) (by omega) (by omega)]; omega

theorem clamp_pos (c : Cfg) (h : c.Pos) (req : Nat) : 0 < c.clamp req := by
  have := (C20_clamp c h.2.2.2 req).1
  have := h.2.2.1
  omega

/-! ## The timing invariant -/

/-- what an open connection's scheduled task looks like in each phase -/
def Shape (s : St) : Prop :=
  s.closed = false →
  match s.phase, s.task with
  | .connecting, .deadline d r => d = s.opened + s.cfg.connectTimeout ∧ r = .timeoutConnect ∧ s.now < d
  | .connected iv, .deadline d r => 0 < iv ∧ d = s.phaseAt + s.cfg.authTimeout ∧ r = .timeoutAuth ∧ s.now < d
  | .authed iv, .sleeping w last =>
      0 < iv ∧ s.now < w ∧ w ≤ s.now + iv ∧ last ≤ s.activity ∧ s.lastAct ≤ s.now ∧
      (s.activity = last → s.lastAct + iv ≤ w ∧ w ≤ s.lastAct + 2 * iv) ∧ (s.activity ≠ last → w ≤ s.lastAct + iv)
  | .authed iv, .waiting n dl =>
      0 < iv ∧ dl = s.pingAt + pingTimeoutFactor * iv ∧ s.now < dl ∧ s.pingAt ≤ s.now ∧ n = s.pings ∧ 0 < n ∧
      s.slot = none ∧ s.lastAct ≤ s.now
  | _, _ => False

theorem step_cfg (s : St) (e : Ev) : (step s e).cfg = s.cfg := by
  unfold step
  split
  · rfl
  · cases e <;> simp only [fire, closeWith, startPing] <;> (repeat' split) <;> rfl

theorem shape_init (c : Cfg) (t0 : Nat) (h : c.Pos) : Shape (init c t0) := by
  have := h.1
  unfold Shape init
  simp
  omega

end Narwhal.Timers

namespace Narwhal.Timers
open Narwhal.Generated

theorem shape_step (s : St) (e : Ev) (hp : s.cfg.Pos) (h : Shape s) : Shape (step s e) := by
  by_cases hc : s.closed = true
  · simp only [step, hc, if_true]; exact h
  · have hc' : s.closed = false := by simpa using hc
    have hs := h hc'
    have hcl := clamp_pos s.cfg hp
    have h3 : pingTimeoutFactor = 3 := rfl
    obtain ⟨hp1, hp2, hp3, hp4⟩ := hp
    clear h hc
    obtain ⟨cfg, now, phase, task, activity, slot, pings, closed, out, opened, phaseAt, lastAct, pingAt⟩ := s
    simp only at hc' hs hp1 hp2 hp3 hp4 hcl
    subst hc'
    cases e with
    | connect req =>
      have hq := hcl req
      cases phase <;> cases task <;>
        simp [Shape, step, fire, closeWith, startPing, due, Cfg.twoPhase] at hs ⊢
      split <;> simp <;> omega
    | _ =>
      cases phase <;> cases task <;>
        simp [Shape, step, fire, closeWith, startPing, due, Cfg.twoPhase] at hs ⊢
      all_goals (repeat' split)
      all_goals (try simp at *)
      all_goals (try omega)
      all_goals (try grind)

end Narwhal.Timers

namespace Narwhal.Timers
open Narwhal.Generated

/-! ## What the frames written so far say about the state -/

def OutInv (s : St) : Prop :=
  -- an ERROR is always the end
  (∀ t r, (t, Frame.error r) ∈ s.out → s.closed = true) ∧
  -- a CONNECT acknowledgement exists exactly when the connect phase was completed, and announces a negotiated value
  ((∃ t hb, (t, Frame.ack hb) ∈ s.out) ↔ s.phase ≠ .connecting) ∧
  (∀ iv, s.phase = .connected iv → (s.phaseAt, Frame.ack iv) ∈ s.out) ∧
  (∀ t hb, (t, Frame.ack hb) ∈ s.out → ∃ req, hb = s.cfg.clamp req) ∧
  -- authentication was acknowledged only to a connection that is authenticated
  ((∃ t, (t, Frame.authOk) ∈ s.out) → ∃ iv, s.phase = .authed iv) ∧
  -- each kind of TIMEOUT names its phase and its instant
  (∀ t, (t, Frame.error .timeoutConnect) ∈ s.out → s.phase = .connecting ∧ t = s.opened + s.cfg.connectTimeout) ∧
  (∀ t, (t, Frame.error .timeoutAuth) ∈ s.out → ∃ iv, s.phase = .connected iv ∧ t = s.phaseAt + s.cfg.authTimeout) ∧
  (∀ t, (t, Frame.error .timeoutPing) ∈ s.out →
      ∃ iv, s.phase = .authed iv ∧ t = s.pingAt + 3 * iv ∧ 0 < s.pings ∧ (s.pingAt, Frame.ping s.pings) ∈ s.out) ∧
  -- the outstanding PING is on the wire
  (∀ n dl, s.closed = false → s.task = .waiting n dl → (s.pingAt, Frame.ping n) ∈ s.out)

theorem outInv_init (c : Cfg) (t0 : Nat) : OutInv (init c t0) := by
  simp [OutInv, init]

theorem outInv_step (s : St) (e : Ev) (hs : Shape s) (h : OutInv s) : OutInv (step s e) := by
  by_cases hc : s.closed = true
  · simp only [step, hc, if_true]; exact h
  · have hc' : s.closed = false := by simpa using hc
    have hsh := hs hc'
    have h3 : pingTimeoutFactor = 3 := rfl
    obtain ⟨h1, h2, h3', h4, h5, h6, h7, h8, h9⟩ := h
    clear hs hc
    obtain ⟨cfg, now, phase, task, activity, slot, pings, closed, out, opened, phaseAt, lastAct, pingAt⟩ := s
    simp only at hc' hsh h1 h2 h3' h4 h5 h6 h7 h8 h9
    subst hc'
    have noerr : ∀ t r, (t, Frame.error r) ∉ out := by
      intro t r hm
      have := h1 t r hm
      simp at this
    cases e <;> cases phase <;> cases task <;>
      simp [Shape, OutInv, step, fire, closeWith, startPing, due, Cfg.twoPhase, List.mem_append] at hsh ⊢
    all_goals (repeat' split)
    all_goals (try simp [List.mem_append] at *)
    all_goals (try grind)

end Narwhal.Timers

namespace Narwhal.Timers
open Narwhal.Generated

/-! ## Reading the invariant -/

theorem shape_connecting (s : St) (h : Shape s) (hc : s.closed = false) (hph : s.phase = .connecting) :
    s.task = .deadline (s.opened + s.cfg.connectTimeout) .timeoutConnect ∧ s.now < s.opened + s.cfg.connectTimeout := by
  have := h hc
  obtain ⟨cfg, now, phase, task, activity, slot, pings, closed, out, opened, phaseAt, lastAct, pingAt⟩ := s
  simp only at hph hc this ⊢
  subst hph
  cases task <;> simp at this ⊢
  obtain ⟨rfl, rfl, h3⟩ := this
  exact ⟨⟨rfl, rfl⟩, h3⟩

theorem shape_connected (s : St) (h : Shape s) (hc : s.closed = false) (iv : Nat) (hph : s.phase = .connected iv) :
    s.task = .deadline (s.phaseAt + s.cfg.authTimeout) .timeoutAuth ∧ s.now < s.phaseAt + s.cfg.authTimeout ∧ 0 < iv := by
  have := h hc
  obtain ⟨cfg, now, phase, task, activity, slot, pings, closed, out, opened, phaseAt, lastAct, pingAt⟩ := s
  simp only at hph hc this ⊢
  subst hph
  cases task <;> simp at this ⊢
  obtain ⟨h0, rfl, rfl, h3⟩ := this
  exact ⟨⟨rfl, rfl⟩, h3, h0⟩

/-- the keep-alive loop of an open authenticated connection is asleep or waiting for a PONG -/
theorem shape_authed (s : St) (h : Shape s) (hc : s.closed = false) (iv : Nat) (hph : s.phase = .authed iv) :
    0 < iv ∧ s.lastAct ≤ s.now ∧
    ((∃ w last, s.task = .sleeping w last ∧ s.now < w ∧ w ≤ s.now + iv ∧ last ≤ s.activity ∧
        (s.activity = last → s.lastAct + iv ≤ w ∧ w ≤ s.lastAct + 2 * iv) ∧ (s.activity ≠ last → w ≤ s.lastAct + iv)) ∨
     (∃ n dl, s.task = .waiting n dl ∧ dl = s.pingAt + 3 * iv ∧ s.now < dl ∧ s.pingAt ≤ s.now ∧ n = s.pings ∧ 0 < n ∧
        s.slot = none)) := by
  have := h hc
  have h3 : pingTimeoutFactor = 3 := rfl
  obtain ⟨cfg, now, phase, task, activity, slot, pings, closed, out, opened, phaseAt, lastAct, pingAt⟩ := s
  simp only at hph hc this ⊢
  subst hph
  cases task <;> simp [h3] at this ⊢
  · grind
  · grind

/-! ## Every reachable state -/

theorem run_cfg (s : St) (evs : List Ev) : (run s evs).cfg = s.cfg := by
  induction evs generalizing s with
  | nil => rfl
  | cons e es ih => simp only [run, List.foldl_cons] at ih ⊢; rw [ih, step_cfg]

theorem run_inv (s : St) (evs : List Ev) (hp : s.cfg.Pos) (h1 : Shape s) (h2 : OutInv s) :
    Shape (run s evs) ∧ OutInv (run s evs) := by
  induction evs generalizing s with
  | nil => exact ⟨h1, h2⟩
  | cons e es ih =>
    simp only [run, List.foldl_cons]
    exact ih (step s e) (by rw [step_cfg]; exact hp) (shape_step s e hp h1) (outInv_step s e h1 h2)

theorem reachable_inv (c : Cfg) (t0 : Nat) (hp : c.Pos) (evs : List Ev) :
    Shape (run (init c t0) evs) ∧ OutInv (run (init c t0) evs) :=
  run_inv (init c t0) evs hp (shape_init c t0 hp) (outInv_init c t0)

theorem run_opened (s : St) (evs : List Ev) : (run s evs).opened = s.opened := by
  induction evs generalizing s with
  | nil => rfl
  | cons e es ih =>
    simp only [run, List.foldl_cons] at ih ⊢
    rw [ih]
    unfold step
    split
    · rfl
    · cases e <;> simp only [fire, closeWith, startPing] <;> (repeat' split) <;> rfl

/-- the states a connection opened at `t0` can be in -/
def Reach (c : Cfg) (t0 : Nat) (s : St) : Prop := ∃ evs, s = run (init c t0) evs

/-! ## Deadlines -/

/-- **C20 (connect deadline, fires)**: a connection that has not completed CONNECT is never open at or after
    `opened + connect_timeout`; **(does not fire otherwise)**: a TIMEOUT for the connect phase is written only at exactly
    that instant and only to a connection that never got a CONNECT acknowledgement. -/
theorem C20_connect_deadline (c : Cfg) (t0 : Nat) (hp : c.Pos) (s : St) (hr : Reach c t0 s) :
    (s.closed = false → s.phase = .connecting → s.now < t0 + c.connectTimeout) ∧
    (∀ t, (t, Frame.error .timeoutConnect) ∈ s.out →
        t = t0 + c.connectTimeout ∧ ∀ t' hb, (t', Frame.ack hb) ∉ s.out) := by
  obtain ⟨evs, rfl⟩ := hr
  obtain ⟨hsh, ho⟩ := reachable_inv c t0 hp evs
  have hcfg : (run (init c t0) evs).cfg = c := run_cfg _ _
  have hop : (run (init c t0) evs).opened = t0 := run_opened _ _
  refine ⟨?_, ?_⟩
  · intro hc hph
    have := (shape_connecting _ hsh hc hph).2
    rw [hcfg, hop] at this
    exact this
  · intro t ht
    obtain ⟨_, hack, _, _, _, h6, _⟩ := ho
    obtain ⟨hph, htt⟩ := h6 t ht
    refine ⟨by rw [htt, hop, hcfg], ?_⟩
    intro t' hb hm
    exact (hack.mp ⟨t', hb, hm⟩) hph

/-- **C20 (authenticate deadline)**: a connected, unauthenticated connection is never open at or after the instant
    `authenticate_timeout` after its CONNECT acknowledgement — whatever authentication attempts it made meanwhile —
    and a TIMEOUT for the authentication phase is written only at exactly that instant, only to a connection that was never
    told it is authenticated. -/
theorem C20_auth_deadline (c : Cfg) (t0 : Nat) (hp : c.Pos) (s : St) (hr : Reach c t0 s) :
    (∀ iv, s.closed = false → s.phase = .connected iv →
        (s.phaseAt, Frame.ack iv) ∈ s.out ∧ s.now < s.phaseAt + c.authTimeout) ∧
    (∀ t, (t, Frame.error .timeoutAuth) ∈ s.out →
        (∃ iv, (s.phaseAt, Frame.ack iv) ∈ s.out) ∧ t = s.phaseAt + c.authTimeout ∧ ∀ t', (t', Frame.authOk) ∉ s.out) := by
  obtain ⟨evs, rfl⟩ := hr
  obtain ⟨hsh, ho⟩ := reachable_inv c t0 hp evs
  have hcfg : (run (init c t0) evs).cfg = c := run_cfg _ _
  obtain ⟨_, _, hackp, _, hauth, _, h7, _⟩ := ho
  refine ⟨?_, ?_⟩
  · intro iv hc hph
    refine ⟨hackp iv hph, ?_⟩
    have := (shape_connected _ hsh hc iv hph).2.1
    rw [hcfg] at this
    exact this
  · intro t ht
    obtain ⟨iv, hph, htt⟩ := h7 t ht
    refine ⟨⟨iv, hackp iv hph⟩, by rw [htt, hcfg], ?_⟩
    intro t' hm
    obtain ⟨iv', hph'⟩ := hauth ⟨t', hm⟩
    rw [hph] at hph'
    cases hph'

/-- **C20 (negotiation, on the wire)**: every CONNECT acknowledgement announces the clamped value of some request. -/
theorem C20_announced_is_clamped (c : Cfg) (t0 : Nat) (hp : c.Pos) (s : St) (hr : Reach c t0 s) (t hb : Nat)
    (h : (t, Frame.ack hb) ∈ s.out) :
    c.minKeepAlive ≤ hb ∧ hb ≤ c.keepAlive ∧ ∃ req, hb = c.clamp req := by
  obtain ⟨evs, rfl⟩ := hr
  obtain ⟨_, ho⟩ := reachable_inv c t0 hp evs
  have hcfg : (run (init c t0) evs).cfg = c := run_cfg _ _
  obtain ⟨req, hreq⟩ := ho.2.2.2.1 t hb h
  rw [hcfg] at hreq
  have := C20_clamp c hp.2.2.2 req
  exact ⟨by rw [hreq]; exact this.1, by rw [hreq]; exact this.2.1, req, hreq⟩

end Narwhal.Timers

namespace Narwhal.Timers
open Narwhal.Generated

/-! ## Keep-alive -/

/-- **C20 (skip ping when active)**: the keep-alive task writes a PING only when the connection's last activity
    (authentication, request, answered PING) is at least one whole interval old. -/
theorem C20_ping_only_when_silent (s : St) (h : Shape s) (iv : Nat) (hc : s.closed = false) (hph : s.phase = .authed iv)
    (hping : (step s .fire).pings = s.pings + 1) : s.lastAct + iv ≤ (step s .fire).now := by
  obtain ⟨hiv, hla, hsl | hw⟩ := shape_authed s h hc iv hph
  · obtain ⟨w, last, ht, h1, h2, h3, h4, h5⟩ := hsl
    obtain ⟨cfg, now, phase, task, activity, slot, pings, closed, out, opened, phaseAt, lastAct, pingAt⟩ := s
    simp only at hph hc ht hla h1 h2 h3 h4 h5 hping ⊢
    subst hph hc ht
    simp only [step, fire] at hping ⊢
    by_cases ha : activity = last
    · cases slot <;> simp [ha, closeWith] at hping ⊢ <;> exact (h4 ha).1
    · simp [ha] at hping
  · obtain ⟨n, dl, ht, _⟩ := hw
    obtain ⟨cfg, now, phase, task, activity, slot, pings, closed, out, opened, phaseAt, lastAct, pingAt⟩ := s
    simp only at hph hc ht hping
    subst hph hc ht
    simp [step, fire, closeWith] at hping

/-- **C20 (silent connections are pinged within two intervals)**: from any state of an open authenticated connection
    whose keep-alive task is asleep, if nothing but time happens then by `lastAct + 2·interval` a PING has been written —
    unless an unsolicited PONG was waiting, in which case the connection has been closed with BAD_REQUEST instead. -/
theorem C20_silent_is_pinged (s : St) (h : Shape s) (iv : Nat) (hc : s.closed = false) (hph : s.phase = .authed iv)
    (w last : Nat) (ht : s.task = .sleeping w last) :
    let s' := advance 2 s (s.lastAct + 2 * iv)
    (∃ t, s.now < t ∧ t ≤ s.lastAct + 2 * iv ∧ (t, Frame.ping (s.pings + 1)) ∈ s'.out) ∨
    (s.slot ≠ none ∧ s'.closed = true ∧ ∃ t, s.now < t ∧ t ≤ s.lastAct + 2 * iv ∧ (t, Frame.error .badRequest) ∈ s'.out) := by
  obtain ⟨hiv, hla, hsl | hw⟩ := shape_authed s h hc iv hph
  · obtain ⟨w', last', ht', h1, h2, h3, h4, h5⟩ := hsl
    rw [ht] at ht'
    cases ht'
    obtain ⟨cfg, now, phase, task, activity, slot, pings, closed, out, opened, phaseAt, lastAct, pingAt⟩ := s
    simp only at hph hc ht hla h1 h2 h3 h4 h5 ⊢
    subst hph hc ht
    by_cases ha : activity = last
    · obtain ⟨h4a, h4b⟩ := h4 ha
      cases slot with
      | none =>
        left
        refine ⟨w, h1, h4b, ?_⟩
        simp [advance, due, fire, step, ha, closeWith, h4b]
        repeat' split
        all_goals simp [List.mem_append]
      | some v =>
        right
        refine ⟨by simp, ?_, w, h1, h4b, ?_⟩ <;> simp [advance, due, fire, step, ha, closeWith, h4b]
    · have h5' := h5 ha
      have hw1 : w ≤ lastAct + 2 * iv := by omega
      have hw2 : w + iv ≤ lastAct + 2 * iv := by omega
      cases slot with
      | none =>
        left
        refine ⟨w + iv, by omega, hw2, ?_⟩
        simp [advance, due, fire, step, ha, closeWith, hw1, hw2]
        repeat' split
        all_goals simp [List.mem_append]
      | some v =>
        right
        refine ⟨by simp, ?_, w + iv, by omega, hw2, ?_⟩ <;> simp [advance, due, fire, step, ha, closeWith, hw1, hw2]
  · obtain ⟨n, dl, ht', _⟩ := hw
    rw [ht] at ht'
    cases ht'

end Narwhal.Timers

namespace Narwhal.Timers
open Narwhal.Generated

/-! ## The PONG rule -/

/-- **C20 (PONG in time)**: while PING `n` is outstanding, a PONG carrying its id keeps the connection open, writes
    nothing, and sends the keep-alive task back to sleep for one interval from now. -/
theorem C20_pong_in_time (s : St) (h : Shape s) (iv : Nat) (hc : s.closed = false) (hph : s.phase = .authed iv)
    (n dl : Nat) (ht : s.task = .waiting n dl) :
    (step s (.pong n)).closed = false ∧ (step s (.pong n)).out = s.out ∧
    (step s (.pong n)).task = .sleeping (s.now + iv) s.activity ∧ s.now < s.pingAt + 3 * iv := by
  obtain ⟨hiv, hla, hsl | hw⟩ := shape_authed s h hc iv hph
  · obtain ⟨w, last, ht', _⟩ := hsl
    rw [ht] at ht'; cases ht'
  · obtain ⟨n', dl', ht', h1, h2, h3, h4, h5, h6⟩ := hw
    rw [ht] at ht'; cases ht'
    obtain ⟨cfg, now, phase, task, activity, slot, pings, closed, out, opened, phaseAt, lastAct, pingAt⟩ := s
    simp only at hph hc ht h1 h2 h3 h4 h5 h6 ⊢
    subst hph hc ht h6
    have h5' : 1 ≤ n := h5
    have h4' : n ≤ pings := by omega
    simp [step, h5', h4']
    omega

/-- **C20 (PONG with a different id)**: while PING `n` is outstanding, a PONG carrying any other id gets the connection
    closed with BAD_REQUEST at once. -/
theorem C20_pong_wrong_id (s : St) (h : Shape s) (iv : Nat) (hc : s.closed = false) (hph : s.phase = .authed iv)
    (n dl m : Nat) (ht : s.task = .waiting n dl) (hm : m ≠ n) :
    step s (.pong m) = closeWith s .badRequest := by
  obtain ⟨hiv, hla, hsl | hw⟩ := shape_authed s h hc iv hph
  · obtain ⟨w, last, ht', _⟩ := hsl
    rw [ht] at ht'; cases ht'
  · obtain ⟨n', dl', ht', h1, h2, h3, h4, h5, h6⟩ := hw
    rw [ht] at ht'; cases ht'
    obtain ⟨cfg, now, phase, task, activity, slot, pings, closed, out, opened, phaseAt, lastAct, pingAt⟩ := s
    simp only at hph hc ht h1 h2 h3 h4 h5 h6 ⊢
    subst hph hc ht h6 h4
    simp only [step]
    simp
    intro hh
    split at hh <;> omega

/-- **C20 (no PONG)**: the outstanding PING expires exactly three intervals after it was written, and the connection is
    then closed with TIMEOUT. -/
theorem C20_no_pong_times_out (s : St) (h : Shape s) (iv : Nat) (hc : s.closed = false) (hph : s.phase = .authed iv)
    (n dl : Nat) (ht : s.task = .waiting n dl) :
    dl = s.pingAt + 3 * iv ∧ step s .fire = closeWith { s with now := dl } .timeoutPing := by
  obtain ⟨hiv, hla, hsl | hw⟩ := shape_authed s h hc iv hph
  · obtain ⟨w, last, ht', _⟩ := hsl
    rw [ht] at ht'; cases ht'
  · obtain ⟨n', dl', ht', h1, h2, h3, h4, h5, h6⟩ := hw
    rw [ht] at ht'; cases ht'
    refine ⟨h1, ?_⟩
    simp [step, fire, hc, ht]

/-- **C20 (TIMEOUT only for an unanswered PING)**: in every reachable state, a keep-alive TIMEOUT on the wire was written
    exactly three intervals after the last PING, which is on the wire too; by `C20_pong_in_time` a matching PONG before
    that instant would have taken the keep-alive task out of its waiting state, and only that state expires this way. -/
theorem C20_ping_timeout_only_unanswered (c : Cfg) (t0 : Nat) (hp : c.Pos) (s : St) (hr : Reach c t0 s) (t : Nat)
    (h : (t, Frame.error .timeoutPing) ∈ s.out) :
    ∃ iv, s.phase = .authed iv ∧ t = s.pingAt + 3 * iv ∧ (s.pingAt, Frame.ping s.pings) ∈ s.out := by
  obtain ⟨evs, rfl⟩ := hr
  obtain ⟨_, ho⟩ := reachable_inv c t0 hp evs
  obtain ⟨iv, h1, h2, _, h4⟩ := ho.2.2.2.2.2.2.2.1 t h
  exact ⟨iv, h1, h2, h4⟩

/-- an unsolicited PONG (no PING outstanding) is parked; it does not count as activity and writes nothing -/
theorem C20_unsolicited_pong_parked (s : St) (iv : Nat) (hc : s.closed = false) (hph : s.phase = .authed iv)
    (w last m : Nat) (ht : s.task = .sleeping w last) (hs : s.slot = none) :
    (step s (.pong m)).closed = false ∧ (step s (.pong m)).out = s.out ∧ (step s (.pong m)).activity = s.activity ∧
    (step s (.pong m)).task = s.task ∧ (step s (.pong m)).slot ≠ none := by
  obtain ⟨cfg, now, phase, task, activity, slot, pings, closed, out, opened, phaseAt, lastAct, pingAt⟩ := s
  simp only at hph hc ht hs ⊢
  subst hph hc ht hs
  simp [step]

/-- a second unsolicited PONG is refused at once (the connection loop never waits for the keep-alive task) -/
theorem C20_second_unsolicited_pong_closes (s : St) (iv : Nat) (hc : s.closed = false) (hph : s.phase = .authed iv)
    (w last m v : Nat) (ht : s.task = .sleeping w last) (hs : s.slot = some v) :
    step s (.pong m) = closeWith s .badRequest := by
  obtain ⟨cfg, now, phase, task, activity, slot, pings, closed, out, opened, phaseAt, lastAct, pingAt⟩ := s
  simp only at hph hc ht hs ⊢
  subst hph hc ht hs
  simp [step]

/-! ## Active connections -/

def Ev.quiet : Ev → Bool
  | .wait _ | .fire | .request => true
  | _ => false

/-- runs `evs` (time passing, expiries, requests) and checks after every event that the client's last request is less
    than one interval old -/
def runActive (iv : Nat) : St → List Ev → Option St
  | s, [] => some s
  | s, e :: es =>
    if e.quiet ∧ (step s e).now < (step s e).lastAct + iv then runActive iv (step s e) es else none

theorem active_step (s : St) (h : Shape s) (iv : Nat) (hc : s.closed = false) (hph : s.phase = .authed iv)
    (hsl : ∃ w last, s.task = .sleeping w last) (e : Ev) (hq : e.quiet = true)
    (hact : (step s e).now < (step s e).lastAct + iv) :
    (step s e).closed = false ∧ (step s e).phase = .authed iv ∧ (∃ w last, (step s e).task = .sleeping w last) ∧
    (step s e).pings = s.pings ∧ ((step s e).out = s.out ∨ (step s e).out = s.out ++ [(s.now, Frame.reply)]) := by
  obtain ⟨w, last, ht⟩ := hsl
  obtain ⟨hiv, hla, hs | hw⟩ := shape_authed s h hc iv hph
  · obtain ⟨w', last', ht', h1, h2, h3, h4, h5⟩ := hs
    rw [ht] at ht'; cases ht'
    obtain ⟨cfg, now, phase, task, activity, slot, pings, closed, out, opened, phaseAt, lastAct, pingAt⟩ := s
    simp only at hph hc ht hla h1 h2 h3 h4 h5 hact ⊢
    subst hph hc ht
    cases e <;> simp [Ev.quiet] at hq
    · -- wait
      simp only [step, due] at hact ⊢
      simp
      repeat' split
      all_goals simp
    · -- fire
      simp only [step, fire] at hact ⊢
      by_cases ha : activity = last
      · exfalso
        obtain ⟨h4a, _⟩ := h4 ha
        cases slot <;> simp [ha, closeWith] at hact <;> omega
      · simp [ha]
    · -- request
      simp [step]
  · obtain ⟨n, dl, ht', _⟩ := hw
    rw [ht] at ht'; cases ht'

/-- **C20 (active connections)**: an authenticated connection that sends a request at least once per interval — checked
    after every event: the last request is less than one interval old — is never pinged and never closed, however long
    that goes on and however its requests are timed relative to the keep-alive task's wake-ups. -/
theorem C20_active_not_pinged (iv : Nat) (evs : List Ev) (s s' : St) (h : Shape s) (hp : s.cfg.Pos) (hc : s.closed = false)
    (hph : s.phase = .authed iv) (hsl : ∃ w last, s.task = .sleeping w last) (hrun : runActive iv s evs = some s') :
    s'.closed = false ∧ s'.pings = s.pings ∧ (∀ t n, (t, Frame.ping n) ∈ s'.out → (t, Frame.ping n) ∈ s.out) ∧
    (∀ t r, (t, Frame.error r) ∈ s'.out → (t, Frame.error r) ∈ s.out) := by
  induction evs generalizing s with
  | nil =>
    simp only [runActive, Option.some.injEq] at hrun
    subst hrun
    exact ⟨hc, rfl, fun _ _ h => h, fun _ _ h => h⟩
  | cons e es ih =>
    simp only [runActive] at hrun
    split at hrun
    · next hg =>
      obtain ⟨hq, hact⟩ := hg
      obtain ⟨a1, a2, a3, a4, a5⟩ := active_step s h iv hc hph hsl e hq hact
      obtain ⟨b1, b2, b3, b4⟩ := ih (step s e) (shape_step s e hp h) (by rw [step_cfg]; exact hp) a1 a2 a3 hrun
      refine ⟨b1, by rw [b2, a4], ?_, ?_⟩
      · intro t n hm
        have := b3 t n hm
        rcases a5 with a5 | a5 <;> rw [a5] at this
        · exact this
        · simpa [List.mem_append] using this
      · intro t r hm
        have := b4 t r hm
        rcases a5 with a5 | a5 <;> rw [a5] at this
        · exact this
        · simpa [List.mem_append] using this
    · cases hrun

/-! ## Shutdown -/

/-- **C20 (shutdown reaches every connection state)**: whatever state an open connection is in — not yet connected,
    connected, authenticated, asleep or waiting for a PONG, with or without a parked PONG — shutdown writes
    SERVER_SHUTTING_DOWN to it at once, closes it and cancels its scheduled task. -/
theorem C20_shutdown_closes (s : St) (hc : s.closed = false) :
    (step s .shutdown).closed = true ∧ (step s .shutdown).task = .idle ∧
    (step s .shutdown).out = s.out ++ [(s.now, Frame.error .shuttingDown), (s.now, Frame.eof)] := by
  simp [step, hc, closeWith]

/-- **C20 (shutdown completes)**: after shutdown every connection of the listener is closed (which is what the
    manager waits for), and connections that were already closed are left as they were. -/
theorem C20_shutdown_all (cs : List St) :
    (∀ s' ∈ shutdownAll cs, s'.closed = true) ∧ (shutdownAll cs).length = cs.length ∧
    (∀ s ∈ cs, s.closed = true → s ∈ shutdownAll cs) := by
  refine ⟨?_, by simp [shutdownAll], ?_⟩
  · intro s' hm
    simp only [shutdownAll, List.mem_map] at hm
    obtain ⟨s, _, rfl⟩ := hm
    by_cases hc : s.closed = true
    · simp [step, hc]
    · simp [step, hc, closeWith]
  · intro s hm hc
    simp only [shutdownAll, List.mem_map]
    exact ⟨s, hm, by simp [step, hc]⟩

/-- a closed connection is final: no expiry, request or PONG changes it or writes to it again -/
theorem C20_closed_is_final (s : St) (hc : s.closed = true) (evs : List Ev) : run s evs = s := by
  induction evs with
  | nil => rfl
  | cons e es ih => simp only [run, List.foldl_cons, step, hc, if_true] at ih ⊢; exact ih

/-- failed or partial authentication attempts neither restart nor extend the authentication deadline -/
theorem C20_auth_retry_keeps_deadline (s : St) (iv : Nat) (hc : s.closed = false) (hph : s.phase = .connected iv) :
    (step s .authRetry).task = s.task ∧ (step s .authRetry).phaseAt = s.phaseAt ∧ (step s .authRetry).closed = false := by
  obtain ⟨cfg, now, phase, task, activity, slot, pings, closed, out, opened, phaseAt, lastAct, pingAt⟩ := s
  simp only at hph hc ⊢
  subst hph hc
  simp [step]


/-! ## Traffic *to* the peer is invisible to the timers -/

/-- the state with the server-initiated frames removed from what the peer has read -/
def strip (s : St) : St := { s with out := s.out.filter (fun p => p.2 ≠ Frame.pushed) }

theorem strip_fire (s : St) : strip (fire s) = fire (strip s) := by
  obtain ⟨cfg, now, phase, task, activity, slot, pings, closed, out, opened, phaseAt, lastAct, pingAt⟩ := s
  cases closed
  · cases task with
    | idle => simp [fire, strip]
    | deadline d r => simp [fire, strip, closeWith, List.filter_append]
    | waiting n dl => simp [fire, strip, closeWith, List.filter_append]
    | sleeping w last =>
      cases phase with
      | authed iv =>
        by_cases ha : activity = last
        · cases slot <;> simp [fire, strip, closeWith, List.filter_append, ha]
        · simp [fire, strip, ha]
      | _ => simp [fire, strip]
  · simp [fire, strip]

theorem strip_step (s : St) (e : Ev) (he : e ≠ .deliver) : strip (step s e) = step (strip s) e := by
  cases e with
  | deliver => exact absurd rfl he
  | fire =>
    have := strip_fire s
    simp only [step]
    by_cases hc : s.closed = true
    · simp [hc, strip]
    · have hc' : s.closed = false := by simpa using hc
      have hc2 : (strip s).closed = false := by simpa [strip] using hc'
      simp [hc', hc2, this]
  | _ =>
    obtain ⟨cfg, now, phase, task, activity, slot, pings, closed, out, opened, phaseAt, lastAct, pingAt⟩ := s
    simp only [step, strip]
    cases closed <;> simp
    all_goals (try (cases phase <;> simp [closeWith, startPing, due, List.filter_append]))
    all_goals (try (cases task <;> simp [closeWith, startPing, due, List.filter_append]))
    all_goals (repeat' split)
    all_goals (try simp [closeWith, startPing, List.filter_append] at *)
    all_goals (try simp_all)
    all_goals (try grind)

theorem strip_deliver (s : St) : strip (step s .deliver) = strip s := by
  obtain ⟨cfg, now, phase, task, activity, slot, pings, closed, out, opened, phaseAt, lastAct, pingAt⟩ := s
  simp only [step, strip]
  cases closed <;> simp
  cases phase <;> simp [List.filter_append]

/-- **C20 (only the peer's own activity counts)**: whatever is routed to a connection, and whenever, every timer
    decision and every frame the keep-alive machinery writes (acknowledgements, PINGs, errors, with their time stamps)
    is exactly what it would have been without those deliveries.  In particular a connection that sends nothing is
    pinged and timed out on the same schedule however busy the channels it listens to are. -/
theorem C20_deliveries_invisible (s : St) (evs : List Ev) :
    strip (run s evs) = run (strip s) (evs.filter (fun e => e ≠ Ev.deliver)) := by
  induction evs generalizing s with
  | nil => rfl
  | cons e es ih =>
    simp only [run, List.foldl_cons] at ih ⊢
    by_cases he : e = .deliver
    · subst he
      simp only [ne_eq, not_true_eq_false, decide_false, Bool.false_eq_true, not_false_eq_true, List.filter_cons_of_neg]
      rw [ih, strip_deliver]
    · have hd : (decide (e ≠ Ev.deliver)) = true := by simpa using he
      simp only [List.filter_cons, hd, if_true, List.foldl_cons]
      rw [ih, strip_step s e he]

/-- a delivery reaches only a registered (authenticated) connection and writes exactly one frame to it -/
theorem C20_deliver_inert (s : St) :
    (step s .deliver).task = s.task ∧ (step s .deliver).activity = s.activity ∧ (step s .deliver).slot = s.slot ∧
    (step s .deliver).phase = s.phase ∧ (step s .deliver).closed = s.closed ∧ (step s .deliver).now = s.now := by
  obtain ⟨cfg, now, phase, task, activity, slot, pings, closed, out, opened, phaseAt, lastAct, pingAt⟩ := s
  simp only [step]
  cases closed <;> simp
  cases phase <;> simp

/-! ## Non-vacuity: concrete runs meeting the hypotheses -/

def exCfg : Cfg := { link := .c2s, connectTimeout := 100, authTimeout := 50, keepAlive := 30, minKeepAlive := 10 }

example : exCfg.Pos := by simp [Cfg.Pos, exCfg]
-- connect (requesting 5 → clamped to 10), authenticate, stay silent: PING#1 at 20+10, TIMEOUT three intervals later
example : (run (init exCfg 0) [.wait 20, .connect 5, .authOk, .fire, .fire]).out =
    [(20, .ack 10), (20, .authOk), (30, .ping 1), (60, .error .timeoutPing), (60, .eof)] := by decide
-- a matching PONG keeps it open; an active client is then never pinged
example : (runActive 10 (run (init exCfg 0) [.connect 5, .authOk, .fire, .wait 12, .pong 1])
    [.wait 15, .request, .fire, .wait 24, .request, .fire, .request]).map (fun s => (s.closed, s.pings)) = some (false, 1) := by decide
-- a silent listener on a busy channel is pinged and timed out on schedule
example : (run (init exCfg 0) [.connect 5, .authOk, .wait 4, .deliver, .wait 9, .deliver, .fire, .wait 15, .deliver, .deliver, .fire]).out =
    [(0, .ack 10), (0, .authOk), (4, .pushed), (9, .pushed), (10, .ping 1), (15, .pushed), (15, .pushed),
     (40, .error .timeoutPing), (40, .eof)] := by decide
-- never connected: closed at exactly the deadline
example : (run (init exCfg 7) [.wait 106, .fire]).out = [(107, .error .timeoutConnect), (107, .eof)] := by decide
-- failed attempts do not move the authentication deadline
example : (run (init exCfg 0) [.connect 0, .wait 40, .authRetry, .wait 49, .fire]).out =
    [(0, .ack 30), (40, .authRetry), (50, .error .timeoutAuth), (50, .eof)] := by decide

end Narwhal.Timers

#print axioms Narwhal.Timers.timers_table_ok
#print axioms Narwhal.Timers.clampC2s_spec
#print axioms Narwhal.Timers.clampS2m_spec
#print axioms Narwhal.Timers.clampM2s_spec
#print axioms Narwhal.Timers.C20_clamp
#print axioms Narwhal.Timers.shape_step
#print axioms Narwhal.Timers.outInv_step
#print axioms Narwhal.Timers.C20_connect_deadline
#print axioms Narwhal.Timers.C20_auth_deadline
#print axioms Narwhal.Timers.C20_announced_is_clamped
#print axioms Narwhal.Timers.C20_ping_only_when_silent
#print axioms Narwhal.Timers.C20_silent_is_pinged
#print axioms Narwhal.Timers.C20_pong_in_time
#print axioms Narwhal.Timers.C20_pong_wrong_id
#print axioms Narwhal.Timers.C20_no_pong_times_out
#print axioms Narwhal.Timers.C20_ping_timeout_only_unanswered
#print axioms Narwhal.Timers.C20_unsolicited_pong_parked
#print axioms Narwhal.Timers.C20_second_unsolicited_pong_closes
#print axioms Narwhal.Timers.C20_active_not_pinged
#print axioms Narwhal.Timers.C20_shutdown_closes
#print axioms Narwhal.Timers.C20_shutdown_all
#print axioms Narwhal.Timers.C20_closed_is_final
#print axioms Narwhal.Timers.C20_auth_retry_keeps_deadline
#print axioms Narwhal.Timers.C20_deliveries_invisible
#print axioms Narwhal.Timers.C20_deliver_inert
