import Narwhal.Model.MicroB
import Narwhal.Theorems.C05Micro
/-!
# C01 / C02 / C04 under interleaving: what a reader (BROADCAST, MEMBERS) can observe while writers are suspended
-/
namespace Narwhal.MicroB
open Narwhal.Micro

/-! ## objects keep their name; `next` only grows -/

macro "stab" : tactic => `(tactic|
  (try simp only []
   repeat' split
   all_goals (simp only [setPc_objs, setIndex_objs, setObj_objs, setMap_objs, setPc_next, setIndex_next, setObj_next, setMap_next]
              first | (split <;> simp_all) | simp_all)))

theorem lockedJoin_stable (s : Micro.St) (t o : Nat) (e : Env) (x : Nat) :
    ((lockedJoin s t o e).objs x).name = (s.objs x).name ∧ (lockedJoin s t o e).next = s.next := by
  unfold lockedJoin
  stab

theorem lockedLeave_stable (s : Micro.St) (t o : Nat) (x : Nat) :
    ((lockedLeave s t o).objs x).name = (s.objs x).name ∧ (lockedLeave s t o).next = s.next := by
  unfold lockedLeave
  stab

theorem runTask_stable (s : Micro.St) (t : Nat) (e : Env) (x : Nat) (hx : x < s.next) :
    ((runTask s t e).objs x).name = (s.objs x).name ∧ s.next ≤ (runTask s t e).next := by
  unfold runTask
  simp only []
  split
  · simp
  · -- start
    split
    · split
      · split
        · obtain ⟨h1, h2⟩ := lockedJoin_stable s t ‹Nat› e x; exact ⟨h1, by omega⟩
        · simp
      · have h := lockedJoin_stable
          (setMap (setObj { s with next := s.next + 1 } s.next { name := (s.tasks t).n, members := [], holder := none })
            (s.tasks t).n (some s.next)) t s.next e x
        simp only [setMap_objs, setObj_objs, setMap_next, setObj_next] at h
        have hne : x ≠ s.next := by omega
        simp only [hne, if_false] at h
        exact ⟨h.1, by omega⟩
    · split
      · simp
      · split
        · obtain ⟨h1, h2⟩ := lockedLeave_stable s t ‹Nat› x; exact ⟨h1, by omega⟩
        · simp
  · split
    · simp
    · split
      · obtain ⟨h1, h2⟩ := lockedJoin_stable s t ‹Nat› e x; exact ⟨h1, by omega⟩
      · simp
  · split
    · simp
    · split
      · obtain ⟨h1, h2⟩ := lockedLeave_stable s t ‹Nat› x; exact ⟨h1, by omega⟩
      · simp
  · stab
  · stab
  · stab

theorem step_stable (s : Micro.St) (l : Micro.Label) (x : Nat) (hx : x < s.next) :
    ((Micro.step s l).objs x).name = (s.objs x).name ∧ s.next ≤ (Micro.step s l).next := by
  cases l with
  | spawn t k m n => simp only [Micro.step]; split <;> simp
  | run t e => exact runTask_stable s t e x hx
  | cleanup u => simp [Micro.step]
  | cleanupNext i n t =>
    simp only [Micro.step]
    split
    · simp
    · split <;> simp

/-! ## well-formed product states -/

/-- a waiting reader refers to an existing object created for the channel it asked for -/
def RInv (s : St) : Prop :=
  ∀ r o, (s.readers r).pc = .wait o → o < s.base.next ∧ (s.base.objs o).name = (s.readers r).n

structure WF (s : St) : Prop where
  strict : s.base.strict = true
  inv    : Micro.Inv s.base
  rinv   : RInv s
  rres   : ∀ r, (s.readers r).pc ≠ .done → (s.readers r).res = none

theorem wf_init : WF (init true) := by
  refine ⟨rfl, inv_init true, ?_, ?_⟩
  · intro r o h
    simp [init, idleReader] at h
  · intro r h
    simp [init, idleReader] at h

theorem snapshot_pc (b : Micro.St) (rd : Reader) (o : Nat) : (snapshot b rd o).pc = .done := by
  unfold snapshot; split <;> rfl

theorem runReader_n (b : Micro.St) (rd : Reader) : (runReader b rd).n = rd.n ∧ (runReader b rd).u = rd.u := by
  unfold runReader snapshot
  repeat' split
  all_goals simp

theorem runReader_wait (b : Micro.St) (rd : Reader) (o : Nat) (h : (runReader b rd).pc = .wait o) :
    (rd.pc = .start ∧ b.map rd.n = some o) ∨ rd.pc = .wait o := by
  unfold runReader snapshot at h
  grind

theorem runReader_res (b : Micro.St) (rd : Reader) (h : (runReader b rd).pc ≠ .done) :
    rd.pc ≠ .done ∧ (runReader b rd).res = rd.res := by
  unfold runReader snapshot at *
  grind

theorem wf_step (s : St) (h : WF s) (l : Label) : WF (step s l) := by
  obtain ⟨hs, hi, hr, hn⟩ := h
  cases l with
  | base bl =>
    refine ⟨by simp only [step]; rw [step_strict]; exact hs, inv_step _ hs hi bl, ?_, ?_⟩
    intro r o hw
    simp only [step] at hw ⊢
    obtain ⟨h1, h2⟩ := hr r o hw
    obtain ⟨h3, h4⟩ := step_stable s.base bl o h1
    exact ⟨by omega, by rw [h3]; exact h2⟩
    exact hn
  | rspawn r u n =>
    by_cases hd : (s.readers r).pc = .done
    · refine ⟨by simp only [step, hd, if_true]; exact hs, by simp only [step, hd, if_true]; exact hi, ?_, ?_⟩
      · intro r' o hw
        simp only [step, hd, if_true] at hw ⊢
        by_cases hrr : r' = r
        · simp [hrr] at hw
        · simp only [hrr, if_false] at hw ⊢
          exact hr r' o hw
      · intro r' hw
        simp only [step, hd, if_true] at hw ⊢
        by_cases hrr : r' = r
        · simp [hrr]
        · simp only [hrr, if_false] at hw ⊢
          exact hn r' hw
    · simp only [step, hd, if_false]
      exact ⟨hs, hi, hr, hn⟩
  | rrun r =>
    refine ⟨hs, hi, ?_, ?_⟩
    · intro r' o hw
      simp only [step] at hw ⊢
      by_cases hrr : r' = r
      · subst hrr
        simp only [if_true] at hw ⊢
        rw [(runReader_n s.base (s.readers r')).1]
        rcases runReader_wait _ _ _ hw with ⟨_, hm⟩ | hw'
        · exact ⟨hi.fresh_map _ _ hm, hi.named _ _ hm⟩
        · exact hr r' o hw'
      · simp only [hrr, if_false] at hw ⊢
        exact hr r' o hw
    · intro r' hw
      simp only [step] at hw ⊢
      by_cases hrr : r' = r
      · subst hrr
        simp only [if_true] at hw ⊢
        obtain ⟨h1, h2⟩ := runReader_res _ _ hw
        rw [h2]; exact hn r' h1
      · simp only [hrr, if_false] at hw ⊢
        exact hn r' hw

theorem run_append (s : St) (a b : List Label) : run s (a ++ b) = run (run s a) b := by
  simp [run, List.foldl_append]

theorem wf_run (s : St) (h : WF s) (ls : List Label) : WF (run s ls) := by
  induction ls generalizing s with
  | nil => exact h
  | cons l ls ih => exact ih _ (wf_step s h l)

/-! ## what a completing reader saw -/

/-- no writer is suspended inside channel `n` -/
def Settled (b : Micro.St) (n : Name) : Prop := ∀ t o, b.map n = some o → ¬ holds b t o

/-- the segment in which a reader obtains its snapshot: the snapshot is the channel's current member list, the requester is in
    it, and no writer is suspended inside the channel (in particular no JOIN is tentative) -/
theorem reader_observes (s : St) (h : WF s) (r : Nat) (ms : List User) (hpc : (s.readers r).pc ≠ .done)
    (hres : (runReader s.base (s.readers r)).res = some (.ok ms)) :
    membersOf s.base (s.readers r).n = ms ∧ (s.readers r).u ∈ ms ∧ Settled s.base (s.readers r).n := by
  obtain ⟨hs, hi, hr, hn⟩ := h
  have hnone := hn r hpc
  have key : ∃ o, s.base.map (s.readers r).n = some o ∧ (s.base.objs o).holder = none ∧ (s.base.objs o).members = ms ∧
      (s.readers r).u ∈ ms := by
    unfold runReader snapshot at hres
    split at hres
    · contradiction
    · split at hres
      · simp at hres
      · next o hm =>
        split at hres
        · next hh =>
          split at hres
          · next hu => simp at hres; exact ⟨o, hm, hh, hres, hres ▸ hu⟩
          · simp at hres
        · simp only at hres; rw [hnone] at hres; simp at hres
    · next o hw =>
      obtain ⟨_, hname⟩ := hr r o hw
      split at hres
      · next hh =>
        split at hres
        · next hu =>
          simp at hres
          have hne : (s.base.objs o).members ≠ [] := List.ne_nil_of_mem hu
          have := hi.stale_empty o hne
          rw [hname] at this
          exact ⟨o, this, hh, hres, hres ▸ hu⟩
        · simp at hres
      · rw [hnone] at hres; simp at hres
  obtain ⟨o, hm, hh, hms, hu⟩ := key
  refine ⟨by simp [membersOf, hm, hms], hu, ?_⟩
  intro t o' hm' hold
  rw [hm] at hm'
  cases hm'
  have := hi.pc_holder t o hold
  rw [hh] at this
  cases this

theorem settled_not_tentative (b : Micro.St) (n : Name) (h : Settled b n) : ¬ Tentative b n := by
  rintro ⟨t, o, hm, hpc⟩
  exact h t o hm (Or.inl hpc)

/-- a reader that waited on an object which has left the map meanwhile is refused: it never reads a removed channel -/
theorem reader_refused_on_removed_object (s : St) (h : WF s) (r o : Nat) (hw : (s.readers r).pc = .wait o)
    (hgone : s.base.map (s.readers r).n ≠ some o) (hfree : (s.base.objs o).holder = none) :
    (runReader s.base (s.readers r)).res = some .notMember := by
  obtain ⟨hs, hi, hr, hn⟩ := h
  obtain ⟨_, hname⟩ := hr r o hw
  have hempty : (s.base.objs o).members = [] := by
    by_cases he : (s.base.objs o).members = []
    · exact he
    · have := hi.stale_empty o he
      rw [hname] at this
      exact absurd this hgone
  unfold runReader snapshot
  simp [hw, hfree, hempty]

/-- while a writer holds the lock, a waiting reader stays where it is and has no result -/
theorem reader_waits_for_writer (s : St) (r o : Nat) (hw : (s.readers r).pc = .wait o)
    (hheld : (s.base.objs o).holder ≠ none) : runReader s.base (s.readers r) = s.readers r := by
  unfold runReader
  simp [hw, hheld]

/-! ## every schedule -/

theorem step_readers_other (s : St) (l : Label) (r : Nat) (hne : (step s l).readers r ≠ s.readers r) :
    l = .rrun r ∨ ∃ u n, l = .rspawn r u n := by
  cases l with
  | base bl => simp [step] at hne
  | rspawn r' u n =>
    by_cases hrr : r = r'
    · subst hrr; exact Or.inr ⟨u, n, rfl⟩
    · simp only [step] at hne
      split at hne
      · simp [hrr] at hne
      · simp at hne
  | rrun r' =>
    by_cases hrr : r = r'
    · subst hrr; exact Or.inl rfl
    · simp [step, hrr] at hne

/-- from any well-formed state: a reader whose record ends with a snapshot either had that record from the start, or the record
    was produced by one `rrun r` segment of the schedule and never touched afterwards -/
theorem snapshot_origin (s0 : St) (h0 : WF s0) (ls : List Label) (r : Nat) (ms : List User)
    (h : ((run s0 ls).readers r).res = some (.ok ms)) :
    (run s0 ls).readers r = s0.readers r ∨
    ∃ ls₁ ls₂, ls = ls₁ ++ .rrun r :: ls₂ ∧
      ((run s0 ls₁).readers r).pc ≠ .done ∧
      (run s0 (ls₁ ++ [.rrun r])).readers r = (run s0 ls).readers r := by
  induction ls generalizing s0 with
  | nil => exact Or.inl rfl
  | cons l ls ih =>
    have h1 : WF (step s0 l) := wf_step s0 h0 l
    rcases ih (step s0 l) h1 h with heq | ⟨ls₁, ls₂, hsplit, hpc, hrec⟩
    · by_cases hsame : (step s0 l).readers r = s0.readers r
      · left; simp only [run, List.foldl_cons] at heq ⊢; rw [heq, hsame]
      · right
        rcases step_readers_other s0 l r hsame with hl | ⟨u, n, hl⟩
        · subst hl
          refine ⟨[], ls, rfl, ?_, ?_⟩
          · intro hd
            apply hsame
            simp only [run, List.foldl_nil] at hd
            simp [step, runReader, hd]
          · simp only [run, List.nil_append, List.foldl_cons, List.foldl_nil] at heq ⊢
            exact heq.symm
        · -- a spawn leaves no result: the final record cannot be the freshly spawned one
          subst hl
          exfalso
          simp only [run, List.foldl_cons] at heq h
          rw [heq] at h
          by_cases hd : (s0.readers r).pc = .done
          · simp [step, hd] at h
          · simp [step, hd] at hsame
    · right
      refine ⟨l :: ls₁, ls₂, by simp [hsplit], ?_, ?_⟩
      · simpa [run] using hpc
      · simpa [run] using hrec

/-- **C01 / C02 / C04 under interleaving.**  For every schedule of writers (JOIN, LEAVE, clean-up, with every notification outcome
    and cancellation) and readers: a BROADCAST or MEMBERS request that completes with a member list `ms` obtained it in one
    segment of its own processing; at that moment `ms` was exactly the member list of the channel the map held under the requested
    name, the requester was in it, and no writer was suspended inside that channel — so no recipient is a tentative member whose
    JOIN may still be rolled back, and nobody who was a member at that moment is missing. -/
theorem C01_micro_snapshot_is_a_moment_of_the_request (ls : List Label) (r : Nat) (ms : List User)
    (h : ((run (init true) ls).readers r).res = some (.ok ms)) :
    ∃ ls₁ ls₂, ls = ls₁ ++ .rrun r :: ls₂ ∧
      let s := run (init true) ls₁
      let fin := (run (init true) ls).readers r
      (s.readers r).pc ≠ .done ∧ (s.readers r).u = fin.u ∧ (s.readers r).n = fin.n ∧
      membersOf s.base fin.n = ms ∧ fin.u ∈ ms ∧ Settled s.base fin.n ∧ ¬ Tentative s.base fin.n := by
  rcases snapshot_origin (init true) wf_init ls r ms h with heq | ⟨ls₁, ls₂, hsplit, hpc, hrec⟩
  · rw [heq] at h; simp [init, idleReader] at h
  · refine ⟨ls₁, ls₂, hsplit, ?_⟩
    have hwf := wf_run (init true) wf_init ls₁
    have hstep : (run (init true) (ls₁ ++ [.rrun r])).readers r
        = runReader (run (init true) ls₁).base ((run (init true) ls₁).readers r) := by
      rw [run_append]; simp [run, step]
    rw [hstep] at hrec
    have hn := runReader_n (run (init true) ls₁).base ((run (init true) ls₁).readers r)
    rw [hrec] at hn
    have hres : (runReader (run (init true) ls₁).base ((run (init true) ls₁).readers r)).res = some (.ok ms) := by
      rw [hrec]; exact h
    obtain ⟨o1, o2, o3⟩ := reader_observes _ hwf r ms hpc hres
    simp only
    rw [hn.1, hn.2] at *
    exact ⟨hpc, hn.2.symm ▸ rfl, hn.1.symm ▸ rfl, o1, o2, o3, settled_not_tentative _ _ o3⟩

/-- **C02 under interleaving**: a user who is a member of the channel at every moment at which the request is in progress is in
    the snapshot the broadcast is routed to -/
theorem C02_micro_member_throughout_is_reached (ls : List Label) (r : Nat) (ms : List User) (u : User)
    (h : ((run (init true) ls).readers r).res = some (.ok ms))
    (hm : ∀ ls₁ ls₂, ls = ls₁ ++ ls₂ → ((run (init true) ls₁).readers r).pc ≠ .done →
      u ∈ membersOf (run (init true) ls₁).base ((run (init true) ls₁).readers r).n) : u ∈ ms := by
  obtain ⟨ls₁, ls₂, hsplit, hpc, _, hn, hmem, _⟩ := C01_micro_snapshot_is_a_moment_of_the_request ls r ms h
  have := hm ls₁ (.rrun r :: ls₂) hsplit hpc
  rw [hn] at this
  rw [← hmem]; exact this

/-- readers never disturb the writers: the membership state after a schedule is that of its writer steps alone -/
def baseLabels : List Label → List Micro.Label
  | [] => []
  | .base bl :: ls => bl :: baseLabels ls
  | _ :: ls => baseLabels ls

theorem readers_do_not_interfere (s : St) (ls : List Label) : (run s ls).base = Micro.run s.base (baseLabels ls) := by
  induction ls generalizing s with
  | nil => rfl
  | cons l ls ih =>
    cases l with
    | base bl => simp only [run, List.foldl_cons, baseLabels, Micro.run] at ih ⊢; rw [ih]; rfl
    | rspawn r u n =>
      simp only [run, List.foldl_cons, baseLabels] at ih ⊢; rw [ih]
      simp only [step]; split <;> rfl
    | rrun r => simp only [run, List.foldl_cons, baseLabels] at ih ⊢; rw [ih]; rfl

open Narwhal.Generated in
/-- **the reader steps are the code's**: `broadcast_payload` and `list_members` look the channel up, take its lock in read mode,
    check membership, copy and unlock without a suspension point in between (so `snapshot` is one segment), and the list a broadcast
    copies is recomputed from the member set by every insertion and removal (so the copy *is* the member list, filtered by the
    read ACL) -/
theorem readers_table_ok :
    broadcastReadsUnderLock = true ∧ membersReadsUnderLock = true ∧ targetsFollowMembers = true := by decide

/-! ## the premises are satisfiable: a broadcast that has to wait for a JOIN whose notification fails -/

/-- user 1 owns channel 7; user 2's JOIN is suspended in its notification when user 1 broadcasts; the broadcast waits; the
    notification fails (roll-back); the broadcast then sees `[1]` — user 2 was never a recipient -/
def waitingSchedule : List Label :=
  [ .base (.spawn 0 .join 1 7), .base (.run 0 {}), .base (.run 0 {}),
    .base (.spawn 1 .join 2 7), .base (.run 1 {}),
    .rspawn 0 1 7, .rrun 0,
    .base (.run 1 { ok := false }),
    .rrun 0 ]

example : ((run (init true) (waitingSchedule.take 7)).readers 0).pc = .wait 0 := by decide
example : ((run (init true) waitingSchedule).readers 0).res = some (.ok [1]) := by decide

#print axioms C01_micro_snapshot_is_a_moment_of_the_request
#print axioms C02_micro_member_throughout_is_reached
#print axioms reader_refused_on_removed_object
#print axioms reader_waits_for_writer
#print axioms readers_do_not_interfere
#print axioms readers_table_ok

end Narwhal.MicroB
