import Narwhal.Model.Client
/-!
# C16 — delegated requests complete by their own reply; failures cost no capacity
-/
namespace Narwhal.Client

/-- ids in the table are pairwise distinct -/
def Keys (l : List (Nat × RState)) : Prop := (l.map (·.1)).Nodup

theorem get_set_same (l : List (Nat × RState)) (id : Nat) (s : RState) : get (set l id s) id = some s := by
  induction l with
  | nil => simp [set, get]
  | cons p rest ih =>
    obtain ⟨i, s'⟩ := p
    simp only [set]; split
    · simp [get]
    · next h => simp [get, h, ih]

theorem get_set_other (l : List (Nat × RState)) (id j : Nat) (s : RState) (h : j ≠ id) : get (set l id s) j = get l j := by
  induction l with
  | nil => simp [set, get, Ne.symm h]
  | cons p rest ih =>
    obtain ⟨i, s'⟩ := p
    simp only [set]; split
    · next he => subst he; simp [get, Ne.symm h]
    · simp only [get]; split
      · rfl
      · exact ih

theorem keys_set (l : List (Nat × RState)) (id : Nat) (s : RState) (hk : Keys l) : Keys (set l id s) := by
  unfold Keys at *
  induction l with
  | nil => simp [set]
  | cons p rest ih =>
    obtain ⟨i, s'⟩ := p
    simp only [List.map_cons, List.nodup_cons] at hk
    simp only [set]; split
    · next he => subst he; simpa using hk
    · next hne =>
      simp only [List.map_cons, List.nodup_cons]
      refine ⟨?_, ih hk.2⟩
      intro hm
      have : ∀ (l : List (Nat × RState)), i ∈ (set l id s).map (·.1) → i = id ∨ i ∈ l.map (·.1) := by
        intro l
        induction l with
        | nil => simp [set]
        | cons q r ih2 =>
          obtain ⟨j, t⟩ := q
          simp only [set]; split
          · next hj => subst hj; simp
          · simp only [List.map_cons, List.mem_cons]
            rintro (h | h)
            · exact Or.inr (Or.inl h)
            · rcases ih2 h with h | h
              · exact Or.inl h
              · exact Or.inr (Or.inr h)
      rcases this rest hm with h | h
      · exact hne h
      · exact hk.1 h

/-- how the number of permit holders changes when one entry changes state -/
theorem holders_set (l : List (Nat × RState)) (id : Nat) (old new : RState) (hk : Keys l) (hg : get l id = some old) :
    holders (set l id new) + (if old.holdsPermit then 1 else 0) = holders l + (if new.holdsPermit then 1 else 0) := by
  unfold Keys at hk
  induction l with
  | nil => simp [get] at hg
  | cons p rest ih =>
    obtain ⟨i, s'⟩ := p
    simp only [List.map_cons, List.nodup_cons] at hk
    simp only [get] at hg
    simp only [set]
    split
    · next he =>
      subst he
      simp only [if_true] at hg
      cases hg
      simp only [holders, List.filter_cons]
      cases old.holdsPermit <;> cases new.holdsPermit <;> simp
    · next hne =>
      simp only [hne, if_false] at hg
      have := ih hk.2 hg
      simp only [holders, List.filter_cons] at this ⊢
      cases s'.holdsPermit <;> simp <;> omega

theorem holders_set_new (l : List (Nat × RState)) (id : Nat) (new : RState) (hg : get l id = none) :
    holders (set l id new) = holders l + (if new.holdsPermit then 1 else 0) := by
  induction l with
  | nil => simp [set, holders, List.filter_cons]; cases new.holdsPermit <;> simp
  | cons p rest ih =>
    obtain ⟨i, s'⟩ := p
    simp only [get] at hg
    simp only [set]
    split
    · next he => simp [he] at hg
    · next hne =>
      simp only [hne, if_false] at hg
      have := ih hg
      simp only [holders, List.filter_cons] at this ⊢
      cases s'.holdsPermit <;> simp <;> omega

/-- the engine invariant: permits and permit-holding requests add up to the negotiated window -/
def Inv (s : St) : Prop := Keys s.reqs ∧ s.permits + holders s.reqs = s.max

theorem inv_init (m : Nat) : Inv (init m) := by simp [Inv, init, Keys, holders]

theorem inv_step (s : St) (st : Step) (h : Inv s) : Inv (step s st) := by
  obtain ⟨hk, hp⟩ := h
  cases st <;> simp only [step]
  case submit id =>
    cases hg : get s.reqs id with
    | none =>
      refine ⟨keys_set _ _ _ hk, ?_⟩
      simp only
      rw [holders_set_new _ _ _ hg]; simpa [RState.holdsPermit] using hp
    | some st =>
      simp only
      split
      · exact ⟨hk, hp⟩
      · next hl =>
        refine ⟨keys_set _ _ _ hk, ?_⟩
        have := holders_set s.reqs id st .waiting hk hg
        have hst : st.holdsPermit = false := by cases st <;> simp_all [RState.live, RState.holdsPermit]
        rw [hst] at this
        simp only [RState.holdsPermit] at this
        simp only; simp at this; omega
  case grant id =>
    split
    · next hc =>
      refine ⟨keys_set _ _ _ hk, ?_⟩
      have := holders_set s.reqs id .waiting .inflight hk hc.1
      simp only [RState.holdsPermit] at this
      simp only; simp at this; omega
    · exact ⟨hk, hp⟩
  case reply id r =>
    split
    · next hc =>
      refine ⟨keys_set _ _ _ hk, ?_⟩
      have := holders_set s.reqs id .inflight (.answered r) hk hc
      simp only [RState.holdsPermit] at this
      simp only; simp at this; omega
    · exact ⟨hk, hp⟩
  case finish id =>
    split
    · next r hc =>
      refine ⟨keys_set _ _ _ hk, ?_⟩
      have := holders_set s.reqs id (.answered r) (.completed r) hk hc
      simp only [RState.holdsPermit] at this
      simp only; simp at this; omega
    · exact ⟨hk, hp⟩
  case timeout id =>
    split
    · next hc =>
      refine ⟨keys_set _ _ _ hk, ?_⟩
      have := holders_set s.reqs id .waiting .timedOut hk hc
      simp only [RState.holdsPermit] at this
      simp only; simp at this; omega
    · next hc =>
      refine ⟨keys_set _ _ _ hk, ?_⟩
      have := holders_set s.reqs id .inflight .timedOut hk hc
      simp only [RState.holdsPermit] at this
      simp only; simp at this; omega
    · exact ⟨hk, hp⟩
  case ping id => exact ⟨hk, hp⟩

theorem inv_run (s : St) (l : List Step) (h : Inv s) : Inv (run s l) := by
  induction l generalizing s with
  | nil => exact h
  | cons st rest ih => exact ih _ (inv_step s st h)

/-- **window**: at most `max` requests are outstanding (written and not yet finished) at any time -/
theorem C16_window (m : Nat) (l : List Step) : holders (run (init m) l).reqs ≤ m := by
  have := (inv_run (init m) l (inv_init m)).2
  have hm : (run (init m) l).max = m := by
    have : ∀ (s : St) (l : List Step), (run s l).max = s.max := by
      intro s l
      induction l generalizing s with
      | nil => rfl
      | cons st rest ih =>
        simp only [run, List.foldl_cons] at ih ⊢
        rw [ih]
        cases st <;> simp only [step] <;> (repeat' split) <;> rfl
    rw [this]; rfl
  omega

/-- **failures cost no capacity**: whenever no request holds a permit (all finished, timed out or still waiting),
    the whole window is available again — after any history, in particular any run of timeouts -/
theorem C16_capacity_conserved (m : Nat) (l : List Step) (h : holders (run (init m) l).reqs = 0) :
    (run (init m) l).permits = m := by
  have := (inv_run (init m) l (inv_init m)).2
  have hm : (run (init m) l).max = m := by
    have : ∀ (s : St) (l : List Step), (run s l).max = s.max := by
      intro s l
      induction l generalizing s with
      | nil => rfl
      | cons st rest ih =>
        simp only [run, List.foldl_cons] at ih ⊢
        rw [ih]
        cases st <;> simp only [step] <;> (repeat' split) <;> rfl
    rw [this]; rfl
  omega

/-- **completed by its own reply and by nothing else**: the only step that gives request `id` a result is a
    reply frame carrying `id` while it is in flight, and that result is that frame's content -/
theorem C16_completed_by_own_id (s : St) (st : Step) (id r : Nat)
    (hbefore : get s.reqs id ≠ some (.answered r)) (hafter : get (step s st).reqs id = some (.answered r)) :
    st = .reply id r ∧ get s.reqs id = some .inflight := by
  cases st <;> simp only [step] at hafter
  case submit j =>
    exfalso
    split at hafter
    · split at hafter
      · exact hbefore hafter
      · by_cases hj : id = j
        · subst hj; rw [get_set_same] at hafter; cases hafter
        · rw [get_set_other _ _ _ _ hj] at hafter; exact hbefore hafter
    · by_cases hj : id = j
      · subst hj; rw [get_set_same] at hafter; cases hafter
      · rw [get_set_other _ _ _ _ hj] at hafter; exact hbefore hafter
  case grant j =>
    exfalso
    split at hafter
    · by_cases hj : id = j
      · subst hj; rw [get_set_same] at hafter; cases hafter
      · rw [get_set_other _ _ _ _ hj] at hafter; exact hbefore hafter
    · exact hbefore hafter
  case reply j r' =>
    split at hafter
    · next hc =>
      by_cases hj : id = j
      · subst hj
        rw [get_set_same] at hafter
        cases hafter
        exact ⟨rfl, hc⟩
      · rw [get_set_other _ _ _ _ hj] at hafter; exact absurd hafter hbefore
    · exact absurd hafter hbefore
  case finish j =>
    exfalso
    split at hafter
    · by_cases hj : id = j
      · subst hj; rw [get_set_same] at hafter; cases hafter
      · rw [get_set_other _ _ _ _ hj] at hafter; exact hbefore hafter
    · exact hbefore hafter
  case timeout j =>
    exfalso
    split at hafter
    · by_cases hj : id = j
      · subst hj; rw [get_set_same] at hafter; cases hafter
      · rw [get_set_other _ _ _ _ hj] at hafter; exact hbefore hafter
    · by_cases hj : id = j
      · subst hj; rw [get_set_same] at hafter; cases hafter
      · rw [get_set_other _ _ _ _ hj] at hafter; exact hbefore hafter
    · exact hbefore hafter
  case ping j => exact absurd hafter hbefore

/-- a delivered result is never replaced: duplicates, late or unsolicited frames and PINGs with the same id
    leave an answered / completed / timed-out request as it is -/
theorem C16_result_stable (s : St) (id r r' : Nat) (h : get s.reqs id = some (.answered r) ∨ get s.reqs id = some (.completed r)
    ∨ get s.reqs id = some .timedOut) :
    get (step s (.reply id r')).reqs id = get s.reqs id ∧ get (step s (.ping id)).reqs id = get s.reqs id := by
  constructor
  · simp only [step]
    split
    · next hc => rcases h with h | h | h <;> rw [h] at hc <;> cases hc
    · rfl
  · rfl

/-- **never hangs**: a live request can always be ended by its timeout, which returns any permit it holds -/
theorem C16_timeout_always_ends (s : St) (id : Nat) (h : get s.reqs id = some .waiting ∨ get s.reqs id = some .inflight) :
    get (step s (.timeout id)).reqs id = some .timedOut := by
  simp only [step]
  rcases h with h | h <;> simp [h, get_set_same]

/-- a PING never completes a request, whatever its id -/
theorem C16_ping_inert (s : St) (id : Nat) : (step s (.ping id)).reqs = s.reqs ∧ (step s (.ping id)).permits = s.permits := ⟨rfl, rfl⟩

/-! ### non-vacuity: window 2; two requests time out; a third and fourth are then written at once -/
example : (run (init 2) [.submit 1, .grant 1, .submit 2, .grant 2, .timeout 1, .timeout 2, .submit 3, .grant 3, .submit 4, .grant 4]).written
    = [1, 2, 3, 4] := by decide

end Narwhal.Client

#print axioms Narwhal.Client.inv_step
#print axioms Narwhal.Client.C16_window
#print axioms Narwhal.Client.C16_capacity_conserved
#print axioms Narwhal.Client.C16_completed_by_own_id
#print axioms Narwhal.Client.C16_result_stable
#print axioms Narwhal.Client.C16_timeout_always_ends
#print axioms Narwhal.Client.C16_ping_inert
