import Narwhal.Model.Pool
/-!
# C19 — buffer pools: permits and buffers never drift apart; acquiring never panics; everything comes back

Invariant over **every** schedule of the pool's micro-steps (any number of tasks/threads, any interleaving
of acquire / freeze / clone / drop / batch release):

* `buffers`: every buffer is in the queue, held mutably, or frozen — `|queue| + |muts| + |shared| = cap`;
* `permitsAcc`: `permits + acquiring + |muts| + |shared| + dropping + pendingAdd = cap`;
* frozen buffers have at least one handle.

Consequences: `pop().unwrap()` never sees an empty queue; `available + in_use = capacity`; once every
holder is gone all buffers and all permits are back; an acquirer waits only while no permit exists, which at
rest means the queue is empty.
-/
namespace Narwhal.Pool

def PoolInv (s : St) : Prop :=
  s.queue.length + s.muts.length + s.shared.length = s.cap ∧
  s.permits + s.acquiring + s.muts.length + s.shared.length + s.dropping + s.pendingAdd = s.cap ∧
  (∀ p ∈ s.shared, 1 ≤ p.2) ∧ (s.muts.Nodup ∧ (s.shared.map (·.1)).Nodup)

theorem inv_init (n : Nat) : PoolInv (init n) := by
  simp [PoolInv, init]

theorem count_some_mem {sh : List (Nat × Nat)} {id c : Nat} (h : count sh id = some c) : (id, c) ∈ sh := by
  induction sh with
  | nil => simp [count] at h
  | cons p rest ih =>
    obtain ⟨i, c'⟩ := p
    simp only [count] at h
    split at h
    · next he => cases h; subst he; simp
    · exact List.mem_cons_of_mem _ (ih h)

theorem setCount_length (sh : List (Nat × Nat)) (id c : Nat) : (setCount sh id c).length = sh.length := by
  simp [setCount]

theorem setCount_keys (sh : List (Nat × Nat)) (id c : Nat) : (setCount sh id c).map (·.1) = sh.map (·.1) := by
  simp only [setCount, List.map_map]
  apply List.map_congr_left
  intro p _
  simp only [Function.comp]
  split
  · next h => exact h.symm
  · rfl

theorem setCount_pos (sh : List (Nat × Nat)) (id c : Nat) (hc : 1 ≤ c) (h : ∀ p ∈ sh, 1 ≤ p.2) :
    ∀ p ∈ setCount sh id c, 1 ≤ p.2 := by
  intro p hp
  simp only [setCount, List.mem_map] at hp
  obtain ⟨q, hq, rfl⟩ := hp
  split
  · exact hc
  · exact h q hq

theorem removeShared_length {sh : List (Nat × Nat)} {id c : Nat} (hk : (sh.map (·.1)).Nodup) (hm : (id, c) ∈ sh) :
    (removeShared sh id).length + 1 = sh.length := by
  induction sh with
  | nil => cases hm
  | cons p rest ih =>
    obtain ⟨i, c'⟩ := p
    simp only [List.map_cons, List.nodup_cons] at hk
    simp only [removeShared, List.filter_cons]
    by_cases hi : i = id
    · subst hi
      simp only [ne_eq, not_true_eq_false, decide_false, Bool.false_eq_true, if_false, List.length_cons]
      have : rest.filter (fun p => decide (p.1 ≠ i)) = rest := by
        rw [List.filter_eq_self]
        intro q hq
        simp only [decide_eq_true_eq]
        intro h
        exact hk.1 (List.mem_map.mpr ⟨q, hq, h⟩)
      rw [this]
    · simp only [ne_eq, hi, not_false_eq_true, decide_true, if_true, List.length_cons]
      simp only [List.mem_cons] at hm
      rcases hm with hm | hm
      · cases hm; exact absurd rfl hi
      · have := ih hk.2 hm
        simp only [removeShared, ne_eq] at this ⊢
        omega

theorem removeShared_keys_nodup {sh : List (Nat × Nat)} (id : Nat) (hk : (sh.map (·.1)).Nodup) :
    ((removeShared sh id).map (·.1)).Nodup := by
  simp only [removeShared]
  exact hk.sublist (List.Sublist.map _ List.filter_sublist)

theorem removeShared_pos {sh : List (Nat × Nat)} (id : Nat) (h : ∀ p ∈ sh, 1 ≤ p.2) : ∀ p ∈ removeShared sh id, 1 ≤ p.2 := by
  intro p hp
  simp only [removeShared, List.mem_filter] at hp
  exact h p hp.1

theorem filter_ne_length {l : List Nat} {id : Nat} (hn : l.Nodup) (hm : id ∈ l) : (l.filter (· ≠ id)).length + 1 = l.length := by
  induction l with
  | nil => cases hm
  | cons a as ih =>
    simp only [List.nodup_cons] at hn
    simp only [List.filter_cons]
    by_cases ha : a = id
    · subst ha
      simp only [ne_eq, not_true_eq_false, decide_false, Bool.false_eq_true, if_false, List.length_cons]
      have : as.filter (fun x => decide (x ≠ a)) = as := by
        rw [List.filter_eq_self]
        intro q hq
        simp only [decide_eq_true_eq]
        intro h; subst h; exact hn.1 hq
      rw [this]
    · simp only [ne_eq, ha, not_false_eq_true, decide_true, if_true, List.length_cons]
      simp only [List.mem_cons] at hm
      rcases hm with hm | hm
      · exact absurd hm.symm ha
      · have := ih hn.2 hm
        simp only [ne_eq] at this ⊢
        omega

/-- the invariant is preserved by every enabled micro-step, given that freshly popped buffers are not
    already held (which is `Exclusive` below; here it is only needed for `Nodup` of the holder lists) -/
theorem inv_step (s s' : St) (st : Step) (hinv : PoolInv s) (hfresh : ∀ id rest, s.queue = id :: rest → id ∉ s.muts)
    (hfreeze : ∀ id, id ∈ s.muts → id ∉ s.shared.map (·.1)) (h : step s st = .ok s') : PoolInv s' := by
  obtain ⟨ha, hb, hc, hmn, hsn⟩ := hinv
  cases st <;> simp only [step] at h
  case permit =>
    split at h
    · cases h; exact ⟨ha, by simp only; omega, hc, hmn, hsn⟩
    · cases h
  case pop =>
    split at h
    · cases h
    · split at h
      · cases h
      · next id rest hq =>
        cases h
        refine ⟨?_, ?_, hc, ?_, hsn⟩
        · simp only [List.length_cons] at ha ⊢; rw [hq] at ha; simp only [List.length_cons] at ha; omega
        · simp only [List.length_cons]; omega
        · exact List.nodup_cons.mpr ⟨hfresh id rest hq, hmn⟩
  case freeze id =>
    split at h
    · next hm =>
      cases h
      have := List.length_erase_of_mem hm
      have hpos : 0 < s.muts.length := List.length_pos_of_mem hm
      refine ⟨?_, ?_, ?_, hmn.erase _, ?_⟩
      · simp only [List.length_cons]; omega
      · simp only [List.length_cons]; omega
      · intro p hp
        simp only [List.mem_cons] at hp
        rcases hp with rfl | hp
        · exact Nat.le_refl 1
        · exact hc p hp
      · simp only [List.map_cons]
        exact List.nodup_cons.mpr ⟨hfreeze id hm, hsn⟩
    · cases h
  case clone id =>
    split at h
    · next c hcnt =>
      cases h
      refine ⟨?_, ?_, setCount_pos _ _ _ (by omega) hc, hmn, ?_⟩
      · simp only [setCount_length]; exact ha
      · simp only [setCount_length]; exact hb
      · rw [setCount_keys]; exact hsn
    · cases h
  case dropMut id =>
    split at h
    · next hm =>
      cases h
      have := List.length_erase_of_mem hm
      have hpos : 0 < s.muts.length := List.length_pos_of_mem hm
      refine ⟨?_, ?_, hc, hmn.erase _, hsn⟩
      · simp only [List.length_append, List.length_singleton]; omega
      · simp only; omega
    · cases h
  case dropShared id =>
    split at h
    · next c hcnt =>
      have hmem := count_some_mem hcnt
      split at h
      · cases h
        have := removeShared_length hsn hmem
        refine ⟨?_, ?_, removeShared_pos _ hc, hmn, removeShared_keys_nodup _ hsn⟩
        · simp only [List.length_append, List.length_singleton]; omega
        · simp only; omega
      · next hgt =>
        cases h
        refine ⟨?_, ?_, setCount_pos _ _ _ (by omega) hc, hmn, ?_⟩
        · simp only [setCount_length]; exact ha
        · simp only [setCount_length]; exact hb
        · rw [setCount_keys]; exact hsn
    · cases h
  case releasePermit =>
    split at h
    · cases h; exact ⟨ha, by simp only; omega, hc, hmn, hsn⟩
    · cases h
  case batchTake id =>
    split at h
    · next c hcnt =>
      have hmem := count_some_mem hcnt
      split at h
      · cases h
        have := removeShared_length hsn hmem
        refine ⟨?_, ?_, removeShared_pos _ hc, hmn, removeShared_keys_nodup _ hsn⟩
        · simp only [List.length_append, List.length_singleton]; omega
        · simp only; omega
      · next hgt =>
        cases h
        refine ⟨?_, ?_, setCount_pos _ _ _ (by omega) hc, hmn, ?_⟩
        · simp only [setCount_length]; exact ha
        · simp only [setCount_length]; exact hb
        · rw [setCount_keys]; exact hsn
    · cases h
  case batchAdd n =>
    split at h
    · cases h; exact ⟨ha, by simp only; omega, hc, hmn, hsn⟩
    · cases h

theorem C19_pop_never_panics_aux (s : St) (hinv : PoolInv s) (h : step s .pop = .panic) : False := by
  obtain ⟨ha, hb, _, _, _⟩ := hinv
  simp only [step] at h
  split at h
  · cases h
  · next hacq =>
    split at h
    · next hq => rw [hq] at ha; simp only [List.length_nil] at ha; omega
    · cases h

/-! ## exclusivity: a buffer is in exactly one place -/

/-- every buffer id occurs exactly once across the queue, the mutable holders and the frozen buffers -/
def Excl (s : St) : Prop := (s.queue ++ s.muts ++ s.shared.map (·.1)).Nodup

theorem removeShared_keys {sh : List (Nat × Nat)} (id : Nat) (hk : (sh.map (·.1)).Nodup) :
    (removeShared sh id).map (·.1) = (sh.map (·.1)).erase id := by
  rw [hk.erase_eq_filter, List.filter_map]
  simp only [removeShared]
  congr 1
  apply List.filter_congr
  intro p _
  by_cases h : p.1 = id <;> simp [bne, h]

open List in
theorem excl_step (s s' : St) (st : Step) (hex : Excl s) (h : step s st = .ok s') : Excl s' := by
  unfold Excl at hex ⊢
  have hsn : (s.shared.map (·.1)).Nodup := (List.nodup_append.mp hex).2.1
  cases st <;> simp only [step] at h
  case permit => split at h <;> cases h; exact hex
  case pop =>
    split at h
    · cases h
    · split at h
      · cases h
      · next id rest hq =>
        cases h
        rw [hq] at hex
        simp only
        refine List.Perm.nodup ?_ hex
        simp only [List.cons_append, List.append_assoc]
        exact (List.perm_middle (a := id) (l₁ := rest) (l₂ := s.muts ++ s.shared.map (·.1))).symm
  case freeze id =>
    split at h
    · next hm =>
      cases h
      simp only [List.map_cons]
      refine List.Perm.nodup ?_ hex
      have hp : s.muts.Perm (id :: s.muts.erase id) := List.perm_cons_erase hm
      calc s.queue ++ s.muts ++ s.shared.map (·.1)
          _ ~ s.queue ++ (id :: s.muts.erase id) ++ s.shared.map (·.1) :=
            List.Perm.append_right _ (List.Perm.append_left _ hp)
          _ ~ s.queue ++ s.muts.erase id ++ id :: s.shared.map (·.1) := by
            simp only [List.append_assoc, List.cons_append]
            exact List.Perm.append_left _ (List.perm_middle.symm)
    · cases h
  case clone id =>
    split at h
    · cases h; simp only [setCount_keys]; exact hex
    · cases h
  case dropMut id =>
    split at h
    · next hm =>
      cases h
      simp only
      refine List.Perm.nodup ?_ hex
      have hp : s.muts.Perm (id :: s.muts.erase id) := List.perm_cons_erase hm
      calc s.queue ++ s.muts ++ s.shared.map (·.1)
          _ ~ s.queue ++ (id :: s.muts.erase id) ++ s.shared.map (·.1) :=
            List.Perm.append_right _ (List.Perm.append_left _ hp)
          _ ~ s.queue ++ [id] ++ s.muts.erase id ++ s.shared.map (·.1) := by
            simp only [List.append_assoc, List.cons_append, List.nil_append]
            exact List.Perm.refl _
    · cases h
  case dropShared id =>
    split at h
    · next c hcnt =>
      have hmem : id ∈ s.shared.map (·.1) := List.mem_map.mpr ⟨(id, c), count_some_mem hcnt, rfl⟩
      split at h
      · cases h
        simp only [removeShared_keys id hsn]
        refine List.Perm.nodup ?_ hex
        have hp : (s.shared.map (·.1)).Perm (id :: (s.shared.map (·.1)).erase id) := List.perm_cons_erase hmem
        calc s.queue ++ s.muts ++ s.shared.map (·.1)
            _ ~ s.queue ++ s.muts ++ (id :: (s.shared.map (·.1)).erase id) := List.Perm.append_left _ hp
            _ ~ s.queue ++ [id] ++ s.muts ++ (s.shared.map (·.1)).erase id := by
              simp only [List.append_assoc, List.cons_append, List.nil_append]
              exact List.Perm.append_left _ List.perm_middle
      · cases h; simp only [setCount_keys]; exact hex
    · cases h
  case releasePermit => split at h <;> cases h; exact hex
  case batchTake id =>
    split at h
    · next c hcnt =>
      have hmem : id ∈ s.shared.map (·.1) := List.mem_map.mpr ⟨(id, c), count_some_mem hcnt, rfl⟩
      split at h
      · cases h
        simp only [removeShared_keys id hsn]
        refine List.Perm.nodup ?_ hex
        have hp : (s.shared.map (·.1)).Perm (id :: (s.shared.map (·.1)).erase id) := List.perm_cons_erase hmem
        calc s.queue ++ s.muts ++ s.shared.map (·.1)
            _ ~ s.queue ++ s.muts ++ (id :: (s.shared.map (·.1)).erase id) := List.Perm.append_left _ hp
            _ ~ s.queue ++ [id] ++ s.muts ++ (s.shared.map (·.1)).erase id := by
              simp only [List.append_assoc, List.cons_append, List.nil_append]
              exact List.Perm.append_left _ List.perm_middle
      · cases h; simp only [setCount_keys]; exact hex
    · cases h
  case batchAdd n => split at h <;> cases h; exact hex

theorem excl_init (n : Nat) : Excl (init n) := by
  simp [Excl, init, List.nodup_range]

/-- **over every schedule**: the pool never panics and both invariants hold in every state reached -/
theorem C19_run_safe (s : St) (sched : List Step) (hinv : PoolInv s) (hex : Excl s) :
    ∃ s', run s sched = .ok s' ∧ PoolInv s' ∧ Excl s' := by
  induction sched generalizing s with
  | nil => exact ⟨s, rfl, hinv, hex⟩
  | cons st rest ih =>
    simp only [run]
    cases hs : step s st with
    | ok s1 =>
      simp only
      apply ih s1
      · apply inv_step s s1 st hinv ?_ ?_ hs
        · intro id r hq hm
          unfold Excl at hex
          rw [hq] at hex
          simp only [List.cons_append, List.append_assoc, List.nodup_cons, List.mem_append] at hex
          exact hex.1 (Or.inr (Or.inl hm))
        · intro id hm hk
          unfold Excl at hex
          have := (List.nodup_append.mp hex).2.2 id (List.mem_append.mpr (Or.inr hm)) id hk
          exact this rfl
      · exact excl_step s s1 st hex hs
    | disabled => simp only; exact ih s hinv hex
    | panic =>
      exfalso
      cases st <;> simp only [step] at hs
      case pop => exact C19_pop_never_panics_aux s hinv hs
      all_goals (repeat' split at hs) <;> cases hs

/-- **exclusive hand-out, whatever the interleaving**: starting from a fresh pool, in every reachable state no
    buffer is both available and held, held by two mutable owners, or held mutably and shared -/
theorem C19_exclusive (n : Nat) (sched : List Step) :
    ∃ s', run (init n) sched = .ok s' ∧ PoolInv s' ∧ Excl s' :=
  C19_run_safe (init n) sched (inv_init n) (excl_init n)

/-- **`pop().unwrap()` is safe**: a task that holds a permit always finds a buffer in the queue -/
theorem C19_pop_never_panics (s : St) (hinv : PoolInv s) : step s .pop ≠ .panic := by
  obtain ⟨ha, hb, _, _, _⟩ := hinv
  simp only [step]
  split
  · intro h; cases h
  · next hacq =>
    split
    · next hq =>
      exfalso
      rw [hq] at ha
      simp only [List.length_nil] at ha
      omega
    · intro h; cases h

/-- **conservation**: available + in use = capacity, and `in_use_count()` is the number of buffers held -/
theorem C19_conservation (s : St) (hinv : PoolInv s) :
    available s + inUse s = s.cap ∧ inUse s = s.muts.length + s.shared.length := by
  obtain ⟨ha, _, _, _, _⟩ := hinv
  unfold available inUse
  omega

/-- **everything comes back**: with no holder left and no release half-way, all buffers and permits are available -/
theorem C19_all_back (s : St) (hinv : PoolInv s) (h1 : s.muts = []) (h2 : s.shared = []) (h3 : s.acquiring = 0)
    (h4 : s.dropping = 0) (h5 : s.pendingAdd = 0) : s.queue.length = s.cap ∧ s.permits = s.cap := by
  obtain ⟨ha, hb, _, _, _⟩ := hinv
  simp only [h1, h2, h3, h4, h5, List.length_nil] at ha hb
  omega

/-- **an acquirer waits only while the pool is genuinely empty**: `permit` is disabled iff there is no permit,
    and at rest (no acquire / release half-way) no permit means an empty queue -/
theorem C19_waits_only_when_empty (s : St) (hinv : PoolInv s) :
    (step s .permit = .disabled ↔ s.permits = 0) ∧
    (s.acquiring = 0 → s.dropping = 0 → s.pendingAdd = 0 → (s.permits = 0 ↔ s.queue = [])) := by
  obtain ⟨ha, hb, _, _, _⟩ := hinv
  constructor
  · simp only [step]
    constructor
    · intro h; split at h
      · cases h
      · omega
    · intro h; simp [h]
  · intro h3 h4 h5
    constructor
    · intro hp
      apply List.length_eq_zero_iff.mp
      omega
    · intro hq
      rw [hq] at ha
      simp only [List.length_nil] at ha
      omega

/-! ## bucket selection -/

/-- **`acquire_buffer(size)` picks a large-enough bucket whenever one exists, `None` otherwise** -/
theorem C19_choose_ok (buckets : List (Nat × Nat)) (req : Nat) :
    (∀ sz, choose buckets req = .take sz → sz ≥ req ∧ ∃ b ∈ buckets, b.1 = sz ∧ b.2 > 0) ∧
    (∀ sz, choose buckets req = .block sz → sz ≥ req ∧ (∃ b ∈ buckets, b.1 = sz) ∧ ∀ b ∈ buckets, b.1 ≥ req → b.2 = 0) ∧
    (choose buckets req = .none ↔ ∀ b ∈ buckets, b.1 < req) := by
  unfold choose
  refine ⟨?_, ?_, ?_⟩
  · intro sz h
    split at h
    · next b hf =>
      cases h
      have := List.find?_some hf
      simp only [Bool.and_eq_true, decide_eq_true_eq] at this
      exact ⟨this.1, b, List.mem_of_find?_eq_some hf, rfl, this.2⟩
    · split at h <;> cases h
  · intro sz h
    split at h
    · cases h
    · next hnone =>
      split at h
      · next b hl =>
        cases h
        have hmem := List.mem_of_getLast? hl
        simp only [List.mem_filter, decide_eq_true_eq] at hmem
        refine ⟨hmem.2, ⟨b, hmem.1, rfl⟩, ?_⟩
        intro b' hb' hge
        have := List.find?_eq_none.mp hnone b' hb'
        simp only [Bool.and_eq_true, decide_eq_true_eq, not_and] at this
        have := this hge
        omega
      · cases h
  · constructor
    · intro h
      split at h
      · cases h
      · split at h
        · cases h
        · next hl =>
          intro b hb
          have : buckets.filter (fun b => decide (b.1 ≥ req)) = [] := by
            cases hf : buckets.filter (fun b => decide (b.1 ≥ req)) with
            | nil => rfl
            | cons a as => rw [hf] at hl; simp at hl
          have := (List.filter_eq_nil_iff.mp this) b hb
          simp only [decide_eq_true_eq] at this
          omega
    · intro h
      have h1 : buckets.find? (fun b => decide (b.1 ≥ req) && decide (b.2 > 0)) = none := by
        rw [List.find?_eq_none]
        intro b hb
        have := h b hb
        simp only [Bool.and_eq_true, decide_eq_true_eq, not_and]
        intro hge; omega
      have h2 : buckets.filter (fun b => decide (b.1 ≥ req)) = [] := by
        rw [List.filter_eq_nil_iff]
        intro b hb
        have := h b hb
        simp only [decide_eq_true_eq]; omega
      simp [h1, h2]

/-! ### non-vacuity: a run with freeze, clone, batch release and drops returns everything -/
example : run (init 2) [.permit, .pop, .freeze 0, .clone 0, .batchTake 0, .batchAdd 0, .dropShared 0, .releasePermit] =
    .ok { cap := 2, queue := [1, 0], permits := 2, acquiring := 0, muts := [], shared := [], dropping := 0, pendingAdd := 0 } := by
  decide

end Narwhal.Pool

#print axioms Narwhal.Pool.inv_step
#print axioms Narwhal.Pool.excl_step
#print axioms Narwhal.Pool.C19_run_safe
#print axioms Narwhal.Pool.C19_exclusive
#print axioms Narwhal.Pool.C19_pop_never_panics
#print axioms Narwhal.Pool.C19_conservation
#print axioms Narwhal.Pool.C19_all_back
#print axioms Narwhal.Pool.C19_waits_only_when_empty
#print axioms Narwhal.Pool.C19_choose_ok
