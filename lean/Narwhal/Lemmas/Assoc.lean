import Narwhal.Model.Server
/-! Association-list maps behave as finite maps under `lookupA` (no well-formedness needed). -/
namespace Narwhal.Server

@[simp] theorem lookupA_nil {β} (k : Str) : lookupA ([] : List (Str × β)) k = none := rfl

theorem lookupA_cons {β} (k' : Str) (v : β) (rest : List (Str × β)) (k : Str) :
    lookupA ((k', v) :: rest) k = if k' = k then some v else lookupA rest k := rfl

@[simp] theorem lookupA_setA {β} (l : List (Str × β)) (k : Str) (v : β) (k' : Str) :
    lookupA (setA l k v) k' = if k = k' then some v else lookupA l k' := by
  induction l with
  | nil => simp [setA, lookupA_cons]
  | cons x rest ih =>
    obtain ⟨a, b⟩ := x
    simp only [setA]
    split
    · next h => subst h; simp only [lookupA_cons]; split <;> rfl
    · next h =>
      simp only [lookupA_cons, ih]
      by_cases h1 : a = k'
      · subst h1; simp [h, Ne.symm h]
      · simp [h1]

@[simp] theorem lookupA_eraseA {β} (l : List (Str × β)) (k k' : Str) :
    lookupA (eraseA l k) k' = if k = k' then none else lookupA l k' := by
  induction l with
  | nil => simp [eraseA]
  | cons x rest ih =>
    obtain ⟨a, b⟩ := x
    simp only [eraseA] at ih ⊢
    by_cases ha : a = k
    · subst ha
      simp only [List.filter_cons, ne_eq, not_true_eq_false, decide_false, Bool.false_eq_true, if_false, ih, lookupA_cons]
      split <;> rfl
    · simp only [List.filter_cons, ne_eq, ha, not_false_eq_true, decide_true, if_true, lookupA_cons, ih]
      by_cases h1 : a = k'
      · subst h1; simp [Ne.symm ha]
      · simp [h1]

theorem lookupA_mem {β} {l : List (Str × β)} {k : Str} {v : β} (h : lookupA l k = some v) : (k, v) ∈ l := by
  induction l with
  | nil => simp at h
  | cons x rest ih =>
    obtain ⟨a, b⟩ := x
    rw [lookupA_cons] at h
    split at h
    · next heq => cases h; subst heq; simp
    · exact List.mem_cons_of_mem _ (ih h)

end Narwhal.Server
