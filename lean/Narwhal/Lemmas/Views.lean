import Narwhal.Lemmas.Invariants
/-!
# The two membership views agree in every reachable state

`memb s u h`   : user `u` is in the member set of the channel stored under handler `h`
`IndexOK s`    : `h ∈ in_channels[u]  ↔  u ∈ channels[h].members`   (reverse index = member sets)

Proved as an inductive invariant of `step` (together with `ChansOK`), hence for every history.
The disconnect clean-up (`leaveAll`) is a fold over the user's index entry; its loop invariant is the
"debt form": the user's index entry is already gone and every channel that still has the user as a
member is still pending.
-/
namespace Narwhal.Server

def memb (s : Srv) (u h : Str) : Prop := ∃ c, findChan s.chans h = some c ∧ u ∈ c.members

def IndexOK (s : Srv) : Prop := ∀ u h, h ∈ indexOf s u ↔ memb s u h

/-! ## the index as a finite map -/

theorem mem_indexAdd (s : Srv) (m h0 u h : Str) :
    h ∈ (lookupA (indexAdd s m h0) u).getD [] ↔ (u = m ∧ h = h0) ∨ h ∈ indexOf s u := by
  unfold indexAdd indexOf
  simp only [lookupA_setA]
  by_cases hmu : m = u
  · subst hmu
    by_cases hin : h0 ∈ (lookupA s.index m).getD []
    · simp only [hin, if_true, Option.getD_some, true_and]
      constructor
      · exact Or.inr
      · rintro (rfl | hh)
        · exact hin
        · exact hh
    · simp only [hin, if_false, if_true, Option.getD_some, true_and, List.mem_append, List.mem_singleton]
      exact Or.comm
  · have hum : ¬ u = m := fun e => hmu e.symm
    simp only [hmu, if_false, hum, false_and, false_or]

theorem mem_indexDel (s : Srv) (m h0 u h : Str) :
    h ∈ (lookupA (indexDel s m h0) u).getD [] ↔ h ∈ indexOf s u ∧ ¬ (u = m ∧ h = h0) := by
  unfold indexDel indexOf
  by_cases hmu : m = u
  · subst hmu
    cases hl : lookupA s.index m with
    | none => simp [hl]
    | some cur =>
      simp only
      have key : h ∈ cur.filter (· ≠ h0) ↔ h ∈ cur ∧ ¬ h = h0 := by simp
      split
      · next hemp =>
        have he : cur.filter (· ≠ h0) = [] := by simpa [List.isEmpty_iff] using hemp
        rw [he] at key
        simp only [lookupA_eraseA, if_true, Option.getD_none, Option.getD_some, true_and]
        exact key
      · simp only [lookupA_setA, if_true, Option.getD_some, true_and]
        exact key
  · have hum : ¬ u = m := fun e => hmu e.symm
    cases hl : lookupA s.index m with
    | none => simp [hum]
    | some cur =>
      simp only
      split
      · simp only [lookupA_eraseA, hmu, if_false, hum, false_and, not_false_eq_true, and_true]
      · simp only [lookupA_setA, hmu, if_false, hum, false_and, not_false_eq_true, and_true]

theorem indexDel_absent (s : Srv) (m h0 : Str) (h : lookupA s.index m = none) : indexDel s m h0 = s.index := by
  unfold indexDel; rw [h]

/-! ## the channel map as a finite map -/

theorem memb_put (s s' : Srv) (c : Chan) (hch : s'.chans = putChan s.chans c) (u h : Str) :
    memb s' u h ↔ if c.handler = h then u ∈ c.members else memb s u h := by
  unfold memb
  rw [hch]
  simp only [findChan, putChan, lookupA_setA]
  split
  · constructor
    · rintro ⟨c', hc', hu⟩; cases hc'; exact hu
    · intro hu; exact ⟨c, rfl, hu⟩
  · rfl

theorem memb_del (s s' : Srv) (h0 : Str) (hch : s'.chans = delChan s.chans h0) (u h : Str) :
    memb s' u h ↔ h0 ≠ h ∧ memb s u h := by
  unfold memb
  rw [hch]
  simp only [findChan, delChan, lookupA_eraseA]
  split
  · next he => simp [he]
  · next he => simp [he]

theorem memb_same (s s' : Srv) (hch : s'.chans = s.chans) (u h : Str) : memb s' u h ↔ memb s u h := by
  unfold memb; rw [hch]

theorem memb_chanOrNew (s : Srv) (u h : Str) : memb s u h ↔ u ∈ (chanOrNew s h).members := by
  unfold memb chanOrNew
  cases hf : findChan s.chans h with
  | none => simp [newChan]
  | some c => simp

theorem memb_of_find {s : Srv} {h : Str} {c : Chan} (hf : findChan s.chans h = some c) (u : Str) :
    memb s u h ↔ u ∈ c.members := by
  unfold memb; rw [hf]; simp

/-! ## removing one member -/

/-- after `removeMember` exactly the pair `(u, c.handler)` is gone from the membership relation -/
theorem removeMember_memb (s : Srv) (c : Chan) (u : Str) (env : Env)
    (hf : findChan s.chans c.handler = some c) (v h : Str) :
    memb (removeMember s c u env).1 v h ↔ memb s v h ∧ ¬ (v = u ∧ h = c.handler) := by
  have hput : ∀ (s' : Srv) (c' : Chan), c'.handler = c.handler → c'.members = c.members.filter (· ≠ u) →
      s'.chans = putChan s.chans c' → (memb s' v h ↔ memb s v h ∧ ¬ (v = u ∧ h = c.handler)) := by
    intro s' c' hh hm hch
    rw [memb_put s s' c' hch, hh]
    split
    · next he =>
      subst he
      rw [hm, memb_of_find hf]
      simp only [List.mem_filter, ne_eq, decide_eq_true_eq, and_true]
    · next he =>
      constructor
      · intro hm'; exact ⟨hm', fun ⟨_, e⟩ => he e.symm⟩
      · exact fun hm' => hm'.1
  unfold removeMember
  split
  · next hemp =>
    rw [memb_del s _ c.handler rfl]
    have hall : ∀ x ∈ c.members, x = u := by
      intro x hx
      have : (c.members.filter (· ≠ u)) = [] := by
        simpa [withoutMember_members, List.isEmpty_iff] using hemp
      apply Classical.byContradiction
      intro hne
      have hx' : x ∈ c.members.filter (· ≠ u) := by simp [hx, hne]
      rw [this] at hx'
      simp at hx'
    constructor
    · rintro ⟨hne, hm⟩; exact ⟨hm, fun ⟨_, e⟩ => hne e.symm⟩
    · rintro ⟨hm, hnot⟩
      refine ⟨?_, hm⟩
      intro he
      subst he
      rw [memb_of_find hf] at hm
      exact hnot ⟨hall v hm, rfl⟩
  · split
    · split
      · exact hput _ { withoutMember s.cfg.domain c u with owner := some (pickOwner env (withoutMember s.cfg.domain c u) u) } rfl rfl rfl
      · exact hput _ { withoutMember s.cfg.domain c u with owner := some (pickOwner env (withoutMember s.cfg.domain c u) u) } rfl rfl rfl
    · exact hput _ (withoutMember s.cfg.domain c u) rfl rfl rfl

theorem removeMember_index (s : Srv) (c : Chan) (u : Str) (env : Env) :
    (removeMember s c u env).1.index = indexDel s u c.handler := by
  unfold removeMember
  split
  · rfl
  · split
    · split <;> rfl
    · rfl

theorem removeMember_IndexOK (s : Srv) (c : Chan) (u : Str) (env : Env)
    (hf : findChan s.chans c.handler = some c) (hi : IndexOK s) : IndexOK (removeMember s c u env).1 := by
  intro v h
  rw [removeMember_memb s c u env hf]
  show h ∈ (lookupA (removeMember s c u env).1.index v).getD [] ↔ _
  rw [removeMember_index, mem_indexDel, hi v h]

/-! ## the disconnect clean-up -/

/-- loop invariant of `leave_all_channels` for user `u` with the channels `pending` still to visit -/
structure CleanInv (u : Str) (pending : List Str) (s : Srv) : Prop where
  chans  : ChansOK s
  others : ∀ v h, v ≠ u → (h ∈ indexOf s v ↔ memb s v h)
  gone   : lookupA s.index u = none
  debt   : ∀ h, memb s u h → h ∈ pending

theorem leaveOne_CleanInv (u : Str) (env : Env) (acc : Srv × List Emit) (h : Str) (rest : List Str)
    (hinv : CleanInv u (h :: rest) acc.1) : CleanInv u rest (leaveOne u env acc h).1 := by
  unfold leaveOne
  split
  · next hnone =>
    refine ⟨hinv.chans, hinv.others, hinv.gone, ?_⟩
    intro h' hm
    have := hinv.debt h' hm
    rcases List.mem_cons.mp this with rfl | hr
    · obtain ⟨c, hc, _⟩ := hm; rw [hnone] at hc; cases hc
    · exact hr
  · next c hf =>
    have hh : c.handler = h := (hinv.chans h c hf).1
    split
    · next hmem =>
      have hf' : findChan acc.1.chans c.handler = some c := by rw [hh]; exact hf
      refine ⟨removeMember_ChansOK _ _ _ _ hinv.chans (hinv.chans h c hf).2, ?_, ?_, ?_⟩
      · intro v h' hv
        rw [removeMember_memb acc.1 c u env hf']
        show h' ∈ (lookupA (removeMember acc.1 c u env).1.index v).getD [] ↔ _
        rw [removeMember_index, indexDel_absent _ _ _ hinv.gone]
        have := hinv.others v h' hv
        unfold indexOf at this
        rw [this]
        constructor
        · intro hm; exact ⟨hm, fun ⟨e, _⟩ => hv e⟩
        · exact fun hm => hm.1
      · rw [removeMember_index, indexDel_absent _ _ _ hinv.gone]; exact hinv.gone
      · intro h' hm
        rw [removeMember_memb acc.1 c u env hf'] at hm
        have := hinv.debt h' hm.1
        rcases List.mem_cons.mp this with rfl | hr
        · exact absurd ⟨rfl, hh.symm⟩ hm.2
        · exact hr
    · next hnot =>
      refine ⟨hinv.chans, hinv.others, hinv.gone, ?_⟩
      intro h' hm
      have := hinv.debt h' hm
      rcases List.mem_cons.mp this with rfl | hr
      · rw [memb_of_find hf] at hm; exact absurd hm hnot
      · exact hr

theorem foldl_leaveOne_CleanInv (u : Str) (env : Env) (hs : List Str) (acc : Srv × List Emit)
    (hinv : CleanInv u hs acc.1) : CleanInv u [] (hs.foldl (leaveOne u env) acc).1 := by
  induction hs generalizing acc with
  | nil => exact hinv
  | cons x xs ih => exact ih _ (leaveOne_CleanInv u env acc x xs hinv)

theorem CleanInv_done {u : Str} {s : Srv} (h : CleanInv u [] s) : IndexOK s ∧ ∀ h', ¬ memb s u h' := by
  have hno : ∀ h', ¬ memb s u h' := fun h' hm => by simpa using h.debt h' hm
  refine ⟨?_, hno⟩
  intro v h'
  by_cases hv : v = u
  · subst hv
    unfold indexOf
    rw [h.gone]
    simp only [Option.getD_none, List.not_mem_nil, false_iff]
    exact hno h'
  · exact h.others v h' hv

/-- `leave_all_channels`: afterwards the user is in no channel and the two views agree again -/
theorem leaveAll_clean (s : Srv) (u : Str) (env : Env) (hc : ChansOK s) (hi : IndexOK s) :
    IndexOK (leaveAll s u env).1 ∧ ∀ h, ¬ memb (leaveAll s u env).1 u h := by
  unfold leaveAll
  apply CleanInv_done
  apply foldl_leaveOne_CleanInv
  refine ⟨ChansOK_same hc _ rfl rfl, ?_, ?_, ?_⟩
  · intro v h hv
    show h ∈ (lookupA (eraseA s.index u) v).getD [] ↔ memb s v h
    rw [lookupA_eraseA]
    simp only [Ne.symm hv, if_false]
    exact hi v h
  · show lookupA (eraseA s.index u) u = none
    simp
  · intro h hm
    have hm' : memb s u h := hm
    exact (hi u h).mpr hm'

theorem dropAuthed_IndexOK (s : Srv) (k : Nat) (u : Str) (env : Env) (hc : ChansOK s) (hi : IndexOK s) :
    IndexOK (dropAuthed s k u env).1 := by
  unfold dropAuthed
  split
  · refine (leaveAll_clean { withoutConn s k with router := eraseA s.router u } u env (ChansOK_same hc _ rfl rfl) ?_).1
    intro v h; exact hi v h
  · intro v h; exact hi v h

theorem dropConn_IndexOK (s : Srv) (k : Nat) (env : Env) (hc : ChansOK s) (hi : IndexOK s) :
    IndexOK (dropConn s k env).1 := by
  unfold dropConn
  split
  · exact hi
  · split
    · exact dropAuthed_IndexOK _ _ _ _ hc hi
    · intro v h; exact hi v h

theorem fail_IndexOK (s : Srv) (k : Nat) (i : Option Nat) (r : Reason) (env : Env) (hc : ChansOK s) (hi : IndexOK s) :
    IndexOK (fail s k i r env).1 := by
  unfold fail
  split
  · exact hi
  · exact dropConn_IndexOK _ _ _ hc hi

theorem IndexOK_same {s : Srv} (hi : IndexOK s) (s' : Srv) (hix : s'.index = s.index) (hch : s'.chans = s.chans) :
    IndexOK s' := by
  intro v h
  rw [memb_same s s' hch]
  show h ∈ (lookupA s'.index v).getD [] ↔ _
  rw [hix]; exact hi v h

theorem IndexOK_put {s : Srv} (hi : IndexOK s) (c c' : Chan) (hf : findChan s.chans c.handler = some c)
    (hh : c'.handler = c.handler) (hm : c'.members = c.members) (s' : Srv) (hix : s'.index = s.index)
    (hch : s'.chans = putChan s.chans c') : IndexOK s' := by
  intro v h
  rw [memb_put s s' c' hch, hh]
  show h ∈ (lookupA s'.index v).getD [] ↔ _
  rw [hix]
  split
  · next he => subst he; rw [hm, ← memb_of_find hf]; exact hi v _
  · exact hi v h

theorem joinedState_IndexOK (s : Srv) (h m : Str) (hc : ChansOK s) (hi : IndexOK s) : IndexOK (joinedState s h m) := by
  intro v h'
  unfold joinedState
  rw [memb_put s _ (withMember s.cfg.domain (chanOrNew s h) m) rfl]
  show h' ∈ (lookupA (indexAdd s m h) v).getD [] ↔ _
  rw [mem_indexAdd, withMember_handler, (chanOrNew_ok s hc h).1]
  split
  · next he =>
    subst he
    show _ ↔ v ∈ (chanOrNew s h).members ++ [m]
    rw [hi v h, memb_chanOrNew]
    simp only [List.mem_append, List.mem_singleton]
    constructor
    · rintro (⟨e, _⟩ | hh)
      · exact Or.inr e
      · exact Or.inl hh
    · rintro (hh | e)
      · exact Or.inr hh
      · exact Or.inl (by simp [e])
  · next he =>
    rw [hi v h']
    constructor
    · rintro (⟨_, e⟩ | hh)
      · exact absurd e.symm he
      · exact hh
    · exact Or.inr

theorem authedStep_IndexOK (s : Srv) (k : Nat) (u : Str) (r : Req) (env : Env) (hc : ChansOK s) (hi : IndexOK s) :
    IndexOK (authedStep s k u r env).1 := by
  cases r <;> simp only [authedStep] <;> try exact fail_IndexOK _ _ _ _ _ hc hi
  case join id c ob =>
    unfold doJoin
    split
    · exact fail_IndexOK _ _ _ _ _ hc hi
    · next h m hck =>
      split
      · exact fail_IndexOK _ _ _ _ _ hc hi
      · exact joinedState_IndexOK s h m hc hi
  case leave id c ob =>
    unfold doLeave
    split
    · exact fail_IndexOK _ _ _ _ _ hc hi
    · next c' m hck =>
      split
      · exact fail_IndexOK _ _ _ _ _ hc hi
      · obtain ⟨⟨h, _, hf⟩, _, _⟩ := leaveCheck_ok hck
        have hh : c'.handler = h := (hc h c' hf).1
        have hf' : findChan s.chans c'.handler = some c' := by rw [hh]; exact hf
        have hrm := removeMember_IndexOK s c' m env hf' hi
        have hrc := removeMember_ChansOK s c' m env hc (hc h c' hf).2
        unfold leaveTail
        split
        · exact hrm
        · exact fail_IndexOK _ _ _ _ _ hrc hrm
  case broadcast id c q p =>
    unfold doBroadcast
    split
    · exact fail_IndexOK _ _ _ _ _ hc hi
    · split <;> exact hi
  case members id c pg sz =>
    unfold doMembers
    split
    · exact fail_IndexOK _ _ _ _ _ hc hi
    · exact hi
  case channels id pg sz o => exact hi
  case getAcl id c t pg sz =>
    unfold doGetAcl
    split
    · exact fail_IndexOK _ _ _ _ _ hc hi
    · exact hi
  case setAcl id c t a ns =>
    unfold doSetAcl
    split
    · exact fail_IndexOK _ _ _ _ _ hc hi
    · next c' hck =>
      obtain ⟨⟨h, _, hf⟩, _, _⟩ := setAclCheck_ok hck
      have hh : c'.handler = h := (hc h c' hf).1
      refine IndexOK_put hi c' _ (by rw [hh]; exact hf) (setAcl_handler _ _ _ _) ?_ _ rfl rfl
      cases t <;> rfl
  case getConfig id c =>
    unfold doGetConfig
    split
    · exact fail_IndexOK _ _ _ _ _ hc hi
    · exact hi
  case setConfig id c mc mp =>
    unfold doSetConfig
    split
    · exact fail_IndexOK _ _ _ _ _ hc hi
    · next c' hck =>
      obtain ⟨⟨h, _, hf⟩, _, _⟩ := setConfigCheck_ok hck
      have hh : c'.handler = h := (hc h c' hf).1
      exact IndexOK_put hi c' (mergeConfig c' mc mp) (by rw [hh]; exact hf) rfl rfl _ rfl rfl
  case modDirect id p =>
    unfold doModDirect
    split
    · exact fail_IndexOK _ _ _ _ _ hc hi
    · exact hi

theorem connectingStep_IndexOK (s : Srv) (k : Nat) (r : Req) (env : Env) (hc : ChansOK s) (hi : IndexOK s) :
    IndexOK (connectingStep s k r env).1 := by
  unfold connectingStep
  split
  · split
    · exact fail_IndexOK _ _ _ _ _ hc hi
    · split
      · exact fail_IndexOK _ _ _ _ _ hc hi
      · exact IndexOK_same hi _ rfl rfl
  · exact fail_IndexOK _ _ _ _ _ hc hi

theorem connectedStep_IndexOK (s : Srv) (k : Nat) (r : Req) (env : Env) (hc : ChansOK s) (hi : IndexOK s) :
    IndexOK (connectedStep s k r env).1 := by
  unfold connectedStep
  split
  · split
    · exact fail_IndexOK _ _ _ _ _ hc hi
    · split
      · exact fail_IndexOK _ _ _ _ _ hc hi
      · split
        · exact fail_IndexOK _ _ _ _ _ hc hi
        · exact IndexOK_same hi _ rfl rfl
  · split
    · exact fail_IndexOK _ _ _ _ _ hc hi
    · split
      · exact fail_IndexOK _ _ _ _ _ hc hi
      · split
        · split
          · exact fail_IndexOK _ _ _ _ _ hc hi
          · exact IndexOK_same hi _ rfl rfl
        · exact hi
        · exact hi
        · exact fail_IndexOK _ _ _ _ _ hc hi
  · exact fail_IndexOK _ _ _ _ _ hc hi

theorem step_IndexOK (s : Srv) (op : Op) (env : Env) (hc : ChansOK s) (hi : IndexOK s) : IndexOK (step s op env).1 := by
  unfold step
  split
  · split
    · exact hi
    · exact IndexOK_same hi _ rfl rfl
  · exact dropConn_IndexOK _ _ _ hc hi
  · split
    · exact hi
    · split
      · exact fail_IndexOK _ _ _ _ _ hc hi
      · exact connectingStep_IndexOK _ _ _ _ hc hi
      · exact connectedStep_IndexOK _ _ _ _ hc hi
      · exact authedStep_IndexOK _ _ _ _ _ hc hi

theorem run_IndexOK (s : Srv) (hist : List (Op × Env)) (hc : ChansOK s) (hi : IndexOK s) : IndexOK (run s hist).1 := by
  induction hist generalizing s with
  | nil => exact hi
  | cons x xs ih =>
    obtain ⟨op, env⟩ := x
    simp only [run]
    exact ih _ (step_ChansOK s op env hc) (step_IndexOK s op env hc hi)

theorem init_IndexOK (cfg : Cfg) : IndexOK (init cfg) := by
  intro u h
  simp [init, indexOf, memb, findChan]

/-- **every reachable state**: the reverse index and the member sets describe the same relation -/
theorem reachable_IndexOK (cfg : Cfg) (hist : List (Op × Env)) : IndexOK (run (init cfg) hist).1 :=
  run_IndexOK _ _ (init_ChansOK cfg) (init_IndexOK cfg)

/-! # Router and liveness: every member has a live connection

`RouterOK s` : `k ∈ connections[u]  ↔  k is a live connection authenticated as u`
`LiveOK s`   : `u ∈ channels[h].members → connections[u] ≠ ∅`      (no ghost members)
-/

def RouterOK (s : Srv) : Prop := ∀ u k, k ∈ connsOf s u ↔ ∃ c, findConn s.conns k = some c ∧ c.phase = .authed u

def LiveOK (s : Srv) : Prop := ∀ u h, memb s u h → connsOf s u ≠ []

theorem findConn_filter (cs : List Conn) (k k' : Nat) :
    findConn (cs.filter (·.id ≠ k)) k' = if k' = k then none else findConn cs k' := by
  induction cs with
  | nil => simp [findConn]
  | cons c rest ih =>
    by_cases hck : c.id = k
    · simp only [List.filter_cons, hck, ne_eq, not_true_eq_false, decide_false, Bool.false_eq_true, if_false, ih, findConn]
      by_cases hk : k' = k
      · simp [hk]
      · have : ¬ k = k' := fun e => hk e.symm
        simp [hk, this]
    · simp only [List.filter_cons, ne_eq, hck, not_false_eq_true, decide_true, if_true, findConn, ih]
      by_cases hck' : c.id = k'
      · have : ¬ k' = k := fun e => hck (hck'.trans e)
        simp [hck', this]
      · simp [hck']

theorem findConn_setPhase (cs : List Conn) (k k' : Nat) (p : Phase) :
    findConn (cs.map (fun c => if c.id = k then { c with phase := p } else c)) k' =
      if k' = k then (findConn cs k).map (fun c => { c with phase := p }) else findConn cs k' := by
  induction cs with
  | nil => simp [findConn]
  | cons c rest ih =>
    simp only [List.map_cons, findConn, ih]
    by_cases hck : c.id = k
    · simp only [hck, if_true]
      by_cases hk : k' = k
      · subst hk; simp [hck]
      · have : ¬ k = k' := fun e => hk e.symm
        simp [hk, this]
    · simp only [hck, if_false]
      by_cases hk : k' = k
      · subst hk; simp [hck]
      · by_cases hck' : c.id = k'
        · simp [hck', hk]
        · simp [hck', hk]

theorem findConn_append (cs : List Conn) (c : Conn) (k' : Nat) :
    findConn (cs ++ [c]) k' = match findConn cs k' with
      | some x => some x
      | none => if c.id = k' then some c else none := by
  induction cs with
  | nil => simp [findConn]
  | cons d rest ih =>
    simp only [List.cons_append, findConn]
    split
    · rfl
    · exact ih

/-! ## what the clean-up leaves alone -/

@[simp] theorem removeMember_router (s : Srv) (c : Chan) (u : Str) (env : Env) : (removeMember s c u env).1.router = s.router := by
  unfold removeMember; split
  · rfl
  · split
    · split <;> rfl
    · rfl

@[simp] theorem removeMember_conns (s : Srv) (c : Chan) (u : Str) (env : Env) : (removeMember s c u env).1.conns = s.conns := by
  unfold removeMember; split
  · rfl
  · split
    · split <;> rfl
    · rfl

theorem leaveOne_router (u : Str) (env : Env) (acc : Srv × List Emit) (h : Str) :
    (leaveOne u env acc h).1.router = acc.1.router ∧ (leaveOne u env acc h).1.conns = acc.1.conns := by
  unfold leaveOne; split
  · exact ⟨rfl, rfl⟩
  · split
    · simp
    · exact ⟨rfl, rfl⟩

theorem foldl_leaveOne_router (u : Str) (env : Env) (hs : List Str) (acc : Srv × List Emit) :
    (hs.foldl (leaveOne u env) acc).1.router = acc.1.router ∧ (hs.foldl (leaveOne u env) acc).1.conns = acc.1.conns := by
  induction hs generalizing acc with
  | nil => exact ⟨rfl, rfl⟩
  | cons h hs ih =>
    simp only [List.foldl_cons]
    rw [(ih _).1, (ih _).2]
    exact leaveOne_router u env acc h

theorem leaveAll_router (s : Srv) (u : Str) (env : Env) :
    (leaveAll s u env).1.router = s.router ∧ (leaveAll s u env).1.conns = s.conns := by
  unfold leaveAll
  exact foldl_leaveOne_router u env _ _

/-- the clean-up only ever shrinks the membership relation -/
theorem leaveOne_memb_sub (u : Str) (env : Env) (acc : Srv × List Emit) (h : Str) (hc : ChansOK acc.1) (v h' : Str)
    (hm : memb (leaveOne u env acc h).1 v h') : memb acc.1 v h' := by
  unfold leaveOne at hm
  split at hm
  · exact hm
  · next c hf =>
    split at hm
    · have hh : c.handler = h := (hc h c hf).1
      rw [removeMember_memb acc.1 c u env (by rw [hh]; exact hf)] at hm
      exact hm.1
    · exact hm

theorem foldl_leaveOne_memb_sub (u : Str) (env : Env) (hs : List Str) (acc : Srv × List Emit) (hc : ChansOK acc.1)
    (v h' : Str) (hm : memb (hs.foldl (leaveOne u env) acc).1 v h') : memb acc.1 v h' := by
  induction hs generalizing acc with
  | nil => exact hm
  | cons x xs ih =>
    exact leaveOne_memb_sub u env acc x hc v h' (ih _ (leaveOne_ChansOK u env acc x hc) hm)

theorem leaveAll_memb_sub (s : Srv) (u : Str) (env : Env) (hc : ChansOK s) (v h' : Str)
    (hm : memb (leaveAll s u env).1 v h') : memb s v h' := by
  unfold leaveAll at hm
  exact foldl_leaveOne_memb_sub u env _ _ (ChansOK_same hc _ rfl rfl) v h' hm

/-! ## `RouterOK` is preserved -/

theorem RouterOK_same {s : Srv} (hr : RouterOK s) (s' : Srv) (h1 : s'.router = s.router) (h2 : s'.conns = s.conns) :
    RouterOK s' := by
  intro u k
  show k ∈ (lookupA s'.router u).getD [] ↔ _
  rw [h1, h2]; exact hr u k

theorem dropAuthed_RouterOK (s : Srv) (k : Nat) (u : Str) (env : Env) (hr : RouterOK s)
    (hk : ∃ c, findConn s.conns k = some c ∧ c.phase = .authed u) : RouterOK (dropAuthed s k u env).1 := by
  obtain ⟨ck, hfk, hpk⟩ := hk
  -- characterisation shared by both branches
  have key : ∀ (rt : List (Str × List Nat)), (∀ v, (lookupA rt v).getD [] = if v = u then restConns s u k else connsOf s v) →
      ∀ (s' : Srv), s'.router = rt → s'.conns = s.conns.filter (·.id ≠ k) → RouterOK s' := by
    intro rt hrt s' h1 h2 v k'
    show k' ∈ (lookupA s'.router v).getD [] ↔ _
    rw [h1, h2, hrt v, findConn_filter]
    by_cases hv : v = u
    · subst hv
      simp only [if_true, restConns, List.mem_filter, ne_eq, decide_eq_true_eq]
      rw [hr v k']
      by_cases hkk : k' = k
      · simp [hkk]
      · simp [hkk]
    · simp only [hv, if_false]
      rw [hr v k']
      by_cases hkk : k' = k
      · subst hkk
        simp only [if_true]
        constructor
        · rintro ⟨c, hc, hp⟩
          rw [hfk] at hc; cases hc
          rw [hpk] at hp; cases hp; exact absurd rfl hv
        · rintro ⟨c, hc, _⟩; cases hc
      · simp [hkk]
  unfold dropAuthed
  split
  · next hemp =>
    have hla := leaveAll_router { withoutConn s k with router := eraseA s.router u } u env
    refine key (eraseA s.router u) ?_ _ hla.1 hla.2
    intro v
    rw [lookupA_eraseA]
    by_cases hv : v = u
    · subst hv; simp [List.isEmpty_iff] at hemp; simp [hemp]
    · have : ¬ u = v := fun e => hv e.symm
      simp [hv, this, connsOf]
  · refine key (setA s.router u (restConns s u k)) ?_ _ rfl rfl
    intro v
    rw [lookupA_setA]
    by_cases hv : v = u
    · subst hv; simp
    · have : ¬ u = v := fun e => hv e.symm
      simp [hv, this, connsOf]

theorem dropConn_RouterOK (s : Srv) (k : Nat) (env : Env) (hr : RouterOK s) : RouterOK (dropConn s k env).1 := by
  unfold dropConn
  split
  · exact hr
  · next c hf =>
    split
    · next u hp => exact dropAuthed_RouterOK s k u env hr ⟨c, hf, hp⟩
    · next hnot =>
      intro v k'
      show k' ∈ (lookupA s.router v).getD [] ↔ ∃ c', findConn (s.conns.filter (·.id ≠ k)) k' = some c' ∧ _
      rw [findConn_filter]
      have := hr v k'
      unfold connsOf at this
      rw [this]
      by_cases hkk : k' = k
      · subst hkk
        simp only [if_true]
        constructor
        · rintro ⟨c', hc', hp'⟩
          rw [hf] at hc'; cases hc'
          exact absurd hp' (hnot v)
        · rintro ⟨c', hc', _⟩; cases hc'
      · simp [hkk]

theorem fail_RouterOK (s : Srv) (k : Nat) (i : Option Nat) (r : Reason) (env : Env) (hr : RouterOK s) :
    RouterOK (fail s k i r env).1 := by
  unfold fail
  split
  · exact hr
  · exact dropConn_RouterOK _ _ _ hr

theorem setPhase_nonauth_RouterOK (s : Srv) (k : Nat) (p : Phase) (hr : RouterOK s)
    (hp : ∀ u, p ≠ .authed u) (hk : ∀ c u, findConn s.conns k = some c → c.phase ≠ .authed u) :
    RouterOK (setPhase s k p) := by
  intro v k'
  show k' ∈ (lookupA s.router v).getD [] ↔ ∃ c', findConn (s.conns.map _) k' = some c' ∧ _
  rw [findConn_setPhase]
  have := hr v k'
  unfold connsOf at this
  rw [this]
  by_cases hkk : k' = k
  · subst hkk
    simp only [if_true]
    constructor
    · rintro ⟨c, hc, hpc⟩; exact absurd hpc (hk c v hc)
    · rintro ⟨c', hc', hpc'⟩
      cases hfc : findConn s.conns k' with
      | none => rw [hfc] at hc'; cases hc'
      | some c0 =>
        rw [hfc] at hc'; cases hc'
        exact absurd hpc' (hp v)
  · simp [hkk]

theorem register_RouterOK (s : Srv) (k : Nat) (u : Str) (hr : RouterOK s)
    (hk : ∃ c, findConn s.conns k = some c ∧ ∀ v, c.phase ≠ .authed v) : RouterOK (register s k u) := by
  obtain ⟨ck, hfk, hnk⟩ := hk
  intro v k'
  unfold register
  show k' ∈ (lookupA (setA s.router u (connsOf s u ++ [k])) v).getD [] ↔ ∃ c', findConn (s.conns.map _) k' = some c' ∧ _
  rw [findConn_setPhase, lookupA_setA]
  by_cases hv : u = v
  · subst hv
    simp only [if_true, Option.getD_some, List.mem_append, List.mem_singleton]
    by_cases hkk : k' = k
    · subst hkk
      simp only [if_true, or_true, true_iff, hfk, Option.map_some]
      exact ⟨_, rfl, rfl⟩
    · simp only [hkk, or_false, if_false]
      exact hr u k'
  · simp only [hv, if_false]
    have := hr v k'
    unfold connsOf at this
    rw [this]
    by_cases hkk : k' = k
    · subst hkk
      simp only [if_true, hfk, Option.map_some]
      constructor
      · rintro ⟨c, hc, hpc⟩; cases hc; exact absurd hpc (hnk v)
      · rintro ⟨c', hc', hpc'⟩
        cases hc'
        simp only [Phase.authed.injEq] at hpc'
        exact absurd hpc' hv
    · simp [hkk]

theorem removeMember_RouterOK (s : Srv) (c : Chan) (u : Str) (env : Env) (hr : RouterOK s) :
    RouterOK (removeMember s c u env).1 := RouterOK_same hr _ (by simp) (by simp)

theorem authedStep_RouterOK (s : Srv) (k : Nat) (u : Str) (r : Req) (env : Env) (hr : RouterOK s) :
    RouterOK (authedStep s k u r env).1 := by
  cases r <;> simp only [authedStep] <;> try exact fail_RouterOK _ _ _ _ _ hr
  case join id c ob =>
    unfold doJoin
    split
    · exact fail_RouterOK _ _ _ _ _ hr
    · split
      · exact fail_RouterOK _ _ _ _ _ hr
      · exact RouterOK_same hr _ rfl rfl
  case leave id c ob =>
    unfold doLeave
    split
    · exact fail_RouterOK _ _ _ _ _ hr
    · split
      · exact fail_RouterOK _ _ _ _ _ hr
      · unfold leaveTail
        split
        · exact removeMember_RouterOK _ _ _ _ hr
        · exact fail_RouterOK _ _ _ _ _ (removeMember_RouterOK _ _ _ _ hr)
  case broadcast id c q p =>
    unfold doBroadcast
    split
    · exact fail_RouterOK _ _ _ _ _ hr
    · split <;> exact hr
  case members id c pg sz =>
    unfold doMembers
    split
    · exact fail_RouterOK _ _ _ _ _ hr
    · exact hr
  case channels id pg sz o => exact hr
  case getAcl id c t pg sz =>
    unfold doGetAcl
    split
    · exact fail_RouterOK _ _ _ _ _ hr
    · exact hr
  case setAcl id c t a ns =>
    unfold doSetAcl
    split
    · exact fail_RouterOK _ _ _ _ _ hr
    · exact RouterOK_same hr _ rfl rfl
  case getConfig id c =>
    unfold doGetConfig
    split
    · exact fail_RouterOK _ _ _ _ _ hr
    · exact hr
  case setConfig id c mc mp =>
    unfold doSetConfig
    split
    · exact fail_RouterOK _ _ _ _ _ hr
    · exact RouterOK_same hr _ rfl rfl
  case modDirect id p =>
    unfold doModDirect
    split
    · exact fail_RouterOK _ _ _ _ _ hr
    · exact hr

theorem connectingStep_RouterOK (s : Srv) (k : Nat) (r : Req) (env : Env) (hr : RouterOK s)
    (hk : ∃ c, findConn s.conns k = some c ∧ c.phase = .connecting) : RouterOK (connectingStep s k r env).1 := by
  obtain ⟨ck, hfk, hpk⟩ := hk
  unfold connectingStep
  split
  · split
    · exact fail_RouterOK _ _ _ _ _ hr
    · split
      · exact fail_RouterOK _ _ _ _ _ hr
      · refine setPhase_nonauth_RouterOK s k .connected hr (fun u h => by cases h) ?_
        intro c u hc hp
        rw [hfk] at hc; cases hc; rw [hpk] at hp; cases hp
  · exact fail_RouterOK _ _ _ _ _ hr

theorem connectedStep_RouterOK (s : Srv) (k : Nat) (r : Req) (env : Env) (hr : RouterOK s)
    (hk : ∃ c, findConn s.conns k = some c ∧ c.phase = .connected) : RouterOK (connectedStep s k r env).1 := by
  obtain ⟨ck, hfk, hpk⟩ := hk
  have hreg : ∀ u, RouterOK (register s k u) := fun u =>
    register_RouterOK s k u hr ⟨ck, hfk, fun v h => by rw [hpk] at h; cases h⟩
  unfold connectedStep
  split
  · split
    · exact fail_RouterOK _ _ _ _ _ hr
    · split
      · exact fail_RouterOK _ _ _ _ _ hr
      · split
        · exact fail_RouterOK _ _ _ _ _ hr
        · exact hreg _
  · split
    · exact fail_RouterOK _ _ _ _ _ hr
    · split
      · exact fail_RouterOK _ _ _ _ _ hr
      · split
        · split
          · exact fail_RouterOK _ _ _ _ _ hr
          · exact hreg _
        · exact hr
        · exact hr
        · exact fail_RouterOK _ _ _ _ _ hr
  · exact fail_RouterOK _ _ _ _ _ hr

theorem step_RouterOK (s : Srv) (op : Op) (env : Env) (hr : RouterOK s) : RouterOK (step s op env).1 := by
  unfold step
  split
  · next k =>
    split
    · exact hr
    · next hnone =>
      intro v k'
      show k' ∈ (lookupA s.router v).getD [] ↔ ∃ c', findConn (s.conns ++ [_]) k' = some c' ∧ _
      rw [findConn_append]
      have := hr v k'
      unfold connsOf at this
      rw [this]
      cases hf : findConn s.conns k' with
      | some x => simp
      | none =>
        constructor
        · rintro ⟨c, hc, _⟩; cases hc
        · rintro ⟨c', hc', hp'⟩
          simp only at hc'
          by_cases hkk : k = k'
          · simp only [hkk, if_true, Option.some.injEq] at hc'
            rw [← hc'] at hp'
            cases hp'
          · simp [hkk] at hc'
  · exact dropConn_RouterOK _ _ _ hr
  · split
    · exact hr
    · next c hf =>
      split
      · exact fail_RouterOK _ _ _ _ _ hr
      · next hp => exact connectingStep_RouterOK _ _ _ _ hr ⟨c, hf, hp⟩
      · next hp => exact connectedStep_RouterOK _ _ _ _ hr ⟨c, hf, hp⟩
      · exact authedStep_RouterOK _ _ _ _ _ hr

/-! ## `LiveOK` is preserved -/

theorem dropAuthed_LiveOK (s : Srv) (k : Nat) (u : Str) (env : Env) (hc : ChansOK s) (hi : IndexOK s) (hl : LiveOK s) :
    LiveOK (dropAuthed s k u env).1 := by
  unfold dropAuthed
  split
  · intro v h hm
    have hcl := leaveAll_clean { withoutConn s k with router := eraseA s.router u } u env
      (ChansOK_same hc _ rfl rfl) (fun a b => hi a b)
    have hvu : v ≠ u := fun e => hcl.2 h (e ▸ hm)
    have hm0 : memb s v h := leaveAll_memb_sub { withoutConn s k with router := eraseA s.router u } u env (ChansOK_same hc _ rfl rfl) v h hm
    have := hl v h hm0
    show (lookupA (leaveAll _ u env).1.router v).getD [] ≠ []
    rw [(leaveAll_router _ u env).1]
    show (lookupA (eraseA s.router u) v).getD [] ≠ []
    rw [lookupA_eraseA]
    simp only [Ne.symm hvu, if_false]
    exact this
  · next hne =>
    intro v h hm
    have hm0 : memb s v h := hm
    show (lookupA (setA s.router u (restConns s u k)) v).getD [] ≠ []
    rw [lookupA_setA]
    by_cases hv : u = v
    · simp only [hv, if_true, Option.getD_some]
      intro e; subst hv; simp [e] at hne
    · simp only [hv, if_false]; exact hl v h hm0

theorem dropConn_LiveOK (s : Srv) (k : Nat) (env : Env) (hc : ChansOK s) (hi : IndexOK s) (hl : LiveOK s) :
    LiveOK (dropConn s k env).1 := by
  unfold dropConn
  split
  · exact hl
  · split
    · exact dropAuthed_LiveOK _ _ _ _ hc hi hl
    · intro v h hm; exact hl v h hm

theorem fail_LiveOK (s : Srv) (k : Nat) (i : Option Nat) (r : Reason) (env : Env) (hc : ChansOK s) (hi : IndexOK s)
    (hl : LiveOK s) : LiveOK (fail s k i r env).1 := by
  unfold fail
  split
  · exact hl
  · exact dropConn_LiveOK _ _ _ hc hi hl

theorem LiveOK_shrink {s : Srv} (hl : LiveOK s) (s' : Srv) (hr : s'.router = s.router)
    (hm : ∀ v h, memb s' v h → memb s v h) : LiveOK s' := by
  intro v h hm'
  show (lookupA s'.router v).getD [] ≠ []
  rw [hr]; exact hl v h (hm v h hm')

theorem removeMember_LiveOK (s : Srv) (c : Chan) (u : Str) (env : Env) (hf : findChan s.chans c.handler = some c)
    (hl : LiveOK s) : LiveOK (removeMember s c u env).1 :=
  LiveOK_shrink hl _ (by simp) (fun v h hm => ((removeMember_memb s c u env hf v h).mp hm).1)

theorem authedStep_LiveOK (s : Srv) (k : Nat) (u : Str) (r : Req) (env : Env) (hc : ChansOK s) (hi : IndexOK s)
    (hr : RouterOK s) (hl : LiveOK s) (hk : ∃ c, findConn s.conns k = some c ∧ c.phase = .authed u) :
    LiveOK (authedStep s k u r env).1 := by
  cases r <;> simp only [authedStep] <;> try exact fail_LiveOK _ _ _ _ _ hc hi hl
  case join id c ob =>
    unfold doJoin
    split
    · exact fail_LiveOK _ _ _ _ _ hc hi hl
    · next h m hck =>
      split
      · exact fail_LiveOK _ _ _ _ _ hc hi hl
      · obtain ⟨_, _, hjm, _⟩ := joinCheck_ok hck
        have hmlive : connsOf s m ≠ [] := by
          rcases joinMember_ok hjm with ⟨_, rfl⟩ | ⟨od, _, _, _, hcn⟩
          · intro e
            have := (hr m k).mpr hk
            rw [e] at this; cases this
          · exact hcn
        intro v h' hm
        unfold joinedState at hm
        rw [memb_put s _ (withMember s.cfg.domain (chanOrNew s h) m) rfl, withMember_handler, (chanOrNew_ok s hc h).1] at hm
        show (lookupA s.router v).getD [] ≠ []
        split at hm
        · next he =>
          subst he
          have hm' : v ∈ (chanOrNew s h).members ++ [m] := hm
          rcases List.mem_append.mp hm' with hv | hv
          · exact hl v h ((memb_chanOrNew s v h).mpr hv)
          · simp only [List.mem_singleton] at hv; subst hv; exact hmlive
        · exact hl v h' hm
  case leave id c ob =>
    unfold doLeave
    split
    · exact fail_LiveOK _ _ _ _ _ hc hi hl
    · next c' m hck =>
      split
      · exact fail_LiveOK _ _ _ _ _ hc hi hl
      · obtain ⟨⟨h, _, hf⟩, _, _⟩ := leaveCheck_ok hck
        have hh : c'.handler = h := (hc h c' hf).1
        have hf' : findChan s.chans c'.handler = some c' := by rw [hh]; exact hf
        have hrl := removeMember_LiveOK s c' m env hf' hl
        unfold leaveTail
        split
        · exact hrl
        · exact fail_LiveOK _ _ _ _ _ (removeMember_ChansOK s c' m env hc (hc h c' hf).2)
            (removeMember_IndexOK s c' m env hf' hi) hrl
  case broadcast id c q p =>
    unfold doBroadcast
    split
    · exact fail_LiveOK _ _ _ _ _ hc hi hl
    · split <;> exact hl
  case members id c pg sz =>
    unfold doMembers
    split
    · exact fail_LiveOK _ _ _ _ _ hc hi hl
    · exact hl
  case channels id pg sz o => exact hl
  case getAcl id c t pg sz =>
    unfold doGetAcl
    split
    · exact fail_LiveOK _ _ _ _ _ hc hi hl
    · exact hl
  case setAcl id c t a ns =>
    unfold doSetAcl
    split
    · exact fail_LiveOK _ _ _ _ _ hc hi hl
    · next c' hck =>
      obtain ⟨⟨h, _, hf⟩, _, _⟩ := setAclCheck_ok hck
      have hh : c'.handler = h := (hc h c' hf).1
      refine LiveOK_shrink hl _ rfl ?_
      intro v h' hm
      rw [memb_put s _ _ rfl, setAcl_handler, hh] at hm
      split at hm
      · next he => subst he; rw [memb_of_find hf]; cases t <;> exact hm
      · exact hm
  case getConfig id c =>
    unfold doGetConfig
    split
    · exact fail_LiveOK _ _ _ _ _ hc hi hl
    · exact hl
  case setConfig id c mc mp =>
    unfold doSetConfig
    split
    · exact fail_LiveOK _ _ _ _ _ hc hi hl
    · next c' hck =>
      obtain ⟨⟨h, _, hf⟩, _, _⟩ := setConfigCheck_ok hck
      have hh : c'.handler = h := (hc h c' hf).1
      refine LiveOK_shrink hl _ rfl ?_
      intro v h' hm
      rw [memb_put s _ (mergeConfig c' mc mp) rfl] at hm
      have hh' : (mergeConfig c' mc mp).handler = h := hh
      rw [hh'] at hm
      split at hm
      · next he => subst he; rw [memb_of_find hf]; exact hm
      · exact hm
  case modDirect id p =>
    unfold doModDirect
    split
    · exact fail_LiveOK _ _ _ _ _ hc hi hl
    · exact hl

theorem register_LiveOK (s : Srv) (k : Nat) (u : Str) (hl : LiveOK s) : LiveOK (register s k u) := by
  intro v h hm
  have hm0 : memb s v h := hm
  show (lookupA (setA s.router u (connsOf s u ++ [k])) v).getD [] ≠ []
  rw [lookupA_setA]
  by_cases hv : u = v
  · simp [hv]
  · simp only [hv, if_false]; exact hl v h hm0

theorem connectingStep_LiveOK (s : Srv) (k : Nat) (r : Req) (env : Env) (hc : ChansOK s) (hi : IndexOK s) (hl : LiveOK s) :
    LiveOK (connectingStep s k r env).1 := by
  unfold connectingStep
  split
  · split
    · exact fail_LiveOK _ _ _ _ _ hc hi hl
    · split
      · exact fail_LiveOK _ _ _ _ _ hc hi hl
      · intro v h hm; exact hl v h hm
  · exact fail_LiveOK _ _ _ _ _ hc hi hl

theorem connectedStep_LiveOK (s : Srv) (k : Nat) (r : Req) (env : Env) (hc : ChansOK s) (hi : IndexOK s) (hl : LiveOK s) :
    LiveOK (connectedStep s k r env).1 := by
  unfold connectedStep
  split
  · split
    · exact fail_LiveOK _ _ _ _ _ hc hi hl
    · split
      · exact fail_LiveOK _ _ _ _ _ hc hi hl
      · split
        · exact fail_LiveOK _ _ _ _ _ hc hi hl
        · exact register_LiveOK _ _ _ hl
  · split
    · exact fail_LiveOK _ _ _ _ _ hc hi hl
    · split
      · exact fail_LiveOK _ _ _ _ _ hc hi hl
      · split
        · split
          · exact fail_LiveOK _ _ _ _ _ hc hi hl
          · exact register_LiveOK _ _ _ hl
        · exact hl
        · exact hl
        · exact fail_LiveOK _ _ _ _ _ hc hi hl
  · exact fail_LiveOK _ _ _ _ _ hc hi hl

theorem step_LiveOK (s : Srv) (op : Op) (env : Env) (hc : ChansOK s) (hi : IndexOK s) (hr : RouterOK s) (hl : LiveOK s) :
    LiveOK (step s op env).1 := by
  unfold step
  split
  · split
    · exact hl
    · intro v h hm; exact hl v h hm
  · exact dropConn_LiveOK _ _ _ hc hi hl
  · split
    · exact hl
    · next c hf =>
      split
      · exact fail_LiveOK _ _ _ _ _ hc hi hl
      · exact connectingStep_LiveOK _ _ _ _ hc hi hl
      · exact connectedStep_LiveOK _ _ _ _ hc hi hl
      · next u hp => exact authedStep_LiveOK _ _ _ _ _ hc hi hr hl ⟨c, hf, hp⟩

/-- the four invariants together -/
structure WF (s : Srv) : Prop where
  chans  : ChansOK s
  index  : IndexOK s
  router : RouterOK s
  live   : LiveOK s

theorem step_WF (s : Srv) (op : Op) (env : Env) (h : WF s) : WF (step s op env).1 :=
  ⟨step_ChansOK s op env h.chans, step_IndexOK s op env h.chans h.index, step_RouterOK s op env h.router,
    step_LiveOK s op env h.chans h.index h.router h.live⟩

theorem run_WF (s : Srv) (hist : List (Op × Env)) (h : WF s) : WF (run s hist).1 := by
  induction hist generalizing s with
  | nil => exact h
  | cons x xs ih =>
    obtain ⟨op, env⟩ := x
    simp only [run]
    exact ih _ (step_WF s op env h)

theorem init_WF (cfg : Cfg) : WF (init cfg) := by
  refine ⟨init_ChansOK cfg, init_IndexOK cfg, ?_, ?_⟩
  · intro u k; simp [init, connsOf, findConn]
  · intro u h hm; simp [init, memb, findChan] at hm

/-- **every reachable state** satisfies all four invariants -/
theorem reachable_WF (cfg : Cfg) (hist : List (Op × Env)) : WF (run (init cfg) hist).1 :=
  run_WF _ _ (init_WF cfg)

end Narwhal.Server
