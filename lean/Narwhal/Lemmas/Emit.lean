import Narwhal.Lemmas.Assoc
/-! Shapes of what handlers emit: correlation ids, events, closes. -/
namespace Narwhal.Server

/-- `Message::correlation_id` of a server frame -/
def Frame.corrId : Frame → Option Nat
  | .joinAck id _ | .leaveAck id | .broadcastAck id | .membersAck id _ _ _ | .channelsAck id _ _
  | .chanAcl id _ _ _ _ | .chanConfig id _ _ _ | .setAclAck id | .setConfigAck id | .modDirectAck id => some id
  | .error id _ => id
  | _ => none

def Frame.isEvent : Frame → Bool
  | .event .. => true
  | _ => false

def Frame.isMessage : Frame → Bool
  | .message .. => true
  | _ => false

/-- an emit that is a plain (non-closing) EVENT -/
def Emit.plainEvent (e : Emit) : Prop := e.frame.isEvent = true ∧ e.close = false

theorem routeTo_mem {s : Srv} {us : List Str} {excl : Option Nat} {f : Frame} {e : Emit}
    (h : e ∈ routeTo s us excl f) :
    e.frame = f ∧ e.close = false ∧ some e.conn ≠ excl ∧ ∃ u ∈ us, e.conn ∈ connsOf s u := by
  simp only [routeTo, List.mem_flatMap, List.mem_map, List.mem_filter, decide_eq_true_eq] at h
  obtain ⟨u, hu, k, ⟨hk, hne⟩, rfl⟩ := h
  exact ⟨rfl, rfl, hne, u, hu, hk⟩

theorem routeTo_event_plain {s : Srv} {us excl k c n o} :
    ∀ e ∈ routeTo s us excl (.event k c n o), e.plainEvent := by
  intro e he
  obtain ⟨hf, hc, _⟩ := routeTo_mem he
  exact ⟨by rw [hf]; rfl, hc⟩

theorem handoverEvents_plain {s c p} : ∀ e ∈ handoverEvents s c p, e.plainEvent := routeTo_event_plain
theorem leftEvents_plain {s c u x} : ∀ e ∈ leftEvents s c u x, e.plainEvent := routeTo_event_plain

theorem removeMember_plain (s : Srv) (c : Chan) (u : Str) (env : Env) :
    ∀ e ∈ (removeMember s c u env).2.1, e.plainEvent := by
  unfold removeMember
  split
  · simp
  · split
    · split
      · simp
      · exact handoverEvents_plain
    · simp

theorem leaveOne_plain (u : Str) (env : Env) (acc : Srv × List Emit) (h : Str)
    (hacc : ∀ e ∈ acc.2, e.plainEvent) : ∀ e ∈ (leaveOne u env acc h).2, e.plainEvent := by
  unfold leaveOne
  split
  · exact hacc
  · split
    · intro e he
      simp only [List.mem_append] at he
      rcases he with (he | he) | he
      · exact hacc e he
      · split at he
        · simp at he
        · exact leftEvents_plain e he
      · exact removeMember_plain _ _ _ _ e he
    · exact hacc

theorem foldl_leaveOne_plain (u : Str) (env : Env) (hs : List Str) (acc : Srv × List Emit)
    (hacc : ∀ e ∈ acc.2, e.plainEvent) : ∀ e ∈ (hs.foldl (leaveOne u env) acc).2, e.plainEvent := by
  induction hs generalizing acc with
  | nil => simpa using hacc
  | cons h hs ih => exact ih _ (leaveOne_plain u env acc h hacc)

theorem leaveAll_plain (s : Srv) (u : Str) (env : Env) : ∀ e ∈ (leaveAll s u env).2, e.plainEvent :=
  foldl_leaveOne_plain u env _ _ (by simp)

theorem dropAuthed_plain (s : Srv) (k : Nat) (u : Str) (env : Env) : ∀ e ∈ (dropAuthed s k u env).2, e.plainEvent := by
  unfold dropAuthed
  split
  · exact leaveAll_plain _ _ _
  · simp

theorem dropConn_plain (s : Srv) (k : Nat) (env : Env) : ∀ e ∈ (dropConn s k env).2, e.plainEvent := by
  unfold dropConn
  split
  · simp
  · split
    · exact dropAuthed_plain _ _ _ _
    · simp

theorem plain_corrId {e : Emit} (h : e.plainEvent) : e.frame.corrId = none := by
  obtain ⟨h1, _⟩ := h
  cases hf : e.frame <;> simp [hf, Frame.isEvent] at h1 <;> rfl

end Narwhal.Server
