import Narwhal.Lemmas.Emit
/-! What a successful admission check guarantees (decision logic, read off the `check` functions). -/
namespace Narwhal.Server
open Narwhal.Acl (isAllowed)

theorem ownerCheck_ok {s u i h d c} (hc : ownerCheck s u i h d = .ok c) :
    d = s.cfg.domain ∧ findChan s.chans h = some c ∧ c.owner = some u := by
  unfold ownerCheck at hc
  split at hc
  · cases hc
  · next hd =>
    split at hc
    · cases hc
    · next c' hf =>
      split at hc
      · cases hc
      · next ho => cases hc; exact ⟨by simpa using hd, hf, by simpa using ho⟩

theorem getAclCheck_ok {s u i raw c} (hc : getAclCheck s u i raw = .ok c) :
    ∃ h, Id.parseChannelId raw = some (h, s.cfg.domain) ∧ findChan s.chans h = some c ∧ c.owner = some u := by
  unfold getAclCheck at hc
  split at hc
  · cases hc
  · next h d hp =>
    obtain ⟨hd, hf, ho⟩ := ownerCheck_ok hc
    exact ⟨h, by rw [hp, hd], hf, ho⟩

theorem setAclCheck_ok {s u i raw t a ns c} (hc : setAclCheck s u i raw t a ns = .ok c) :
    (∃ h, Id.parseChannelId raw = some (h, s.cfg.domain) ∧ findChan s.chans h = some c) ∧ c.owner = some u ∧
      Acl.totalEntries (updatedAcl c t a ns) ≤ c.maxClients := by
  unfold setAclCheck at hc
  split at hc
  · cases hc
  · next h d hp =>
    split at hc
    · cases hc
    · split at hc
      · cases hc
      · next c' hoc =>
        split at hc
        · cases hc
        · next hle =>
          cases hc
          obtain ⟨hd, hf, ho⟩ := ownerCheck_ok hoc
          exact ⟨⟨h, by rw [hp, hd], hf⟩, ho, by omega⟩

theorem setConfigCheck_ok {s u i raw mc mp c} (hc : setConfigCheck s u i raw mc mp = .ok c) :
    (∃ h, Id.parseChannelId raw = some (h, s.cfg.domain) ∧ findChan s.chans h = some c) ∧ c.owner = some u ∧
      mc ≤ s.cfg.maxClients ∧ mp ≤ s.cfg.maxPayload := by
  unfold setConfigCheck at hc
  split at hc
  · cases hc
  · next h d hp =>
    split at hc
    · cases hc
    · split at hc
      · cases hc
      · next h1 =>
        split at hc
        · cases hc
        · next h2 =>
          obtain ⟨hd, hf, ho⟩ := ownerCheck_ok hc
          exact ⟨⟨h, by rw [hp, hd], hf⟩, ho, by omega, by omega⟩

theorem membersCheck_ok {s u i raw c} (hc : membersCheck s u i raw = .ok c) :
    (∃ h, Id.parseChannelId raw = some (h, s.cfg.domain) ∧ findChan s.chans h = some c) ∧ u ∈ c.members := by
  unfold membersCheck at hc
  split at hc
  · cases hc
  · next h d hp =>
    split at hc
    · cases hc
    · next hd =>
      split at hc
      · cases hc
      · next c' hf =>
        split at hc
        · cases hc
        · next hm =>
          cases hc
          have hd' : d = s.cfg.domain := by simpa using hd
          exact ⟨⟨h, by rw [hp, hd'], hf⟩, by simpa using hm⟩

theorem getConfigCheck_ok {s u i raw c} (hc : getConfigCheck s u i raw = .ok c) :
    (∃ h d, Id.parseChannelId raw = some (h, d) ∧ findChan s.chans h = some c) ∧ u ∈ c.members := by
  unfold getConfigCheck at hc
  split at hc
  · cases hc
  · next h d hp =>
    split at hc
    · cases hc
    · next c' hf =>
      split at hc
      · cases hc
      · next hm => cases hc; exact ⟨⟨h, d, hp, hf⟩, by simpa using hm⟩

theorem payloadGate_ok {s p env p'} (h : payloadGate s p env = .ok p') :
    (s.cfg.hasMod = false ∧ p' = p) ∨
      (s.cfg.hasMod = true ∧ env.down = false ∧ ((env.verdict = .valid ∧ p' = p) ∨ env.verdict = .altered p')) := by
  unfold payloadGate at h
  split at h
  · next hm =>
    right
    split at h
    · cases h
    · next hdn =>
      refine ⟨hm, by simpa using hdn, ?_⟩
      split at h
      · next hv => cases h; exact Or.inl ⟨hv, rfl⟩
      · next q hv =>
        split at h
        · cases h
        · cases h; exact Or.inr hv
      · cases h
      · cases h
  · next hm => cases h; exact Or.inl ⟨by simpa using hm, rfl⟩

/-- what the gate lets through is never empty when the request's own payload is not: an alteration to nothing is refused -/
theorem payloadGate_nonempty {s p env p'} (h : payloadGate s p env = .ok p') (hp : p ≠ []) : p' ≠ [] := by
  unfold payloadGate at h
  split at h
  · split at h
    · cases h
    · split at h
      · cases h; exact hp
      · split at h
        · cases h
        · next hne => cases h; intro h0; subst h0; simp at hne
      · cases h
      · cases h
  · cases h; exact hp

theorem broadcastCheck_ok {s u i raw q p env c p'} (hc : broadcastCheck s u i raw q p env = .ok (c, p')) :
    (∃ h, Id.parseChannelId raw = some (h, s.cfg.domain) ∧ findChan s.chans h = some c) ∧
      u ∈ c.members ∧ isAllowed c.publishAcl u s.cfg.domain = true ∧
      payloadGate s p env = .ok p' ∧ p.length ≤ s.cfg.maxPayload ∧ p'.length ≤ c.maxPayload ∧ p ≠ [] := by
  unfold broadcastCheck at hc
  split at hc
  · cases hc
  · next h0 =>
    split at hc
    · cases hc
    · next hlen =>
      split at hc
      · cases hc
      · next h d hp =>
        split at hc
        · cases hc
        · next p'' hg =>
          split at hc
          · cases hc
          · next hd =>
            split at hc
            · cases hc
            · next c' hf =>
              split at hc
              · cases hc
              · next hm =>
                split at hc
                · cases hc
                · next ha =>
                  split at hc
                  · cases hc
                  · next hl =>
                    cases hc
                    have hd' : d = s.cfg.domain := by simpa using hd
                    refine ⟨⟨h, by rw [hp, hd'], hf⟩, by simpa using hm, by simpa using ha, hg, by omega, by omega, ?_⟩
                    intro hp0; subst hp0; simp at h0

theorem joinMember_ok {s u c ob m} (h : joinMember s u c ob = .ok m) :
    (ob = none ∧ m = u) ∨
      (∃ od, ob = some (m, od) ∧ c.owner = some u ∧ od = s.cfg.domain ∧ connsOf s m ≠ []) := by
  unfold joinMember at h
  split at h
  · next ou od =>
    split at h
    · cases h
    · next ho =>
      split at h
      · cases h
      · next hd =>
        split at h
        · cases h
        · next hcn =>
          cases h
          right
          exact ⟨od, rfl, by simpa using ho, by simpa using hd, by intro h0; simp [h0] at hcn⟩
  · cases h; exact Or.inl ⟨rfl, rfl⟩

theorem joinAdmit_none {s c m} (h : joinAdmit s c m = none) :
    isAllowed c.joinAcl m s.cfg.domain = true ∧ m ∉ c.members ∧ c.members.length < c.maxClients ∧
      (indexOf s m).length < s.cfg.maxSubs := by
  unfold joinAdmit at h
  split at h
  · cases h
  · next h1 =>
    split at h
    · cases h
    · next h2 =>
      split at h
      · cases h
      · next h3 =>
        split at h
        · cases h
        · next h4 => exact ⟨by simpa using h1, h2, by omega, by omega⟩

theorem joinCheck_ok {s u i raw ob h m} (hc : joinCheck s u i raw ob = .ok (h, m)) :
    Id.parseChannelId raw = some (h, s.cfg.domain) ∧
      ((findChan s.chans h).isNone = true → s.chans.length < s.cfg.maxChannels) ∧
      joinMember s u (chanOrNew s h) (ob.bind Id.parseNid) = .ok m ∧
      joinAdmit s (chanOrNew s h) m = none := by
  unfold joinCheck at hc
  split at hc
  · cases hc
  · next h' d hp =>
    split at hc
    · cases hc
    · split at hc
      · cases hc
      · next hd =>
        split at hc
        · cases hc
        · next hcap =>
          split at hc
          · cases hc
          · next m' hjm =>
            split at hc
            · cases hc
            · next hja =>
              cases hc
              have hd' : d = s.cfg.domain := by simpa using hd
              refine ⟨by rw [hp, hd'], ?_, hjm, hja⟩
              intro hnone
              simp [hnone] at hcap
              omega

theorem leaveTarget_ok {s u c ob m} (h : leaveTarget s u c ob = .ok m) :
    (ob = none ∧ m = u) ∨ (∃ od, ob = some (m, od) ∧ c.owner = some u) := by
  unfold leaveTarget at h
  split at h
  · next ou od =>
    split at h
    · cases h
    · next ho =>
      split at h
      · cases h
      · cases h; exact Or.inr ⟨od, rfl, by simpa using ho⟩
  · cases h; exact Or.inl ⟨rfl, rfl⟩

theorem leaveCheck_ok {s u i raw ob c m} (hc : leaveCheck s u i raw ob = .ok (c, m)) :
    (∃ h, Id.parseChannelId raw = some (h, s.cfg.domain) ∧ findChan s.chans h = some c) ∧
      leaveTarget s u c (ob.bind Id.parseNid) = .ok m ∧ m ∈ c.members := by
  unfold leaveCheck at hc
  split at hc
  · cases hc
  · next h d hp =>
    split at hc
    · cases hc
    · split at hc
      · cases hc
      · next hd =>
        split at hc
        · cases hc
        · next c' hf =>
          split at hc
          · cases hc
          · next m' hlt =>
            split at hc
            · cases hc
            · next hm =>
              cases hc
              have hd' : d = s.cfg.domain := by simpa using hd
              exact ⟨⟨h, by rw [hp, hd'], hf⟩, hlt, by simpa using hm⟩

end Narwhal.Server

namespace Narwhal.Server
/-- a lost modulator link lets no payload through -/
theorem payloadGate_down {s p env} (hm : s.cfg.hasMod = true) (hd : env.down = true) :
    payloadGate s p env = .error .internalServerError := by
  simp [payloadGate, hm, hd]
end Narwhal.Server
