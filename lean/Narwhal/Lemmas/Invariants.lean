import Narwhal.Lemmas.Checks
/-!
# Per-channel invariants of every reachable server state

`ChansOK s`: every channel in the map is stored under its own handler, its reader cache equals its
members filtered by the read list (cache coherence), it has at least one member, exactly one owner who
is a member, and no duplicate members.  Proved by induction over histories (`run_ChansOK`).
-/
namespace Narwhal.Server
open Narwhal.Acl (isAllowed)

def ChanOK (dom : Str) (c : Chan) : Prop :=
  c.targets = c.members.filter (fun m => isAllowed c.readAcl m dom) ∧
  c.members ≠ [] ∧ (∃ o, c.owner = some o ∧ o ∈ c.members) ∧ c.members.Nodup

def ChansOK (s : Srv) : Prop := ∀ h c, findChan s.chans h = some c → c.handler = h ∧ ChanOK s.cfg.domain c

/-! ## configuration never changes -/

@[simp] theorem removeMember_cfg (s : Srv) (c : Chan) (u : Str) (env : Env) : (removeMember s c u env).1.cfg = s.cfg := by
  unfold removeMember; split
  · rfl
  · split
    · split <;> rfl
    · rfl

theorem leaveOne_cfg (u : Str) (env : Env) (acc : Srv × List Emit) (h : Str) : (leaveOne u env acc h).1.cfg = acc.1.cfg := by
  unfold leaveOne; split
  · rfl
  · split
    · simp
    · rfl

theorem foldl_leaveOne_cfg (u : Str) (env : Env) (hs : List Str) (acc : Srv × List Emit) :
    (hs.foldl (leaveOne u env) acc).1.cfg = acc.1.cfg := by
  induction hs generalizing acc with
  | nil => rfl
  | cons h hs ih => simp only [List.foldl_cons]; rw [ih, leaveOne_cfg]

@[simp] theorem leaveAll_cfg (s : Srv) (u : Str) (env : Env) : (leaveAll s u env).1.cfg = s.cfg := by
  unfold leaveAll; rw [foldl_leaveOne_cfg]

@[simp] theorem dropAuthed_cfg (s : Srv) (k : Nat) (u : Str) (env : Env) : (dropAuthed s k u env).1.cfg = s.cfg := by
  unfold dropAuthed; split
  · simp [withoutConn]
  · rfl

@[simp] theorem dropConn_cfg (s : Srv) (k : Nat) (env : Env) : (dropConn s k env).1.cfg = s.cfg := by
  unfold dropConn; split
  · rfl
  · split
    · simp
    · rfl

@[simp] theorem fail_cfg (s : Srv) (k : Nat) (i : Option Nat) (r : Reason) (env : Env) : (fail s k i r env).1.cfg = s.cfg := by
  unfold fail; split
  · rfl
  · simp

/-! ## single-channel steps keep `ChanOK` -/

theorem rebuild_members (dom : Str) (c : Chan) : (rebuild dom c).members = c.members := rfl
theorem rebuild_owner (dom : Str) (c : Chan) : (rebuild dom c).owner = c.owner := rfl
theorem rebuild_handler (dom : Str) (c : Chan) : (rebuild dom c).handler = c.handler := rfl

theorem rebuild_cache (dom : Str) (c : Chan) :
    (rebuild dom c).targets = (rebuild dom c).members.filter (fun m => isAllowed (rebuild dom c).readAcl m dom) := rfl

theorem withMember_ok (dom : Str) (c : Chan) (m : Str) (hm : m ∉ c.members)
    (hc : ChanOK dom c ∨ (c.members = [] ∧ c.owner = none)) : ChanOK dom (withMember dom c m) := by
  unfold withMember
  refine ⟨rebuild_cache _ _, ?_, ?_, ?_⟩
  · simp [rebuild_members]
  · simp only [rebuild_members, rebuild_owner]
    rcases hc with ⟨_, _, ⟨o, ho, hom⟩, _⟩ | ⟨_, hnone⟩
    · exact ⟨o, by simp [ho], by simp [hom]⟩
    · exact ⟨m, by simp [hnone], by simp⟩
  · simp only [rebuild_members]
    rcases hc with ⟨_, _, _, hnd⟩ | ⟨hnil, _⟩
    · exact List.nodup_append.mpr ⟨hnd, by simp, by intro a ha b hb; simp at hb; subst hb; exact fun h => hm (h ▸ ha)⟩
    · simp [hnil]

theorem withMember_handler (dom : Str) (c : Chan) (m : Str) : (withMember dom c m).handler = c.handler := rfl

theorem withoutMember_members (dom : Str) (c : Chan) (u : Str) :
    (withoutMember dom c u).members = c.members.filter (· ≠ u) := rfl

theorem withoutMember_handler (dom : Str) (c : Chan) (u : Str) : (withoutMember dom c u).handler = c.handler := rfl

theorem pickOwner_mem (env : Env) (c1 : Chan) (u : Str) (hne : c1.members ≠ []) : pickOwner env c1 u ∈ c1.members := by
  unfold pickOwner
  have hhead : c1.members.headD u ∈ c1.members := by
    cases hm : c1.members with
    | nil => exact absurd hm hne
    | cons a as => simp
  split
  · split
    · assumption
    · exact hhead
  · exact hhead

/-- the channel left after removing `u`, when somebody remains: cache, owner (possibly handed over), no dups -/
theorem afterRemoval_ok (dom : Str) (c : Chan) (u : Str) (env : Env) (hc : ChanOK dom c)
    (hne : (withoutMember dom c u).members ≠ []) :
    (c.owner = some u → ChanOK dom { withoutMember dom c u with owner := some (pickOwner env (withoutMember dom c u) u) }) ∧
    (c.owner ≠ some u → ChanOK dom (withoutMember dom c u)) := by
  obtain ⟨_, _, ⟨o, ho, hom⟩, hnd⟩ := hc
  have hnd' : (withoutMember dom c u).members.Nodup := by
    rw [withoutMember_members]; exact hnd.filter _
  constructor
  · intro _
    refine ⟨?_, hne, ⟨_, rfl, pickOwner_mem env _ u hne⟩, hnd'⟩
    show (withoutMember dom c u).targets = _
    unfold withoutMember; exact rebuild_cache _ _
  · intro hnu
    refine ⟨by unfold withoutMember; exact rebuild_cache _ _, hne, ⟨o, ?_, ?_⟩, hnd'⟩
    · unfold withoutMember
      simp only [rebuild_owner]
      rw [ho] at hnu
      simp [ho, hnu]
    · rw [withoutMember_members]
      simp only [List.mem_filter, decide_eq_true_eq]
      refine ⟨hom, ?_⟩
      intro h; subst h; exact hnu ho

theorem setAcl_ok (dom : Str) (c : Chan) (ty : AclType) (a : Acl.Acl) (hc : ChanOK dom c) :
    ChanOK dom (rebuild dom (setAclOf c ty a)) := by
  obtain ⟨_, hne, ho, hnd⟩ := hc
  refine ⟨rebuild_cache _ _, ?_, ?_, ?_⟩ <;> cases ty <;> simpa [rebuild_members, rebuild_owner, setAclOf]

theorem setAcl_handler (dom : Str) (c : Chan) (ty : AclType) (a : Acl.Acl) :
    (rebuild dom (setAclOf c ty a)).handler = c.handler := by cases ty <;> rfl

theorem mergeConfig_ok (dom : Str) (c : Chan) (mc mp : Nat) (hc : ChanOK dom c) : ChanOK dom (mergeConfig c mc mp) := hc

/-! ## the channel map -/

theorem ChansOK_put {s : Srv} (hs : ChansOK s) (c : Chan) (hc : ChanOK s.cfg.domain c) (s' : Srv)
    (hcfg : s'.cfg = s.cfg) (hch : s'.chans = putChan s.chans c) : ChansOK s' := by
  intro h c' hf
  rw [hcfg]
  rw [hch] at hf
  simp only [findChan, putChan, lookupA_setA] at hf
  split at hf
  · next heq => cases hf; exact ⟨heq, hc⟩
  · exact hs h c' hf

theorem ChansOK_del {s : Srv} (hs : ChansOK s) (h0 : Str) (s' : Srv)
    (hcfg : s'.cfg = s.cfg) (hch : s'.chans = delChan s.chans h0) : ChansOK s' := by
  intro h c' hf
  rw [hcfg]
  rw [hch] at hf
  simp only [findChan, delChan, lookupA_eraseA] at hf
  split at hf
  · cases hf
  · exact hs h c' hf

theorem ChansOK_same {s : Srv} (hs : ChansOK s) (s' : Srv) (hcfg : s'.cfg = s.cfg) (hch : s'.chans = s.chans) :
    ChansOK s' := by
  intro h c hf; rw [hcfg]; rw [hch] at hf; exact hs h c hf

theorem removeMember_ChansOK (s : Srv) (c : Chan) (u : Str) (env : Env) (hs : ChansOK s)
    (hc : ChanOK s.cfg.domain c) : ChansOK (removeMember s c u env).1 := by
  unfold removeMember
  split
  · exact ChansOK_del hs c.handler _ rfl rfl
  · next hne =>
    have hne' : (withoutMember s.cfg.domain c u).members ≠ [] := by
      intro h; simp [h] at hne
    have := afterRemoval_ok s.cfg.domain c u env hc hne'
    split
    · next ho =>
      split
      · exact ChansOK_put hs _ (this.1 ho) _ rfl rfl
      · exact ChansOK_put hs _ (this.1 ho) _ rfl rfl
    · next ho => exact ChansOK_put hs _ (this.2 ho) _ rfl rfl

theorem leaveOne_ChansOK (u : Str) (env : Env) (acc : Srv × List Emit) (h : Str) (hs : ChansOK acc.1) :
    ChansOK (leaveOne u env acc h).1 := by
  unfold leaveOne
  split
  · exact hs
  · next c hf =>
    split
    · exact removeMember_ChansOK _ _ _ _ hs (hs h c hf).2
    · exact hs

theorem foldl_leaveOne_ChansOK (u : Str) (env : Env) (hs : List Str) (acc : Srv × List Emit) (h : ChansOK acc.1) :
    ChansOK (hs.foldl (leaveOne u env) acc).1 := by
  induction hs generalizing acc with
  | nil => exact h
  | cons x xs ih => exact ih _ (leaveOne_ChansOK u env acc x h)

theorem leaveAll_ChansOK (s : Srv) (u : Str) (env : Env) (hs : ChansOK s) : ChansOK (leaveAll s u env).1 := by
  unfold leaveAll
  exact foldl_leaveOne_ChansOK u env _ _ (ChansOK_same hs _ rfl rfl)

theorem dropAuthed_ChansOK (s : Srv) (k : Nat) (u : Str) (env : Env) (hs : ChansOK s) : ChansOK (dropAuthed s k u env).1 := by
  unfold dropAuthed
  split
  · exact leaveAll_ChansOK _ _ _ (ChansOK_same hs _ rfl rfl)
  · exact ChansOK_same hs _ rfl rfl

theorem dropConn_ChansOK (s : Srv) (k : Nat) (env : Env) (hs : ChansOK s) : ChansOK (dropConn s k env).1 := by
  unfold dropConn
  split
  · exact hs
  · split
    · exact dropAuthed_ChansOK _ _ _ _ hs
    · exact ChansOK_same hs _ rfl rfl

theorem fail_ChansOK (s : Srv) (k : Nat) (i : Option Nat) (r : Reason) (env : Env) (hs : ChansOK s) :
    ChansOK (fail s k i r env).1 := by
  unfold fail
  split
  · exact hs
  · exact dropConn_ChansOK _ _ _ hs

theorem chanOrNew_ok (s : Srv) (hs : ChansOK s) (h : Str) :
    (chanOrNew s h).handler = h ∧
      (ChanOK s.cfg.domain (chanOrNew s h) ∨ ((chanOrNew s h).members = [] ∧ (chanOrNew s h).owner = none)) := by
  unfold chanOrNew
  cases hf : findChan s.chans h with
  | none => exact ⟨rfl, Or.inr ⟨rfl, rfl⟩⟩
  | some c => exact ⟨(hs h c hf).1, Or.inl (hs h c hf).2⟩

theorem authedStep_ChansOK (s : Srv) (k : Nat) (u : Str) (r : Req) (env : Env) (hs : ChansOK s) :
    ChansOK (authedStep s k u r env).1 := by
  cases r <;> simp only [authedStep] <;> try exact fail_ChansOK _ _ _ _ _ hs
  case join id c ob =>
    unfold doJoin
    split
    · exact fail_ChansOK _ _ _ _ _ hs
    · next h m hc =>
      split
      · exact fail_ChansOK _ _ _ _ _ hs
      · obtain ⟨_, _, _, hja⟩ := joinCheck_ok hc
        have hnm := (joinAdmit_none hja).2.1
        obtain ⟨hh, hok⟩ := chanOrNew_ok s hs h
        have := withMember_ok s.cfg.domain (chanOrNew s h) m hnm hok
        exact ChansOK_put hs _ this _ rfl rfl
  case leave id c ob =>
    unfold doLeave
    split
    · exact fail_ChansOK _ _ _ _ _ hs
    · next c' m hc =>
      split
      · exact fail_ChansOK _ _ _ _ _ hs
      · obtain ⟨⟨h, _, hf⟩, _, _⟩ := leaveCheck_ok hc
        have hrm := removeMember_ChansOK s c' m env hs (hs h c' hf).2
        unfold leaveTail
        split
        · exact hrm
        · exact fail_ChansOK _ _ _ _ _ hrm
  case broadcast id c q p =>
    unfold doBroadcast
    split
    · exact fail_ChansOK _ _ _ _ _ hs
    · split <;> exact hs
  case members id c pg sz =>
    unfold doMembers
    split
    · exact fail_ChansOK _ _ _ _ _ hs
    · exact hs
  case channels id pg sz o => exact hs
  case getAcl id c t pg sz =>
    unfold doGetAcl
    split
    · exact fail_ChansOK _ _ _ _ _ hs
    · exact hs
  case setAcl id c t a ns =>
    unfold doSetAcl
    split
    · exact fail_ChansOK _ _ _ _ _ hs
    · next c' hc =>
      obtain ⟨⟨h, _, hf⟩, _, _⟩ := setAclCheck_ok hc
      exact ChansOK_put hs _ (setAcl_ok _ _ _ _ (hs h c' hf).2) _ rfl rfl
  case getConfig id c =>
    unfold doGetConfig
    split
    · exact fail_ChansOK _ _ _ _ _ hs
    · exact hs
  case setConfig id c mc mp =>
    unfold doSetConfig
    split
    · exact fail_ChansOK _ _ _ _ _ hs
    · next c' hc =>
      obtain ⟨⟨h, _, hf⟩, _, _⟩ := setConfigCheck_ok hc
      exact ChansOK_put hs _ (mergeConfig_ok _ _ _ _ (hs h c' hf).2) _ rfl rfl
  case modDirect id p =>
    unfold doModDirect
    split
    · exact fail_ChansOK _ _ _ _ _ hs
    · exact hs

theorem connectingStep_ChansOK (s : Srv) (k : Nat) (r : Req) (env : Env) (hs : ChansOK s) :
    ChansOK (connectingStep s k r env).1 := by
  unfold connectingStep
  split
  · split
    · exact fail_ChansOK _ _ _ _ _ hs
    · split
      · exact fail_ChansOK _ _ _ _ _ hs
      · exact ChansOK_same hs _ rfl rfl
  · exact fail_ChansOK _ _ _ _ _ hs

theorem connectedStep_ChansOK (s : Srv) (k : Nat) (r : Req) (env : Env) (hs : ChansOK s) :
    ChansOK (connectedStep s k r env).1 := by
  unfold connectedStep
  split
  · split
    · exact fail_ChansOK _ _ _ _ _ hs
    · split
      · exact fail_ChansOK _ _ _ _ _ hs
      · split
        · exact fail_ChansOK _ _ _ _ _ hs
        · exact ChansOK_same hs _ rfl rfl
  · split
    · exact fail_ChansOK _ _ _ _ _ hs
    · split
      · exact fail_ChansOK _ _ _ _ _ hs
      · split
        · split
          · exact fail_ChansOK _ _ _ _ _ hs
          · exact ChansOK_same hs _ rfl rfl
        · exact hs
        · exact hs
        · exact fail_ChansOK _ _ _ _ _ hs
  · exact fail_ChansOK _ _ _ _ _ hs

theorem step_ChansOK (s : Srv) (op : Op) (env : Env) (hs : ChansOK s) : ChansOK (step s op env).1 := by
  unfold step
  split
  · split
    · exact hs
    · exact ChansOK_same hs _ rfl rfl
  · exact dropConn_ChansOK _ _ _ hs
  · split
    · exact hs
    · split
      · exact fail_ChansOK _ _ _ _ _ hs
      · exact connectingStep_ChansOK _ _ _ _ hs
      · exact connectedStep_ChansOK _ _ _ _ hs
      · exact authedStep_ChansOK _ _ _ _ _ hs

theorem run_ChansOK (s : Srv) (hist : List (Op × Env)) (hs : ChansOK s) : ChansOK (run s hist).1 := by
  induction hist generalizing s with
  | nil => exact hs
  | cons x xs ih =>
    obtain ⟨op, env⟩ := x
    simp only [run]
    exact ih _ (step_ChansOK s op env hs)

theorem init_ChansOK (cfg : Cfg) : ChansOK (init cfg) := by
  intro h c hf; simp [init, findChan] at hf

/-- **every reachable state** has coherent reader caches, no empty channel, one owner who is a member -/
theorem reachable_ChansOK (cfg : Cfg) (hist : List (Op × Env)) : ChansOK (run (init cfg) hist).1 :=
  run_ChansOK _ _ (init_ChansOK cfg)

end Narwhal.Server
