import Narwhal.Model.Codec
/-!
# Codec, value level: whatever the encoder writes for one value, the decoder's scanner reads back

For every scalar value (every byte string without LF/NUL for which a delimiter is available, every number,
both booleans) and every continuation of the line (`tail` = end of line, or a space followed by anything):
`readEscaped (enc v ++ tail)` yields exactly the value's bytes and leaves the input at `tail` (up to the one
separating space a plain token consumes), and the typed conversion of those bytes is `v`.
-/
namespace Narwhal.Codec

/-! ## byte-class facts -/

theorem isEsc_ne_backslash {d : Nat} (h : isEsc d = true) : d ≠ 92 := by
  unfold isEsc at h; intro e; subst e; simp at h

theorem isEsc_not_space {d : Nat} (h : isEsc d = true) : isSpace d = false ∧ d ≠ 0 := by
  unfold isEsc at h
  unfold isSpace
  simp only [Bool.or_eq_true, decide_eq_true_eq] at h
  rcases h with ((h | h) | h) | h <;> subst h <;> simp

theorem escChars_isEsc {d : Nat} (h : d ∈ escChars) : isEsc d = true := by
  unfold escChars at h; simp at h; rcases h with h | h | h | h <;> subst h <;> rfl

/-! ## scanning -/

theorem seekChar_cons {b : Nat} {rest : Bytes} (h0 : b ≠ 0) (hs : isSpace b = false) : seekChar (b :: rest) = some (b :: rest) := by
  simp [seekChar, h0, hs]

theorem seekChar_space (t : Bytes) : seekChar (32 :: t) = seekChar t := by
  simp [seekChar, isSpace]

/-- what may follow a value on an encoded line: the end, or a space -/
def Sep (tail : Bytes) : Prop := tail = [] ∨ ∃ t, tail = 32 :: t

theorem Sep.seek_drop {tail : Bytes} (h : Sep tail) : seekChar (tail.drop 1) = seekChar tail := by
  rcases h with rfl | ⟨t, rfl⟩
  · rfl
  · simp [seekChar_space]

theorem scanEscaped_value (d : Nat) (hd : d ≠ 92) (s tail acc : Bytes) (mk : Bool)
    (hs : ∀ b ∈ s, b ≠ d ∧ b ≠ 0) :
    scanEscaped d (s ++ 92 :: d :: tail) acc mk = some (acc.reverse ++ s, tail) := by
  induction s generalizing acc mk with
  | nil =>
    simp only [List.nil_append, scanEscaped, backslash, if_true]
    simp [hd]
  | cons b s ih =>
    have hb := hs b (by simp)
    have hs' : ∀ x ∈ s, x ≠ d ∧ x ≠ 0 := fun x hx => hs x (by simp [hx])
    simp only [List.cons_append, scanEscaped, backslash]
    by_cases h92 : b = 92
    · subst h92
      simp only [if_true]
      rw [ih _ _ hs']
      simp
    · simp only [h92, if_false, hb.1, decide_false, Bool.and_false, hb.2, Bool.false_eq_true]
      rw [ih _ _ hs']
      simp

theorem token_of_plain (s tail : Bytes) (hs : ∀ b ∈ s, b ≠ 0 ∧ isSpace b = false) (ht : Sep tail) :
    tokenOf (s ++ tail) = s ∧ afterToken (s ++ tail) = tail.drop 1 := by
  induction s with
  | nil =>
    rcases ht with rfl | ⟨t, rfl⟩
    · simp [tokenOf, afterToken]
    · simp [tokenOf, afterToken, isSpace]
  | cons b s ih =>
    have hb := hs b (by simp)
    have := ih (fun x hx => hs x (by simp [hx]))
    simp [tokenOf, afterToken, hb.1, hb.2, this.1, this.2]

theorem readEscaped_nonspace (b0 : Nat) (r : Bytes) (h0 : b0 ≠ 0) (hs : isSpace b0 = false) :
    readEscaped (b0 :: r) =
      match r with
      | b1 :: rest =>
        if (decide (b0 = backslash) && isEsc b1) = true then some (scanEscaped b1 rest [] false)
        else some (some (tokenOf (b0 :: r), afterToken (b0 :: r)))
      | [] => some (some (tokenOf [b0], afterToken [b0])) := by
  unfold readEscaped
  rw [seekChar_cons h0 hs]
  cases r <;> rfl

/-! ## strings -/

/-- the three shapes of an encoded string -/
theorem encStr_cases (s e : Bytes) (he : encStr s = .ok e) :
    (∀ b ∈ s, b ≠ 0 ∧ b ≠ 10) ∧
    ((s = [] ∧ e = [92, 34, 92, 34]) ∨
     (s ≠ [] ∧ looksEscaped s = false ∧ (∀ b ∈ s, isSpace b = false) ∧ e = s) ∨
     (s ≠ [] ∧ ∃ d, isEsc d = true ∧ d ∉ s ∧ e = [92, d] ++ s ++ [92, d])) := by
  unfold encStr at he
  by_cases hbad : (s.any (fun b => decide (b = 10) || decide (b = 0))) = true
  · simp [hbad] at he
  · have h0 : ∀ b ∈ s, b ≠ 0 ∧ b ≠ 10 := by
      intro b hb
      have hany := (Bool.not_eq_true _).mp hbad
      have := List.any_eq_false.mp hany b hb
      simp only [Bool.or_eq_true, decide_eq_true_eq, not_or] at this
      exact ⟨this.2, this.1⟩
    refine ⟨h0, ?_⟩
    simp only [hbad, Bool.false_eq_true, if_false] at he
    by_cases hemp : s.isEmpty = true
    · simp only [hemp, if_true] at he
      cases he
      left
      exact ⟨by simpa [List.isEmpty_iff] using hemp, rfl⟩
    · have hne : s ≠ [] := by intro h; simp [h] at hemp
      simp only [hemp, Bool.false_eq_true, if_false] at he
      by_cases hplain : (!looksEscaped s && !s.any isSpace) = true
      · simp only [hplain, if_true] at he
        cases he
        simp only [Bool.and_eq_true, Bool.not_eq_eq_eq_not, Bool.not_true] at hplain
        right; left
        refine ⟨hne, hplain.1, ?_, rfl⟩
        intro b hb
        have := List.any_eq_false.mp hplain.2 b hb
        simpa using this
      · simp only [hplain, Bool.false_eq_true, if_false] at he
        right; right
        refine ⟨hne, ?_⟩
        split at he
        · next d hfind =>
          cases he
          refine ⟨d, escChars_isEsc (List.mem_of_find?_eq_some hfind), ?_, by simp [backslash]⟩
          simpa using List.find?_some hfind
        · cases he

/-- **string round trip**: what `fmt_param` writes for `s`, `read_escaped_string` reads back as `s` -/
theorem readEscaped_encStr (s e tail : Bytes) (he : encStr s = .ok e) (ht : Sep tail) :
    ∃ tail', readEscaped (e ++ tail) = some (some (s, tail')) ∧ seekChar tail' = seekChar tail := by
  obtain ⟨h0, hcase⟩ := encStr_cases s e he
  rcases hcase with ⟨rfl, rfl⟩ | ⟨hne, hle, hsp, rfl⟩ | ⟨hne, d, hesc, hnotin, rfl⟩
  · -- the empty string is written as \"\"
    refine ⟨tail, ?_, rfl⟩
    show readEscaped (92 :: 34 :: 92 :: 34 :: tail) = _
    rw [readEscaped_nonspace 92 _ (by decide) (by decide)]
    have := scanEscaped_value 34 (by decide) [] tail [] false (by simp)
    simpa [backslash, isEsc] using this
  · -- written as it is
    have hall : ∀ b ∈ e, b ≠ 0 ∧ isSpace b = false := fun b hb => ⟨(h0 b hb).1, hsp b hb⟩
    obtain ⟨htok, haft⟩ := token_of_plain e tail hall ht
    refine ⟨tail.drop 1, ?_, ht.seek_drop⟩
    cases e with
    | nil => exact absurd rfl hne
    | cons b0 r =>
      have hb0 := hall b0 (by simp)
      rw [List.cons_append, readEscaped_nonspace b0 _ hb0.1 hb0.2, ← List.cons_append, htok, haft]
      cases r with
      | nil =>
        rcases ht with rfl | ⟨t, rfl⟩
        · simp [tokenOf, afterToken, hb0.1, hb0.2]
        · simp [isEsc]
      | cons b1 r' =>
        have : (decide (b0 = backslash) && isEsc b1) = false := by simpa [looksEscaped] using hle
        simp [this]
  · -- escaped with a delimiter that does not occur in the value
    refine ⟨tail, ?_, rfl⟩
    show readEscaped (92 :: d :: (s ++ [92, d]) ++ tail) = _
    rw [List.cons_append, readEscaped_nonspace 92 _ (by decide) (by decide)]
    have := scanEscaped_value d (isEsc_ne_backslash hesc) s tail [] false
      (fun b hb => ⟨fun e => hnotin (e ▸ hb), (h0 b hb).1⟩)
    simpa [backslash, hesc, List.append_assoc] using this

/-- an encoded string never contains a line feed -/
theorem encStr_no_lf (s e : Bytes) (he : encStr s = .ok e) : ∀ b ∈ e, b ≠ 10 := by
  obtain ⟨h0, hcase⟩ := encStr_cases s e he
  rcases hcase with ⟨rfl, rfl⟩ | ⟨_, _, _, rfl⟩ | ⟨_, d, hesc, _, rfl⟩
  · intro b hb; simp at hb; omega
  · exact fun b hb => (h0 b hb).2
  · have hd10 : d ≠ 10 := by intro e; subst e; simp [isEsc] at hesc
    intro b hb
    simp only [List.mem_append, List.mem_cons, List.not_mem_nil, or_false] at hb
    rcases hb with ((h | h) | h) | (h | h)
    · subst h; decide
    · subst h; exact hd10
    · exact (h0 b h).2
    · subst h; decide
    · subst h; exact hd10

/-! ## numbers -/

def valueRev : List Nat → Nat
  | [] => 0
  | d :: ds => (d - 48) + 10 * valueRev ds

def allDigits (l : List Nat) : Prop := ∀ d ∈ l, 48 ≤ d ∧ d ≤ 57

theorem digitsRev_spec (fuel n : Nat) (h : n < fuel) :
    valueRev (digitsRev fuel n) = n ∧ allDigits (digitsRev fuel n) ∧ digitsRev fuel n ≠ [] := by
  induction fuel generalizing n with
  | zero => omega
  | succ f ih =>
    unfold digitsRev
    split
    · next hlt =>
      refine ⟨by simp [valueRev], ?_, by simp⟩
      intro d hd; simp at hd; subst hd; omega
    · next hge =>
      have hlt : n / 10 < f := by omega
      obtain ⟨hv, hd, _⟩ := ih (n / 10) hlt
      refine ⟨?_, ?_, by simp⟩
      · simp only [valueRev, hv]; omega
      · intro d hd'
        simp only [List.mem_cons] at hd'
        rcases hd' with rfl | hd'
        · omega
        · exact hd d hd'

theorem parseDigits_append (xs : List Nat) (d a : Nat) (hd : 48 ≤ d ∧ d ≤ 57) :
    parseDigits (xs ++ [d]) a = (parseDigits xs a).map (fun v => v * 10 + (d - 48)) := by
  induction xs generalizing a with
  | nil => simp [parseDigits, hd.1, hd.2]
  | cons x xs ih =>
    simp only [List.cons_append, parseDigits]
    split
    · exact ih _
    · rfl

theorem parseDigits_reverse (l : List Nat) (h : allDigits l) : parseDigits l.reverse 0 = some (valueRev l) := by
  induction l with
  | nil => rfl
  | cons d ds ih =>
    have hd := h d (by simp)
    have := ih (fun x hx => h x (by simp [hx]))
    rw [List.reverse_cons, parseDigits_append _ _ _ hd, this]
    simp only [Option.map_some, valueRev]
    congr 1; omega

theorem digits_spec (n : Nat) :
    parseDigits (digits n) 0 = some n ∧ (∀ b ∈ digits n, 48 ≤ b ∧ b ≤ 57) ∧ digits n ≠ [] := by
  obtain ⟨hv, hd, hne⟩ := digitsRev_spec (n + 1) n (by omega)
  unfold digits
  refine ⟨by rw [parseDigits_reverse _ hd, hv], ?_, by simpa using hne⟩
  intro b hb; exact hd b (by simpa using hb)

theorem parseUnsigned_digits (max n : Nat) (h : n ≤ max) : parseUnsigned max (digits n) = some n := by
  obtain ⟨hp, hd, hne⟩ := digits_spec n
  have hbody : stripPlus (digits n) = digits n := by
    cases hdn : digits n with
    | nil => rfl
    | cons b rest =>
      have hb := hd b (by rw [hdn]; simp)
      have hb43 : b ≠ 43 := by omega
      unfold stripPlus
      split
      · next h' => simp only [List.cons.injEq] at h'; exact absurd h'.1 hb43
      · rfl
  have hemp : (digits n).isEmpty = false := by simpa [List.isEmpty_iff] using hne
  unfold parseUnsigned
  simp [hbody, hp, hemp, h]

theorem boolBytes_plain : ∀ x ∈ trueBytes ++ falseBytes, x ≠ 0 ∧ isSpace x = false ∧ x ≠ 92 ∧ x ≠ 10 := by decide

theorem utf8Valid_ascii (s : Bytes) (h : ∀ b ∈ s, b < 128) : utf8Valid s = true := by
  induction s with
  | nil => rfl
  | cons b s ih =>
    unfold utf8Valid
    simp [h b (by simp), ih (fun x hx => h x (by simp [hx]))]

/-! ## every scalar -/

/-- the values a field of type `ty` can hold (what the Rust types guarantee) -/
def ScalarWT : Ty → Scalar → Prop
  | .u8, .num n => n ≤ 255
  | .u16, .num n => n ≤ 65535
  | .u32, .num n => n ≤ 4294967295
  | .bool, .bool _ => True
  | .atom, .str s => utf8Valid s = true
  | _, _ => False

/-- a plain token: no space, no NUL, not opening an escape -/
theorem readEscaped_plain (e tail : Bytes) (hne : e ≠ []) (hall : ∀ b ∈ e, b ≠ 0 ∧ isSpace b = false ∧ b ≠ 92) (ht : Sep tail) :
    readEscaped (e ++ tail) = some (some (e, tail.drop 1)) := by
  have hall' : ∀ b ∈ e, b ≠ 0 ∧ isSpace b = false := fun b hb => ⟨(hall b hb).1, (hall b hb).2.1⟩
  obtain ⟨htok, haft⟩ := token_of_plain e tail hall' ht
  cases e with
  | nil => exact absurd rfl hne
  | cons b0 r =>
    have hb0 := hall b0 (by simp)
    rw [List.cons_append, readEscaped_nonspace b0 _ hb0.1 hb0.2.1, ← List.cons_append, htok, haft]
    cases r with
    | nil =>
      rcases ht with rfl | ⟨t, rfl⟩
      · simp [tokenOf, afterToken, hb0.1, hb0.2.1]
      · simp [backslash, hb0.2.2]
    | cons b1 r' => simp [backslash, hb0.2.2]

/-- **scalar round trip**, for every value of every field type and every continuation of the line -/
theorem scalar_roundtrip (ty : Ty) (x : Scalar) (e tail : Bytes) (hwt : ScalarWT ty x) (he : encScalar x = .ok e)
    (ht : Sep tail) :
    ∃ raw tail', readEscaped (e ++ tail) = some (some (raw, tail')) ∧ seekChar tail' = seekChar tail ∧
      decScalar ty raw = some x := by
  cases x with
  | str s =>
    cases ty <;> simp only [ScalarWT] at hwt
    obtain ⟨tail', h1, h2⟩ := readEscaped_encStr s e tail he ht
    exact ⟨s, tail', h1, h2, by simp [decScalar, hwt]⟩
  | bool b =>
    cases ty <;> simp only [ScalarWT] at hwt
    simp only [encScalar] at he
    cases he
    refine ⟨_, tail.drop 1, readEscaped_plain _ tail ?_ ?_ ht, ht.seek_drop, ?_⟩
    · cases b <;> simp [trueBytes, falseBytes]
    · intro x hx
      have := boolBytes_plain x (by cases b <;> simp_all)
      exact ⟨this.1, this.2.1, this.2.2.1⟩
    · cases b <;> simp [decScalar, trueBytes, falseBytes, utf8Valid]
  | num n =>
    simp only [encScalar] at he
    cases he
    obtain ⟨_, hd, hne⟩ := digits_spec n
    have hread := readEscaped_plain (digits n) tail hne
      (fun b hb => by have := hd b hb; refine ⟨by omega, ?_, by omega⟩; simp [isSpace]; omega) ht
    have hutf : utf8Valid (digits n) = true := utf8Valid_ascii _ (fun b hb => by have := hd b hb; omega)
    refine ⟨_, tail.drop 1, hread, ht.seek_drop, ?_⟩
    cases ty <;> simp only [ScalarWT] at hwt <;> simp [decScalar, hutf, parseUnsigned_digits _ _ hwt]

/-- an encoded scalar contains no line feed -/
theorem encScalar_no_lf (x : Scalar) (e : Bytes) (he : encScalar x = .ok e) : ∀ b ∈ e, b ≠ 10 := by
  cases x with
  | str s => exact encStr_no_lf s e he
  | bool b =>
    simp only [encScalar] at he; cases he
    intro x hx
    exact (boolBytes_plain x (by cases b <;> simp_all)).2.2.2
  | num n =>
    simp only [encScalar] at he; cases he
    intro b hb; have := (digits_spec n).2.1 b hb; omega

end Narwhal.Codec
