/-!
# Wire codec: `serialize` / `deserialize`, byte-exact and schema-generic

Model of `crates/protocol/src/{serialize,deserialize}.rs`, of the code the derive macro
`crates/protocol-macros/src/lib.rs` generates for every parameter struct (`encode`, `decode`,
`validate`) and of `Message::{from_name, name, validate_parameters}`.  Bytes are `Nat`s (< 256).

The Rust decoder works with a cursor over a slice; every cursor operation only looks at the bytes from
the cursor onwards, so the model works on the *remaining input* (a `List Nat`).

The message schema (45 kinds; per kind the fields in declaration order with wire name, type, kind,
validation, plus the enum-valued fields) is **regenerated from the source** by the translator into
`Narwhal/Generated/Schema.lean`; everything here is parametric in it.
-/
namespace Narwhal.Codec

abbrev Bytes := List Nat

/-! ## schema -/

inductive Ty | u8 | u16 | u32 | bool | atom
deriving DecidableEq, Repr

inductive Kind | regular | optional | vec
deriving DecidableEq, Repr

inductive Check | none | nonZero | nonEmpty
deriving DecidableEq, Repr

structure Field where
  name  : Bytes          -- wire name of the parameter
  ty    : Ty
  kind  : Kind
  check : Check
deriving DecidableEq, Repr

structure MsgSpec where
  wire   : Bytes                         -- message name on the wire
  fields : List Field                    -- declaration order (= decode match order)
  /-- string-enum fields: (field index, accepted values) — `AclType`, `AclAction`, `ErrorReason`, `EventKind` -/
  enums  : List (Nat × List Bytes)
  /-- numeric-enum fields: (field index, accepted values) — `QoS` -/
  nums   : List (Nat × List Nat)
deriving Repr

abbrev Schema := List MsgSpec

/-! ## values -/

inductive Scalar
  | num (n : Nat)
  | bool (b : Bool)
  | str (s : Bytes)
deriving DecidableEq, Repr

inductive FVal
  | reg (v : Scalar)
  | opt (v : Option Scalar)
  | vec (vs : List Scalar)
deriving DecidableEq, Repr

structure Msg where
  kind : Nat            -- index into the schema
  vals : List FVal      -- one per field, declaration order
deriving DecidableEq, Repr

/-! ## byte classes (`deserialize.rs:254-266`, `serialize.rs:11`) -/

def isSpace (b : Nat) : Bool := b = 32 || b = 9 || b = 11 || b = 12 || b = 13
def isEsc (b : Nat) : Bool := b = 34 || b = 39 || b = 58 || b = 42       -- `"` `'` `:` `*`
def escChars : List Nat := [34, 39, 58, 42]
def backslash : Nat := 92
def isAlnumAscii (b : Nat) : Bool := (48 ≤ b && b ≤ 57) || (65 ≤ b && b ≤ 90) || (97 ≤ b && b ≤ 122)
def isOptionNameByte (b : Nat) : Bool := isAlnumAscii b || b = 95

/-! ## decimal numbers (`{}` of an unsigned integer; `str::parse::<uN>`) -/

/-- decimal digits, least significant first -/
def digitsRev : Nat → Nat → List Nat
  | 0, _ => []
  | fuel + 1, n => if n < 10 then [48 + n] else (48 + n % 10) :: digitsRev fuel (n / 10)

/-- decimal rendering -/
def digits (n : Nat) : Bytes := (digitsRev (n + 1) n).reverse

def parseDigits : Bytes → Nat → Option Nat
  | [], acc => some acc
  | b :: bs, acc => if 48 ≤ b && b ≤ 57 then parseDigits bs (acc * 10 + (b - 48)) else none

/-- `str::parse::<uN>()` with `uN::MAX = max`: optional `+`, at least one digit, no overflow -/
def stripPlus : Bytes → Bytes
  | 43 :: rest => rest
  | s => s

def parseUnsigned (max : Nat) (s : Bytes) : Option Nat :=
  let body := stripPlus s
  if body.isEmpty then none
  else match parseDigits body 0 with
    | some n => if n ≤ max then some n else none
    | none => none

def trueBytes : Bytes := [116, 114, 117, 101]
def falseBytes : Bytes := [102, 97, 108, 115, 101]

/-! ## UTF-8 (`std::str::from_utf8`) -/

def isCont (b : Nat) : Bool := 128 ≤ b && b ≤ 191

def utf8Valid : Bytes → Bool
  | [] => true
  | b0 :: rest =>
    if b0 < 128 then utf8Valid rest
    else if 194 ≤ b0 && b0 ≤ 223 then
      match rest with
      | b1 :: r => isCont b1 && utf8Valid r
      | _ => false
    else if 224 ≤ b0 && b0 ≤ 239 then
      match rest with
      | b1 :: b2 :: r =>
        (if b0 = 224 then (160 ≤ b1 && b1 ≤ 191) else if b0 = 237 then (128 ≤ b1 && b1 ≤ 159) else isCont b1) &&
          isCont b2 && utf8Valid r
      | _ => false
    else if 240 ≤ b0 && b0 ≤ 244 then
      match rest with
      | b1 :: b2 :: b3 :: r =>
        (if b0 = 240 then (144 ≤ b1 && b1 ≤ 191) else if b0 = 244 then (128 ≤ b1 && b1 ≤ 143) else isCont b1) &&
          isCont b2 && isCont b3 && utf8Valid r
      | _ => false
    else false

/-! ## encoder (`serialize.rs`) -/

inductive EncErr | invalid | lineFeedOrNul | unescapable | tooLarge
deriving DecidableEq, Repr

/-- a value that begins like an escaped string (`\\` followed by a delimiter) must be escaped -/
def looksEscaped : Bytes → Bool
  | b0 :: b1 :: _ => b0 = backslash && isEsc b1
  | _ => false

/-- `<&str as ParameterValueDisplay>::fmt_param` -/
def encStr (s : Bytes) : Except EncErr Bytes :=
  if s.any (fun b => b = 10 || b = 0) then .error .lineFeedOrNul
  else if s.isEmpty then .ok [backslash, 34, backslash, 34]
  else if !looksEscaped s && !s.any isSpace then .ok s
  else match escChars.find? (fun d => !s.contains d) with
    | some d => .ok ([backslash, d] ++ s ++ [backslash, d])
    | none => .error .unescapable

def encScalar : Scalar → Except EncErr Bytes
  | .num n => .ok (digits n)
  | .bool b => .ok (if b then trueBytes else falseBytes)
  | .str s => encStr s

/-- the values of a slice, separated by single spaces -/
def encSlice : List Scalar → Except EncErr Bytes
  | [] => .ok []
  | [v] => encScalar v
  | v :: vs =>
    match encScalar v, encSlice vs with
    | .ok a, .ok b => .ok (a ++ [32] ++ b)
    | .error e, _ => .error e
    | _, .error e => .error e

/-- `write_param` / `write_param_slice` for one field -/
def encField (f : Field) (v : FVal) : Except EncErr Bytes :=
  match v with
  | .reg x => match encScalar x with
    | .ok a => .ok ([32] ++ f.name ++ [61] ++ a)
    | .error e => .error e
  | .opt none => .ok []
  | .opt (some x) => match encScalar x with
    | .ok a => .ok ([32] ++ f.name ++ [61] ++ a)
    | .error e => .error e
  | .vec [] => .ok []
  | .vec vs => match encSlice vs with
    | .ok a => .ok ([32] ++ f.name ++ [58] ++ digits vs.length ++ [61] ++ a)
    | .error e => .error e

/-- lexicographic order on byte strings (`String::cmp`) -/
def bytesLt : Bytes → Bytes → Bool
  | [], [] => false
  | [], _ :: _ => true
  | _ :: _, [] => false
  | a :: as, b :: bs => if a < b then true else if b < a then false else bytesLt as bs

def insertByName (x : Field × FVal) : List (Field × FVal) → List (Field × FVal)
  | [] => [x]
  | y :: ys => if bytesLt x.1.name y.1.name then x :: y :: ys else y :: insertByName x ys

def idName : Bytes := [105, 100]

/-- canonical order of the derive macro: `id` first, the rest sorted by wire name (stable) -/
def canonical (fvs : List (Field × FVal)) : List (Field × FVal) :=
  (fvs.filter (fun p => p.1.name = idName)).take 1 ++
    (fvs.filter (fun p => p.1.name ≠ idName)).foldr insertByName []

def encFields : List (Field × FVal) → Except EncErr Bytes
  | [] => .ok []
  | (f, v) :: rest =>
    match encField f v, encFields rest with
    | .ok a, .ok b => .ok (a ++ b)
    | .error e, _ => .error e
    | _, .error e => .error e

/-! ## validation (`validate` of the derive macro + the enum checks of `validate_parameters`) -/

def checkField (f : Field) (v : FVal) : Bool :=
  match f.check, v with
  | .nonZero, .reg (.num n) => n ≠ 0
  | .nonEmpty, .reg (.str s) => !s.isEmpty
  | .nonEmpty, .vec vs => !vs.isEmpty
  | _, _ => true

def enumOk (vals : List FVal) (e : Nat × List Bytes) : Bool :=
  match vals[e.1]? with
  | some (.reg (.str s)) => e.2.contains s
  | some (.opt (some (.str s))) => e.2.contains s
  | _ => true

def numOk (vals : List FVal) (e : Nat × List Nat) : Bool :=
  match vals[e.1]? with
  | some (.reg (.num n)) => e.2.contains n
  | some (.opt (some (.num n))) => e.2.contains n
  | _ => true

def validate (spec : MsgSpec) (vals : List FVal) : Bool :=
  (spec.fields.zip vals).all (fun p => checkField p.1 p.2) && spec.enums.all (enumOk vals) && spec.nums.all (numOk vals)

/-- `serialize(msg, out)` with `out.len() = cap` -/
def encode (S : Schema) (cap : Nat) (m : Msg) : Except EncErr Bytes :=
  match S[m.kind]? with
  | none => .error .invalid
  | some spec =>
    if !validate spec m.vals then .error .invalid
    else match encFields (canonical (spec.fields.zip m.vals)) with
      | .error e => .error e
      | .ok ps =>
        let line := spec.wire ++ ps ++ [10]
        if line.length ≤ cap then .ok line else .error .tooLarge

/-! ## decoder (`deserialize.rs`) -/

/-- `panic` = the decrement `current_value_count -= 1` on a zero count (overflow check of the dev profile) -/
inductive DecErr | malformed | unknownMessage | badValue | invalid | panic
deriving DecidableEq, Repr

/-- `seek_char`: skip spaces; `none` at end of input or at a NUL byte -/
def seekChar : Bytes → Option Bytes
  | [] => none
  | b :: rest => if b = 0 then none else if isSpace b then seekChar rest else some (b :: rest)

/-- the bytes `read_string` takes once positioned: up to a space, a NUL or the end -/
def tokenOf : Bytes → Bytes
  | [] => []
  | b :: rest => if b = 0 || isSpace b then [] else b :: tokenOf rest

/-- … and what is left (the terminating byte is consumed) -/
def afterToken : Bytes → Bytes
  | [] => []
  | b :: rest => if b = 0 || isSpace b then rest else afterToken rest

/-- `read_string` -/
def readString (s : Bytes) : Option (Bytes × Bytes) :=
  match seekChar s with
  | none => none
  | some s1 => some (tokenOf s1, afterToken s1)

/-- the scanning loop of `read_escaped_string` after the opening delimiter: `acc` collects the value
    (reversed), `mark` says that the previous byte was a backslash (which is then the last element of `acc`) -/
def scanEscaped (d : Nat) : Bytes → Bytes → Bool → Option (Bytes × Bytes)
  | [], _, _ => none                                   -- end of input: `read_byte` yields 0 → malformed
  | b :: rest, acc, mark =>
    if b = backslash then scanEscaped d rest (b :: acc) true
    else if mark && b = d then some ((acc.drop 1).reverse, rest)
    else if b = 0 then none
    else scanEscaped d rest (b :: acc) false

/-- `read_escaped_string`: `none` = no value, `some none` = malformed, `some (some (v, rest))` -/
def readEscaped (s : Bytes) : Option (Option (Bytes × Bytes)) :=
  match seekChar s with
  | none => none
  | some s1 =>
    match s1 with
    | b0 :: b1 :: rest =>
      if b0 = backslash && isEsc b1 then some (scanEscaped b1 rest [] false)
      else some (some (tokenOf s1, afterToken s1))
    | _ => some (some (tokenOf s1, afterToken s1))

def splitAt (p : Nat → Bool) : Bytes → Option (Bytes × Bytes)
  | [] => none
  | b :: rest => if p b then some ([], rest) else (splitAt p rest).map (fun r => (b :: r.1, r.2))

/-- `read_parameter` once positioned on a non-space byte: `(name, count, rest after '=')` -/
def readParameter (s : Bytes) : Except DecErr (Bytes × Nat × Bytes) :=
  match splitAt (· = 61) s with
  | none => .error .malformed
  | some (nm, rest) =>
    match splitAt (· = 58) nm with
    | none => if nm.all isOptionNameByte then .ok (nm, 1, rest) else .error .malformed
    | some (nm', cnt) =>
      if !utf8Valid cnt then .error .malformed
      else match parseUnsigned (2 ^ 64 - 1) cnt with
        | none => .error .malformed
        | some 0 => .error .malformed
        | some c => if nm'.all isOptionNameByte then .ok (nm', c, rest) else .error .malformed

/-- the `ParameterReader` iterator run to the end: the `(name, value)` pairs in wire order -/
def readParams : Nat → Bytes → Option (Bytes × Nat) → Except DecErr (List (Bytes × Bytes))
  | 0, _, _ => .error .malformed          -- unreachable with fuel > input length (each round consumes a byte)
  | fuel + 1, s, cur =>
    let start : Except DecErr (Option (Bytes × Nat × Bytes)) :=
      match cur with
      | some (nm, c) => .ok (some (nm, c, s))
      | none =>
        match seekChar s with
        | none => .ok none
        | some s1 => match readParameter s1 with
          | .ok r => .ok (some r)
          | .error e => .error e
    match start with
    | .error e => .error e
    | .ok none => .ok []
    | .ok (some (nm, c, s2)) =>
      match readEscaped s2 with
      | none => .error .malformed
      | some none => .error .malformed
      | some (some (v, s3)) =>
        if c = 0 then .error .panic      -- `self.current_value_count -= 1` underflows
        else match readParams fuel s3 (if c - 1 = 0 then none else some (nm, c - 1)) with
        | .ok ps => .ok ((nm, v) :: ps)
        | .error e => .error e

/-- `Parameter::as_*` -/
def decScalar (ty : Ty) (v : Bytes) : Option Scalar :=
  if !utf8Valid v then none
  else match ty with
    | .atom => some (.str v)
    | .u8 => (parseUnsigned 255 v).map .num
    | .u16 => (parseUnsigned 65535 v).map .num
    | .u32 => (parseUnsigned 4294967295 v).map .num
    | .bool => if v = trueBytes then some (.bool true) else if v = falseBytes then some (.bool false) else none

def defaultScalar : Ty → Scalar
  | .atom => .str []
  | .bool => .bool false
  | _ => .num 0

def defaultVal (f : Field) : FVal :=
  match f.kind with
  | .regular => .reg (defaultScalar f.ty)
  | .optional => .opt none
  | .vec => .vec []

/-- one `(name, value)` pair against the fields in declaration order: the first field with that name takes it -/
def assign : List Field → List FVal → Bytes → Bytes → Option (List FVal)
  | f :: fs, v :: vs, nm, raw =>
    if f.name = nm then
      match decScalar f.ty raw with
      | none => none
      | some x =>
        match f.kind, v with
        | .regular, _ => some (.reg x :: vs)
        | .optional, _ => some (.opt (some x) :: vs)
        | .vec, .vec old => some (.vec (old ++ [x]) :: vs)
        | .vec, _ => some (.vec [x] :: vs)
    else (assign fs vs nm raw).map (v :: ·)
  | _, vs, _, _ => some vs                    -- unknown parameter names are skipped

def assignAll (fields : List Field) : List FVal → List (Bytes × Bytes) → Option (List FVal)
  | vals, [] => some vals
  | vals, (nm, raw) :: rest =>
    match assign fields vals nm raw with
    | none => none
    | some vals' => assignAll fields vals' rest

def findSpec : Schema → Bytes → Nat → Option (Nat × MsgSpec)
  | [], _, _ => none
  | sp :: rest, nm, i => if sp.wire = nm then some (i, sp) else findSpec rest nm (i + 1)

/-- `deserialize(line)` (the line without its terminating LF) -/
def decode (S : Schema) (line : Bytes) : Except DecErr Msg :=
  match readString line with
  | none => .error .malformed
  | some (nm, rest) =>
    match findSpec S nm 0 with
    | none => .error .unknownMessage
    | some (k, spec) =>
      match readParams (rest.length + 1) rest none with
      | .error e => .error e
      | .ok ps =>
        match assignAll spec.fields (spec.fields.map defaultVal) ps with
        | none => .error .badValue
        | some vals => if validate spec vals then .ok { kind := k, vals := vals } else .error .invalid

end Narwhal.Codec
