/-!
# Who holds a username (server/src/c2s/router.rs: `register_connection`, `unregister_connection`)

Each of the two operations touches the connection map in **one** critical section (a DashMap `entry`): registration checks
"nobody holds the name" and inserts under the same guard; unregistration removes the connection and, if it was the last one,
the whole entry under the same guard, and the clean-up that follows never touches the map again (repair 823c396; the
segment structure is read from the source, `Generated/Steps.lean`).  So every interleaving of connections identifying and
ending — on any number of worker threads — is a sequence of these atomic steps.
-/
namespace Narwhal.Names

abbrev Name := Nat

/-- `connections`: username ↦ handlers of its live connections -/
abbrev Router := Name → List Nat

inductive Op
  | identify (name : Name) (k : Nat)     -- IDENTIFY on connection `k` (exclusive registration)
  | ended (name : Name) (k : Nat)        -- connection `k`, registered under `name`, ends for whatever reason

def step (r : Router) : Op → Router
  | .identify name k => if (r name).isEmpty then (fun n => if n = name then [k] else r n) else r
  | .ended name k => fun n => if n = name then (r name).filter (· ≠ k) else r n

/-- was the registration acknowledged? -/
def accepted (r : Router) : Op → Bool
  | .identify name _ => (r name).isEmpty
  | .ended _ _ => true

def run (r : Router) (ops : List Op) : Router := ops.foldl step r

def init : Router := fun _ => []

end Narwhal.Names
