/-!
# Who holds a username (server/src/c2s/router.rs: `register_connection`, `unregister_connection`)

Registration checks "no entry for the name" and inserts under one DashMap entry guard.  The end of a connection removes it under
one guard; when it was the user's last connection the *empty* entry stays in the map — the name is reserved — while the
clean-up that takes the user out of its channels runs, and is removed when the clean-up has finished (repairs 823c396, ad38d09;
the segment structure is read from the source, `Generated/Steps.lean`).  So every interleaving of connections identifying,
ending and clean-ups finishing — on any number of worker threads — is a sequence of these atomic steps.
-/
namespace Narwhal.Names

abbrev Name := Nat

/-- `connections`: username ↦ `none` (no entry) or the handlers of its live connections (`some []` = reserved by a clean-up) -/
abbrev Router := Name → Option (List Nat)

inductive Op
  | identify (name : Name) (k : Nat)     -- IDENTIFY on connection `k` (exclusive registration)
  | ended (name : Name) (k : Nat)        -- connection `k`, registered under `name`, ends for whatever reason
  | cleaned (name : Name)                -- the clean-up started by the end of the name's last connection has finished

def step (r : Router) : Op → Router
  | .identify name k => match r name with
    | none => fun n => if n = name then some [k] else r n
    | some _ => r
  | .ended name k => match r name with
    | none => r
    | some l => fun n => if n = name then some (l.filter (· ≠ k)) else r n
  | .cleaned name => match r name with
    | some [] => fun n => if n = name then none else r n
    | _ => r

/-- was the registration acknowledged? -/
def accepted (r : Router) : Op → Bool
  | .identify name _ => (r name).isNone
  | _ => true

/-- the live holders of a name -/
def holders (r : Router) (name : Name) : List Nat := (r name).getD []

/-- the user's memberships may still exist: a live holder, or a clean-up that has not finished -/
def taken (r : Router) (name : Name) : Bool := (r name).isSome

def run (r : Router) (ops : List Op) : Router := ops.foldl step r

def init : Router := fun _ => none

end Narwhal.Names
