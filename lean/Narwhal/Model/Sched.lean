/-!
# Request tasks, locks and suspension points

A model of how request handlers share one worker thread (`common/src/conn.rs: submit_request`, a `LocalSet` of
tasks) and the channel locks (`async_lock::RwLock` per channel, the manager lock): every handler is a *program* of
lock-relevant actions, extracted from the source by the translator (`Generated/Locks.lean`):

* `acquire l` — `….read().await` / `….write().await`: the task proceeds when nobody holds `l`, otherwise it is
  suspended (the worker runs other tasks meanwhile);
* `release l` — the guard is dropped (`drop(g)` or end of scope);
* `call` — any other `.await` (a modulator round trip through the notifier or the dispatcher): the task is
  suspended until the environment answers, with success or with an error (the handler then returns through `?`,
  dropping its guards);
* `step` — everything else (map operations under short-lived shard guards, queueing replies): runs without yielding.

Synchronous (DashMap shard) guards are not modelled as locks: a task that is never suspended while holding one cannot
block another task of its own thread.  That *no shard guard lives across a suspension point* is a separate table
obligation (`guardSites = []`, regenerated from the source).

The environment may also **cancel** any task at any time (`request_timeout`, connection closed): its future is
dropped and with it every guard it holds.
-/
namespace Narwhal.Sched

inductive Act
  | acquire (l : Nat)
  | release (l : Nat)
  | call
  | step
deriving DecidableEq, Repr

abbrev Prog := List Act

structure Task where
  prog    : Prog          -- what is left to do
  held    : List Nat      -- async locks held
  waiting : Bool          -- suspended in a `call`, waiting for the environment
deriving DecidableEq, Repr

abbrev St := List Task

/-- lock discipline of a program, given the locks held on entry: a lock is acquired only while holding none
    (no hold-and-wait), releases match, nothing is held at the end -/
def wf : List Nat → Prog → Bool
  | held, [] => held.isEmpty
  | held, .acquire l :: p => held.isEmpty && wf [l] p
  | held, .release l :: p => held.contains l && wf (held.erase l) p
  | held, .call :: p => wf held p
  | held, .step :: p => wf held p

def Task.ok (t : Task) : Prop := wf t.held t.prog = true

def lockFree (s : St) (l : Nat) : Prop := ∀ t ∈ s, l ∉ t.held

/-- task `t` can take its next action in state `s` -/
def enabled (s : St) (t : Task) : Prop :=
  t.waiting = false ∧
  match t.prog with
  | [] => False
  | .acquire l :: _ => lockFree s l
  | _ :: _ => True

/-- the next action of a task (scheduler step) -/
def advance (t : Task) : Task :=
  match t.prog with
  | [] => t
  | .acquire l :: p => { t with prog := p, held := l :: t.held }
  | .release l :: p => { t with prog := p, held := t.held.erase l }
  | .call :: p => { t with prog := p, waiting := true }
  | .step :: p => { t with prog := p }

/-- the handler returns early (error from a call) or its future is dropped (timeout, cancellation):
    every guard is dropped -/
def abort (t : Task) : Task := { prog := [], held := [], waiting := false }

inductive Ev
  | run (i : Nat)                 -- the worker polls task i, which takes its next action
  | answer (i : Nat) (ok : Bool)  -- the modulator call of task i returns
  | cancel (i : Nat)              -- request timeout / connection closed: the task is dropped
  | spawn (p : Prog)              -- a new request arrives
deriving Repr

def modify (s : St) (i : Nat) (f : Task → Task) : St :=
  s.mapIdx (fun j t => if j = i then f t else t)

def next (s : St) : Ev → St
  | .run i =>
    match s[i]? with
    | some t =>
      -- an `acquire` of a held lock leaves the task where it is (it stays suspended)
      match t.prog with
      | .acquire l :: _ => if t.waiting = false ∧ (s.all (fun u => !u.held.contains l)) then modify s i advance else s
      | _ => if t.waiting = false then modify s i advance else s
    | none => s
  | .answer i ok =>
    match s[i]? with
    | some t => if t.waiting then modify s i (fun t => if ok then { t with waiting := false } else abort t) else s
    | none => s
  | .cancel i => modify s i abort
  | .spawn p => if wf [] p then s ++ [{ prog := p, held := [], waiting := false }] else s

def run (s : St) : List Ev → St
  | [] => s
  | e :: es => run (next s e) es

end Narwhal.Sched
