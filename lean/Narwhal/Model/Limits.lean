/-!
# Connection admission and the per-connection in-flight gate (common/src/conn.rs: `ConnManager::run_connection`,
`Conn::submit_request`)

Two models.

* `ASt` / `astep`: the admission counter at the granularity of its atomic operations, for any number of worker threads:
  `fetch_add(1)` returns the old value; the connection is admitted iff `old < max`, otherwise it does `fetch_sub(1)`, writes
  the SERVER_OVERLOADED bytes and ends; an admitted connection does `fetch_sub(1)` when it ends (any way it ends).
  Only whether `old < max` held matters later, so pending connections are counted by that bit.
* `St` / operations: the sequential view used by the correspondence suite `limits`: which connections are open, how many
  request handlers each has executing.  `submit_request` checks `current >= max` and increments in one synchronous block
  (a `Cell` on the connection's own worker), so the gate is atomic per connection.  A request refused by the gate makes
  `dispatch_message` fail, which ends the connection loop: the connection is closed and its executing requests are cancelled.
-/
namespace Narwhal.Limits

/-! ## admission counter, micro-steps -/

structure ASt where
  max      : Nat
  cur      : Nat    -- the atomic counter
  pendOk   : Nat    -- did fetch_add, saw old < max, not yet past the comparison
  pendBad  : Nat    -- did fetch_add, saw old ≥ max, not yet past the comparison
  refusing : Nat    -- past the comparison, refused, fetch_sub not yet done
  admitted : Nat    -- running connections
deriving Repr, DecidableEq

inductive AStep
  | arrive        -- fetch_add(1)
  | decideOk      -- a pending connection that saw old < max passes the comparison
  | decideBad     -- a pending connection that saw old ≥ max passes the comparison
  | refuse        -- fetch_sub(1) of a refused connection
  | finish        -- an admitted connection ends (clean close, error, timeout, panic-free paths): fetch_sub(1)
deriving Repr, DecidableEq

def ainit (max : Nat) : ASt := { max := max, cur := 0, pendOk := 0, pendBad := 0, refusing := 0, admitted := 0 }

def astep (s : ASt) : AStep → ASt
  | .arrive => if s.cur < s.max then { s with cur := s.cur + 1, pendOk := s.pendOk + 1 }
               else { s with cur := s.cur + 1, pendBad := s.pendBad + 1 }
  | .decideOk => if 0 < s.pendOk then { s with pendOk := s.pendOk - 1, admitted := s.admitted + 1 } else s
  | .decideBad => if 0 < s.pendBad then { s with pendBad := s.pendBad - 1, refusing := s.refusing + 1 } else s
  | .refuse => if 0 < s.refusing then { s with refusing := s.refusing - 1, cur := s.cur - 1 } else s
  | .finish => if 0 < s.admitted then { s with admitted := s.admitted - 1, cur := s.cur - 1 } else s

def arun (s : ASt) (l : List AStep) : ASt := l.foldl astep s

/-! ## sequential view -/

structure Conn where
  id        : Nat
  authed    : Bool
  executing : Nat
deriving Repr, DecidableEq

structure St where
  maxConn  : Nat
  inflight : Nat
  conns    : List Conn
deriving Repr, DecidableEq

def openConn (s : St) (k : Nat) : St × Bool :=
  if s.conns.length ≥ s.maxConn ∨ k ∈ s.conns.map (·.id) then (s, false)
  else ({ s with conns := s.conns ++ [{ id := k, authed := false, executing := 0 }] }, true)

def handshake (s : St) (k : Nat) : St :=
  { s with conns := s.conns.map (fun c => if c.id = k then { c with authed := true } else c) }

def closeConn (s : St) (k : Nat) : St := { s with conns := s.conns.filter (fun c => c.id ≠ k) }

/-- `n` requests arrive in one read; result: handlers of `k` executing afterwards, and whether `k` was closed -/
def burst (s : St) (k n : Nat) : St × Nat × Bool :=
  match s.conns.find? (fun c => c.id = k) with
  | none => (s, 0, false)
  | some c =>
    if c.executing + n ≤ s.inflight then
      ({ s with conns := s.conns.map (fun c' => if c'.id = k then { c' with executing := c'.executing + n } else c') },
       c.executing + n, false)
    else (closeConn s k, 0, true)

/-- `n` requests, one after the other, each refused with a recoverable error (e.g. LEAVE of an unknown channel): every one of them
    gives its slot back, the connection stays open; result as for `burst` -/
def failing (s : St) (k _n : Nat) : St × Nat × Bool :=
  match s.conns.find? (fun c => c.id = k) with
  | none => (s, 0, false)
  | some c => (s, c.executing, false)

/-- every parked handler completes -/
def release (s : St) : St × Nat :=
  ({ s with conns := s.conns.map (fun c => { c with executing := 0 }) }, (s.conns.map (·.executing)).sum)

end Narwhal.Limits
