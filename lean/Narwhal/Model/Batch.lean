/-!
# Writers sharing the message pool (common/src/conn.rs, send arm of `run_connection_loop`; util/src/pool.rs)

Every connection's writer turns queued frames into a batch: it takes one message-pool buffer per frame, then writes
the whole batch and gives the buffers back.  The pool has `cap` buffers shared by all connections.

* the first buffer of a batch is obtained with `acquire_buffer().await` — the writer waits for one while holding none;
* further buffers are obtained with `try_acquire_buffer()`: when none is free the writer stops collecting and writes
  what it has (repair 02d0f5c; before it, a writer awaited every buffer while keeping the ones it held);
* a write completes when the peer accepts the bytes — the environment decides when (`Step.wrote`); until then the writer
  keeps its batch.

The model tracks only what matters for progress: how many buffers each writer holds, what it is doing, how long its
queue is.  `awaitMode = true` is the old code (for the counter-example).
-/
namespace Narwhal.Batch

inductive Phase
  | idle            -- at the `select!`, nothing held
  | first           -- has dequeued a frame, waiting for / about to take its first buffer (holds none)
  | collecting      -- holds ≥ 1, looking at the queue for more (up to `maxBatch`)
  | waitingMore     -- old code only: holds ≥ 1 and awaits another buffer
  | writing         -- inside `write_all_vectored`, holds its batch
deriving DecidableEq, Repr

structure Writer where
  phase : Phase
  held  : Nat
  queue : Nat        -- frames still queued for this connection
deriving DecidableEq, Repr

structure St where
  cap       : Nat
  free      : Nat
  maxBatch  : Nat
  awaitMode : Bool
  ws        : List Writer
deriving DecidableEq, Repr

inductive Step
  | enqueue (i : Nat)      -- a frame is routed to connection i
  | wake (i : Nat)         -- idle writer with a non-empty queue dequeues one frame
  | take (i : Nat)         -- the pool hands a buffer to a writer that is waiting for one (`first` / `waitingMore`)
  | more (i : Nat)         -- a collecting writer looks for the next frame
  | wrote (i : Nat)        -- the peer accepted the batch: buffers returned
deriving DecidableEq, Repr

def setW (ws : List Writer) (i : Nat) (w : Writer) : List Writer := ws.set i w

def step (s : St) : Step → St
  | .enqueue i =>
    match s.ws[i]? with
    | some w => { s with ws := setW s.ws i { w with queue := w.queue + 1 } }
    | none => s
  | .wake i =>
    match s.ws[i]? with
    | some w => if w.phase = .idle ∧ 0 < w.queue then { s with ws := setW s.ws i { w with phase := .first, queue := w.queue - 1 } } else s
    | none => s
  | .take i =>
    match s.ws[i]? with
    | some w =>
      if (w.phase = .first ∨ w.phase = .waitingMore) ∧ 0 < s.free then
        { s with free := s.free - 1, ws := setW s.ws i { w with phase := .collecting, held := w.held + 1 } }
      else s
    | none => s
  | .more i =>
    match s.ws[i]? with
    | some w =>
      if w.phase = .collecting then
        if w.held ≥ s.maxBatch ∨ w.queue = 0 then { s with ws := setW s.ws i { w with phase := .writing } }
        else if s.awaitMode then
          -- old code: dequeue, then await a buffer while holding the batch
          { s with ws := setW s.ws i { w with phase := .waitingMore, queue := w.queue - 1 } }
        else if 0 < s.free then
          { s with free := s.free - 1, ws := setW s.ws i { w with held := w.held + 1, queue := w.queue - 1 } }
        else { s with ws := setW s.ws i { w with phase := .writing } }
      else s
    | none => s
  | .wrote i =>
    match s.ws[i]? with
    | some w =>
      if w.phase = .writing then { s with free := s.free + w.held, ws := setW s.ws i { w with phase := .idle, held := 0 } }
      else s
    | none => s

def run (s : St) (l : List Step) : St := l.foldl step s

def init (cap maxBatch n : Nat) (awaitMode : Bool) : St :=
  { cap := cap, free := cap, maxBatch := maxBatch, awaitMode := awaitMode,
    ws := List.replicate n { phase := .idle, held := 0, queue := 0 } }

/-- a writer that is waiting for the pool -/
def Writer.waitsForPool (w : Writer) : Bool := w.phase = .first || w.phase = .waitingMore

end Narwhal.Batch
