import Narwhal.Model.Micro
/-!
# Connections over the membership micro-steps: who is live, and when a name can be taken again

`Micro.lean` does not know whether a user has a connection.  This layer adds exactly that bit per user and the three places
where the code consults or changes it:

* a JOIN writes a member only if that user has a live connection *in the segment that writes it*: for an on-behalf JOIN that
  is the `has_connection` check of `join_channel`, made under the channel lock in the same segment as the insertion
  (server/src/channel/mod.rs); for a user's own JOIN it is the fact that the request tasks of a connection are cancelled
  before its clean-up starts (common/src/conn.rs `shutdown`; assumption recorded in DESIGN §6, exercised by the lat suite);
* the end of a user's last connection (`cleanup u`) makes the user not live in the same step that takes the index entry;
* a name can be identified again only when no connection holds it *and* its clean-up has finished (the reservation of repair
  ad38d09: `unregister_connection` keeps the entry until `leave_all_channels` has returned) — `Released`.
-/
namespace Narwhal.MicroL
open Narwhal.Micro

structure St where
  base : Micro.St
  live : User → Bool

/-- a clean-up of `u` is still running: a record with channels left, or one of its LEAVEs not finished -/
def CleaningUp (b : Micro.St) (u : User) : Prop :=
  (∃ p ∈ b.rests, p.1 = u ∧ p.2 ≠ []) ∨
  (∃ t, (b.tasks t).kind = .leave false ∧ (b.tasks t).m = u ∧ (b.tasks t).pc ≠ .done)

/-- the admission of a JOIN additionally requires the user joined to be live -/
def gate (s : St) : Micro.Label → Micro.Label
  | .run t e => .run t { e with accept := e.accept && s.live (s.base.tasks t).m }
  | l => l

def stepBase (s : St) (l : Micro.Label) : St :=
  match l with
  | .cleanup u => { base := Micro.step s.base (.cleanup u), live := fun i => if i = u then false else s.live i }
  | l => { s with base := Micro.step s.base (gate s l) }

inductive Reach : St → Prop
  | init : Reach { base := Micro.init true, live := fun _ => false }
  | base (s : St) (l : Micro.Label) : Reach s → Reach (stepBase s l)
  | connect (s : St) (u : User) : Reach s → s.live u = false → ¬ CleaningUp s.base u →
      Reach { s with live := fun i => if i = u then true else s.live i }

end Narwhal.MicroL
