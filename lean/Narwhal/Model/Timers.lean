import Narwhal.Generated.Timers
/-!
# Deadlines, keep-alive and shutdown of one connection (common/src/conn.rs: `Conn::{dispatch_message,
schedule_timeout, run_ping_loop}`, `run_connection_loop`'s close / shutdown arms; the three CONNECT handlers)

A timed automaton in milliseconds. A connection owns at most one *scheduled task*: the connect / authenticate
deadline, or the keep-alive loop, which is either asleep until `wake` (remembering the activity counter it saw
last) or waiting until `dl` for the PONG of the PING it sent.  PING ids are random in the code; here the n-th PING
of a connection is identified by `n`, and a PONG carrying an id that was never sent is `pong 0`.

Time passes by `wait t` (only up to just before the scheduled task's expiry) and by `fire` (time jumps to the expiry
and the task acts), so every interleaving of client activity with expiries is an event list.  Events at the same
instant as an expiry come after it (the harness advances the clock, lets the timers run, then writes).

`out` is what the peer reads: time-stamped frames, oldest first.  The fields `opened`, `phaseAt`, `lastAct`, `pingAt`
are ghosts used only by the theorems.
-/
namespace Narwhal.Timers
open Narwhal.Generated

inductive Link | c2s | s2m | m2s
deriving Repr, DecidableEq

structure Cfg where
  link : Link
  connectTimeout : Nat
  authTimeout : Nat
  keepAlive : Nat
  minKeepAlive : Nat
deriving Repr, DecidableEq

/-- heartbeat negotiation of the link's CONNECT handler (regenerated from the source) -/
def Cfg.clamp (cfg : Cfg) (req : Nat) : Nat :=
  match cfg.link with
  | .c2s => clampC2s cfg.keepAlive cfg.minKeepAlive req
  | .s2m => clampS2m cfg.keepAlive cfg.minKeepAlive req
  | .m2s => clampM2s cfg.keepAlive cfg.minKeepAlive req

/-- only C2S has a separate authentication phase; S2M / M2S are authenticated by their CONNECT -/
def Cfg.twoPhase (cfg : Cfg) : Bool := cfg.link == .c2s

inductive Reason
  | timeoutConnect | timeoutAuth | timeoutPing
  | badRequest          -- a PONG that does not answer the outstanding PING
  | shuttingDown
  | unexpected          -- a message the current phase does not accept (C06)
deriving Repr, DecidableEq

inductive Frame
  | ack (hb : Nat)      -- CONNECT_ACK / S2M_CONNECT_ACK / M2S_CONNECT_ACK with the announced interval
  | authOk
  | authRetry           -- an authentication attempt answered without completing authentication
  | reply               -- the answer to a request
  | ping (n : Nat)
  | pushed              -- a frame the server sends on its own account (MESSAGE, EVENT, MOD_DIRECT routed to this connection)
  | error (r : Reason)  -- always followed by the close
  | eof
deriving Repr, DecidableEq

inductive Phase
  | connecting
  | connected (iv : Nat)
  | authed (iv : Nat)
deriving Repr, DecidableEq

inductive Task
  | idle
  | deadline (d : Nat) (r : Reason)
  | sleeping (wake : Nat) (last : Nat)
  | waiting (n : Nat) (dl : Nat)
deriving Repr, DecidableEq

structure St where
  cfg      : Cfg
  now      : Nat
  phase    : Phase
  task     : Task
  activity : Nat
  slot     : Option Nat          -- a PONG id waiting in the keep-alive task's one-slot channel
  pings    : Nat
  closed   : Bool
  out      : List (Nat × Frame)
  opened   : Nat
  phaseAt  : Nat
  lastAct  : Nat
  pingAt   : Nat
deriving Repr, DecidableEq

inductive Ev
  | wait (t : Nat)
  | fire
  | connect (req : Nat)
  | authOk
  | authRetry
  | request
  | pong (n : Nat)
  | shutdown
  | peerClose
  | deliver             -- something is routed to this connection (traffic *to* the peer is not activity *of* the peer)
deriving Repr, DecidableEq

def init (cfg : Cfg) (t0 : Nat) : St :=
  { cfg := cfg, now := t0, phase := .connecting, task := .deadline (t0 + cfg.connectTimeout) .timeoutConnect,
    activity := 0, slot := none, pings := 0, closed := false, out := [], opened := t0, phaseAt := t0, lastAct := t0,
    pingAt := t0 }

/-- expiry of the scheduled task -/
def due (s : St) : Option Nat :=
  match s.task with
  | .idle => none
  | .deadline d _ => some d
  | .sleeping w _ => some w
  | .waiting _ dl => some dl

/-- the connection writes an ERROR and closes; its scheduled task is cancelled -/
def closeWith (s : St) (r : Reason) : St :=
  { s with closed := true, task := .idle, out := s.out ++ [(s.now, .error r), (s.now, .eof)] }

/-- the keep-alive loop starts (entering `Authenticated`) -/
def startPing (s : St) (iv : Nat) : St :=
  { s with phase := .authed iv, task := .sleeping (s.now + iv) s.activity, phaseAt := s.now, lastAct := s.now }

def fire (s : St) : St :=
  if s.closed then s else
  match s.task with
  | .idle => s
  | .deadline d r => closeWith { s with now := d } r
  | .waiting _ dl => closeWith { s with now := dl } .timeoutPing
  | .sleeping w last =>
    match s.phase with
    | .authed iv =>
      if s.activity ≠ last then { s with now := w, task := .sleeping (w + iv) s.activity }
      else
        match s.slot with
        | some _ =>
          -- the PING is queued and the stale PONG in the slot is taken at once: wrong id
          closeWith { s with now := w, pings := s.pings + 1, slot := none } .badRequest
        | none =>
          { s with now := w, pings := s.pings + 1, pingAt := w, out := s.out ++ [(w, .ping (s.pings + 1))],
                   task := .waiting (s.pings + 1) (w + pingTimeoutFactor * iv) }
    | _ => s

def step (s : St) (e : Ev) : St :=
  if s.closed then s else
  match e with
  | .wait t =>
    if s.now ≤ t then
      match due s with
      | some d => if t < d then { s with now := t } else s
      | none => { s with now := t }
    else s
  | .fire => fire s
  | .connect req =>
    match s.phase with
    | .connecting =>
      let iv := s.cfg.clamp req
      let s1 := { s with out := s.out ++ [(s.now, .ack iv)] }
      if s.cfg.twoPhase then
        { s1 with phase := .connected iv, task := .deadline (s.now + s.cfg.authTimeout) .timeoutAuth, phaseAt := s.now }
      else startPing s1 iv
    | _ => closeWith s .unexpected
  | .authOk =>
    match s.phase with
    | .connected iv => startPing { s with out := s.out ++ [(s.now, .authOk)] } iv
    | _ => closeWith s .unexpected
  | .authRetry =>
    match s.phase with
    | .connected _ => { s with out := s.out ++ [(s.now, .authRetry)] }
    | _ => closeWith s .unexpected
  | .request =>
    match s.phase with
    | .authed _ => { s with activity := s.activity + 1, lastAct := s.now, out := s.out ++ [(s.now, .reply)] }
    | _ => closeWith s .unexpected
  | .pong n =>
    match s.phase with
    | .authed iv =>
      let n' := if 1 ≤ n ∧ n ≤ s.pings then n else 0
      match s.task with
      | .waiting m _ =>
        match s.slot with
        | some _ => closeWith s .badRequest
        | none =>
          if n' = m then { s with task := .sleeping (s.now + iv) s.activity, lastAct := s.now }
          else closeWith s .badRequest
      | .sleeping _ _ =>
        match s.slot with
        | none => { s with slot := some n' }
        | some _ => closeWith s .badRequest
      | _ => s
    | _ => closeWith s .unexpected
  | .shutdown => closeWith s .shuttingDown
  | .peerClose => { s with closed := true, task := .idle }
  | .deliver =>
    -- only an authenticated connection is registered with the router; the keep-alive state is untouched
    match s.phase with
    | .authed _ => { s with out := s.out ++ [(s.now, .pushed)] }
    | _ => s

def run (s : St) (evs : List Ev) : St := evs.foldl step s

/-- time passes until `t` with nothing but expiries happening (`fuel` bounds the number of expiries) -/
def advance : Nat → St → Nat → St
  | 0, s, t => step s (.wait t)
  | fuel + 1, s, t =>
    if s.closed then step s (.wait t) else
    match due s with
    | some d => if d ≤ t then advance fuel (fire s) t else step s (.wait t)
    | none => step s (.wait t)

/-- a listener's connections; shutdown reaches every one of them -/
def shutdownAll (cs : List St) : List St := cs.map (fun s => step s .shutdown)

end Narwhal.Timers
