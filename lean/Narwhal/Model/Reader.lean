/-!
# Inbound framing: `StreamReader` (util/src/codec.rs) and the connection loop's frame reader

`RS` is the reader's buffer: `buf` = the first `current_pos` bytes of the pool buffer, `linePos` =
position of the LF of the line handed out last (not yet compacted away).  The transport is a list of
chunks: each `read` returns the front of the current chunk, at most as many bytes as fit the buffer;
no more chunks (or an empty chunk: a 0-byte read) is EOF.

`frames` is the connection loop (common/src/conn.rs:868-987): header line, header interpretation `hdr`
(the wire codec + `payload_info`, a parameter here), optional payload of exactly the announced length
followed by a mandatory LF.  `spec` is the same thing defined on the whole byte stream with no buffer
and no segmentation; `Theorems/C10.lean` proves they agree for every segmentation.
-/
namespace Narwhal.Reader

abbrev Byte := UInt8
def LF : Byte := 10

structure RS where
  buf : List Byte
  linePos : Option Nat
deriving Repr, DecidableEq

/-- bytes in the buffer that have not been handed out yet -/
def RS.unread (s : RS) : List Byte :=
  match s.linePos with
  | some p => s.buf.drop (p + 1)
  | none => s.buf

/-- `compact_buffer` -/
def compact (s : RS) : RS :=
  match s.linePos with
  | some p => if p < s.buf.length then { buf := s.buf.drop (p + 1), linePos := none } else { buf := [], linePos := none }
  | none => s

inductive NextRes
  | line (l : List Byte)
  | eof
  | tooLong
deriving Repr, DecidableEq

def findLF : List Byte → Option Nat
  | [] => none
  | b :: bs => if b = LF then some 0 else (findLF bs).map (· + 1)

/-- one evaluation of the loop head of `next`: LF in buffer? buffer full? -/
def headCheck (cap : Nat) (buf : List Byte) : Option (NextRes × RS) :=
  match findLF buf with
  | some p => some (.line (buf.take p), { buf := buf, linePos := some p })
  | none => if buf.length ≥ cap then some (.tooLong, { buf := buf, linePos := none }) else none

/-- the read loop of `next` on an already compacted buffer -/
def nextLoop (cap : Nat) (buf : List Byte) : List (List Byte) → NextRes × RS × List (List Byte)
  | [] =>
    match headCheck cap buf with
    | some (r, s) => (r, s, [])
    | none => (.eof, { buf := buf, linePos := none }, [])
  | chunk :: rest =>
    match headCheck cap buf with
    | some (r, s) => (r, s, chunk :: rest)
    | none =>
      if chunk.isEmpty then (.eof, { buf := buf, linePos := none }, rest)      -- a 0-byte read is EOF
      else if chunk.length ≤ cap - buf.length then nextLoop cap (buf ++ chunk) rest
      else
        -- short read fills the buffer; the next loop head decides (LF found or too long)
        match headCheck cap (buf ++ chunk.take (cap - buf.length)) with
        | some (r, s) => (r, s, chunk.drop (cap - buf.length) :: rest)
        | none => (.eof, { buf := buf ++ chunk.take (cap - buf.length), linePos := none }, chunk.drop (cap - buf.length) :: rest)

/-- `StreamReader::next` -/
def next (cap : Nat) (s : RS) (cs : List (List Byte)) : NextRes × RS × List (List Byte) :=
  nextLoop cap (compact s).buf cs

/-- `remaining_bytes_count` -/
def remainingCount (s : RS) : Nat :=
  match s.linePos with
  | some p => if p + 1 < s.buf.length then s.buf.length - (p + 1) else 0
  | none => s.buf.length

/-- `extract_remaining(buf, n)` with `n > 0`: compact, hand out up to `n` buffered bytes -/
def extract (s : RS) (n : Nat) : List Byte × RS :=
  ((compact s).buf.take n, { buf := (compact s).buf.drop n, linePos := none })

/-- `read_exact` straight from the transport -/
def readExact : List (List Byte) → Nat → Option (List Byte × List (List Byte))
  | cs, 0 => some ([], cs)
  | [], _ + 1 => none
  | chunk :: rest, n + 1 =>
    if chunk.isEmpty then none
    else if chunk.length ≤ n + 1 then
      (readExact rest (n + 1 - chunk.length)).map (fun r => (chunk ++ r.1, r.2))
    else some (chunk.take (n + 1), chunk.drop (n + 1) :: rest)

/-- `StreamReader::read_raw` for `n ≥ 1` bytes; `none` = EOF before `n` bytes -/
def readRaw (s : RS) (n : Nat) (cs : List (List Byte)) : Option (List Byte × RS × List (List Byte)) :=
  if remainingCount s > 0 then
    if (extract s n).1.length < n then
      (readExact cs (n - (extract s n).1.length)).map (fun r => ((extract s n).1 ++ r.1, (extract s n).2, r.2))
    else some ((extract s n).1, (extract s n).2, cs)
  else (readExact cs n).map (fun r => (r.1, s, r.2))

/-- what the header interpretation says about a line -/
inductive Hdr
  | bad                 -- `deserialize` error
  | plain               -- a message without payload
  | payload (n : Nat)   -- `payload_info().length`
deriving Repr, DecidableEq

inductive Ev
  | msg (line : List Byte) (payload : Option (List Byte))
  | closedTooLong          -- POLICY_VIOLATION "max message size exceeded"
  | closedBadRequest       -- BAD_REQUEST (malformed header)
  | closedPayloadTooLarge  -- POLICY_VIOLATION "payload too large"
  | closedBadTerminator    -- BAD_REQUEST "invalid payload format"
  | closedTruncated        -- EOF inside a payload (read error)
  | eof                    -- peer closed between frames (a partial header at EOF is dropped)
deriving Repr, DecidableEq

/-- the connection loop's inbound side; `fuel` bounds the number of frames (≥ stream length + 1 suffices) -/
def frames (cap maxPayload : Nat) (hdr : List Byte → Hdr) : Nat → RS → List (List Byte) → List Ev
  | 0, _, _ => []
  | fuel + 1, s, cs =>
    match next cap s cs with
    | (.eof, _, _) => [.eof]
    | (.tooLong, _, _) => [.closedTooLong]
    | (.line l, s1, cs1) =>
      match hdr l with
      | .bad => [.closedBadRequest]
      | .plain => .msg l none :: frames cap maxPayload hdr fuel s1 cs1
      | .payload n =>
        if n > maxPayload then [.closedPayloadTooLarge]
        else match readRaw s1 n cs1 with
          | none => [.closedTruncated]
          | some (p, s2, cs2) =>
            match readRaw s2 1 cs2 with
            | none => [.closedTruncated]
            | some (t, s3, cs3) =>
              if t = [LF] then .msg l (some p) :: frames cap maxPayload hdr fuel s3 cs3
              else [.closedBadTerminator]

/-- the same on the whole stream: no buffer, no segmentation -/
def spec (cap maxPayload : Nat) (hdr : List Byte → Hdr) : Nat → List Byte → List Ev
  | 0, _ => []
  | fuel + 1, r =>
    match findLF (r.take cap) with
    | none => if r.length ≥ cap then [.closedTooLong] else [.eof]
    | some p =>
      match hdr (r.take p) with
      | .bad => [.closedBadRequest]
      | .plain => .msg (r.take p) none :: spec cap maxPayload hdr fuel (r.drop (p + 1))
      | .payload n =>
        if n > maxPayload then [.closedPayloadTooLarge]
        else if (r.drop (p + 1)).length < n + 1 then [.closedTruncated]
        else if ((r.drop (p + 1)).drop n).take 1 = [LF] then
          .msg (r.take p) (some ((r.drop (p + 1)).take n)) :: spec cap maxPayload hdr fuel ((r.drop (p + 1)).drop (n + 1))
        else [.closedBadTerminator]

def init : RS := { buf := [], linePos := none }

/-! ### a peer that goes silent instead of closing

`frames` / `spec` end a finite stream with the peer's EOF.  When the peer instead stops sending and keeps the socket open, the
connection loop is at the same place with a pending read: inside a payload (body or terminator outstanding) that read is under
`payload_read_timeout` and ends in TIMEOUT "payload read timeout" and a close; between frames (or inside a header line) the
loop simply waits — the keep-alive and handshake deadlines of `Timers.lean` apply there. -/

inductive SEv
  | ev (e : Ev)
  | closedPayloadTimeout    -- TIMEOUT "payload read timeout", closed
  | waiting                 -- nothing: the connection stays open, reading
deriving Repr, DecidableEq

/-- what the silent peer observes, from what the closing peer would have observed -/
def stallView : List Ev → List SEv
  | [] => []
  | [.closedTruncated] => [.closedPayloadTimeout]
  | [.eof] => [.waiting]
  | e :: es => .ev e :: stallView es

end Narwhal.Reader
