/-!
# Buffer pools (util/src/pool.rs)

`Pool`: an `ArrayQueue` of buffers guarded by a semaphore.  The model works at the granularity of the
code's individual effects on those two objects, so that every interleaving of tasks and threads is a
sequence of `Step`s:

* `acquire_buffer`  = `permit` (semaphore acquire) ; `pop` (`available.pop().unwrap()`)
* dropping a mutable or the last shared handle = `pushMut`/`dropShared` (buffer pushed back) ; `releasePermit`
* `freeze`, `clone`
* `release_buffers` = per handle `batchTake` (last handle: forget the permit, push the buffer; otherwise just drop
  the handle) ; finally `batchAdd n` (`add_permits(n)` with `n` = number of buffers actually pushed)

Buffers have identities `0 … cap-1`, so exclusivity is statable.
-/
namespace Narwhal.Pool

structure St where
  cap        : Nat
  queue      : List Nat            -- available buffers (ids)
  permits    : Nat                 -- semaphore permits
  acquiring  : Nat                 -- tasks holding a permit that have not popped yet
  muts       : List Nat            -- buffers held mutably (each with its permit)
  shared     : List (Nat × Nat)    -- frozen buffers: (id, number of handles ≥ 1) (each with one permit)
  dropping   : Nat                 -- buffers already pushed back whose permit is not yet released
  pendingAdd : Nat                 -- buffers pushed back by `release_buffers` whose `add_permits` is still to come
deriving Repr, DecidableEq

inductive Step
  | permit
  | pop
  | freeze (id : Nat)
  | clone (id : Nat)
  | dropMut (id : Nat)
  | dropShared (id : Nat)
  | releasePermit
  | batchTake (id : Nat)
  | batchAdd (n : Nat)
deriving Repr, DecidableEq

def init (n : Nat) : St :=
  { cap := n, queue := List.range n, permits := n, acquiring := 0, muts := [], shared := [], dropping := 0, pendingAdd := 0 }

def count (sh : List (Nat × Nat)) (id : Nat) : Option Nat :=
  match sh with
  | [] => none
  | (i, c) :: rest => if i = id then some c else count rest id

def setCount (sh : List (Nat × Nat)) (id c : Nat) : List (Nat × Nat) :=
  sh.map (fun p => if p.1 = id then (id, c) else p)

def removeShared (sh : List (Nat × Nat)) (id : Nat) : List (Nat × Nat) := sh.filter (fun p => p.1 ≠ id)

/-- `none` = the step is not enabled in this state; `pop` on an empty queue is the `unwrap` panic -/
inductive Outcome
  | ok (s : St)
  | disabled
  | panic
deriving Repr, DecidableEq

def step (s : St) : Step → Outcome
  | .permit => if s.permits > 0 then .ok { s with permits := s.permits - 1, acquiring := s.acquiring + 1 } else .disabled
  | .pop =>
    if s.acquiring = 0 then .disabled
    else match s.queue with
      | [] => .panic
      | id :: rest => .ok { s with queue := rest, acquiring := s.acquiring - 1, muts := id :: s.muts }
  | .freeze id =>
    if id ∈ s.muts then .ok { s with muts := s.muts.erase id, shared := (id, 1) :: s.shared } else .disabled
  | .clone id =>
    match count s.shared id with
    | some c => .ok { s with shared := setCount s.shared id (c + 1) }
    | none => .disabled
  | .dropMut id =>
    if id ∈ s.muts then .ok { s with muts := s.muts.erase id, queue := s.queue ++ [id], dropping := s.dropping + 1 }
    else .disabled
  | .dropShared id =>
    match count s.shared id with
    | some c =>
      if c ≤ 1 then .ok { s with shared := removeShared s.shared id, queue := s.queue ++ [id], dropping := s.dropping + 1 }
      else .ok { s with shared := setCount s.shared id (c - 1) }
    | none => .disabled
  | .releasePermit => if s.dropping > 0 then .ok { s with dropping := s.dropping - 1, permits := s.permits + 1 } else .disabled
  | .batchTake id =>
    match count s.shared id with
    | some c =>
      if c ≤ 1 then .ok { s with shared := removeShared s.shared id, queue := s.queue ++ [id], pendingAdd := s.pendingAdd + 1 }
      else .ok { s with shared := setCount s.shared id (c - 1) }
    | none => .disabled
  | .batchAdd n => if n ≤ s.pendingAdd then .ok { s with pendingAdd := s.pendingAdd - n, permits := s.permits + n } else .disabled

/-- run a schedule; disabled steps are skipped (the scheduler simply cannot take them) -/
def run (s : St) : List Step → Outcome
  | [] => .ok s
  | st :: rest =>
    match step s st with
    | .ok s' => run s' rest
    | .disabled => run s rest
    | .panic => .panic

/-- `in_use_count()` as the code computes it -/
def inUse (s : St) : Nat := s.cap - s.queue.length
def available (s : St) : Nat := s.queue.length

/-! ## bucketed pool -/

/-- bucket sizes `min * g^k ≤ max` (ascending); `fuel` bounds the loop -/
def sizes (g max : Nat) : Nat → Nat → List Nat
  | 0, _ => []
  | fuel + 1, cur => if cur ≤ max then cur :: sizes g max fuel (cur * g) else []

/-- top-down budget allocation over the sizes in descending order (decay 1/2): `(count, size)` list, descending -/
def allocate (capPerBucket : Nat) : List Nat → Nat → List (Nat × Nat)
  | [], _ => []
  | [size], remaining =>
    let c := min (remaining / size) capPerBucket
    if c > 0 then [(c, size)] else []
  | size :: rest, remaining =>
    let c := min ((remaining / 2) / size) capPerBucket
    if c > 0 then (c, size) :: allocate capPerBucket rest (remaining - c * size) else allocate capPerBucket rest remaining

/-- `BucketedPool::new_with_memory_budget(min, max, budget, cap, g, 0.5)`: buckets ascending by size -/
def geometry (min max budget capPerBucket g : Nat) : List (Nat × Nat) :=
  (allocate capPerBucket (sizes g max (max + 1) min).reverse budget).reverse

/-- `acquire_buffer(size)` decision given each bucket's `(size, available)` (ascending):
    first suitable bucket with a free buffer; else block on the last (largest) suitable one; else none -/
inductive Choice
  | take (size : Nat)
  | block (size : Nat)
  | none
deriving Repr, DecidableEq

def choose (buckets : List (Nat × Nat)) (req : Nat) : Choice :=
  match buckets.find? (fun b => b.1 ≥ req && b.2 > 0) with
  | some b => .take b.1
  | none =>
    match (buckets.filter (fun b => b.1 ≥ req)).getLast? with
    | some b => .block b.1
    | none => .none

/-- the payload pool `ConnManager::new` builds (after the D9 fix): smallest `256 * 2^k ≥ max_payload_size` -/
def bucketCeil (maxPayload : Nat) : Nat → Nat → Nat
  | 0, cur => cur
  | fuel + 1, cur => if cur < maxPayload then bucketCeil maxPayload fuel (cur * 2) else cur

def connGeometry (maxConnections maxPayload budget : Nat) : List (Nat × Nat) :=
  let top := bucketCeil maxPayload (maxPayload + 1) 256
  geometry 256 top (max budget (2 * top)) (maxConnections + maxConnections * 128) 2

end Narwhal.Pool
