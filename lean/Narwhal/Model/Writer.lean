/-!
# Outbound side: queue, batching, vectored writes (common/src/conn.rs:989-1037, 1083-1122; util/src/io.rs)

A queued frame is its serialized header line (LF included) plus an optional payload; the writer loop
takes a batch of up to `MAX_IOVS` frames, lays them out as I/O slices (`prepare_iovs`) and calls
`write_all_vectored`, which repeats `write_vectored` on what remains until everything is written.
The transport is adversarial: each call accepts any number of bytes from 1 up to what is offered
(`accepts`), or 0, which the loop treats as a closed connection.
-/
namespace Narwhal.Writer

abbrev Byte := UInt8
def LF : Byte := 10

structure OutFrame where
  header : List Byte            -- serialized message, ends with LF
  payload : Option (List Byte)
deriving Repr, DecidableEq

/-- `prepare_iovs` for one frame: header, then payload and a one-byte LF slice -/
def iovs (f : OutFrame) : List (List Byte) :=
  match f.payload with
  | some p => [f.header, p, [LF]]
  | none => [f.header]

/-- the bytes a peer must receive for this frame -/
def render (f : OutFrame) : List Byte := (iovs f).flatten

/-- `IoSlice::advance_slices`: drop `n` bytes from the front of the slice list -/
def advance : List (List Byte) → Nat → List (List Byte)
  | [], _ => []
  | b :: bs, n => if n ≥ b.length then advance bs (n - b.length) else (b.drop n) :: bs

def total (bufs : List (List Byte)) : Nat := (bufs.map List.length).sum

inductive WriteRes
  | done                 -- all slices written
  | closed               -- the transport accepted 0 bytes: "failed to write to stream"
  | starved              -- the script of accepted sizes ran out (the transport is still pending)
deriving Repr, DecidableEq

/-- `write_all_vectored` against a transport that accepts `accepts[i]` bytes (capped by what is offered)
    at its i-th call; returns the bytes that reached the transport.  The loop runs while slices remain
    (`while !bufs.is_empty()`), so a non-empty list of empty slices makes one more call, which can only accept 0 bytes and
    is reported as closed — unreachable from `prepare_iovs`, whose first slice is a non-empty header. -/
def writeAll : List (List Byte) → List Nat → List Byte × WriteRes
  | [], _ => ([], .done)
  | _ :: _, [] => ([], .starved)
  | b :: bs, a :: as =>
    let n := min a (total (b :: bs))
    if n = 0 then ([], .closed)
    else
      let r := writeAll (advance (b :: bs) n) as
      (((b :: bs).flatten.take n) ++ r.1, r.2)

/-- cutting a queue into batches of at most `m` frames (what `recv` + `try_recv` up to capacity does when
    everything is already queued) -/
def batches (m : Nat) : Nat → List OutFrame → List (List OutFrame)
  | 0, _ => []
  | _, [] => []
  | fuel + 1, q => if m = 0 then [] else q.take m :: batches m fuel (q.drop m)

/-- what the peer receives when the loop observes a close request or the shutdown after `k` write rounds: the close and
    shutdown arms of the loop's `select!` are polled only between rounds, a round writes its batch to completion, and the
    closing ERROR frame follows (`run_connection_loop`: the write arm awaits `write_iovs` inside its own branch) -/
def loopOut (m : Nat) (q : List OutFrame) (k : Nat) (closing : List Byte) : List Byte :=
  (((batches m q.length q).take k).map (fun b => (b.flatMap iovs).flatten)).flatten ++ closing

/-! ## the bounded outbound queue (`ConnTx`) -/

structure ConnQ where
  cap : Nat
  queue : List OutFrame
  closeReq : Bool            -- an OUTBOUND_QUEUE_FULL close has been requested (close channel holds one message)
deriving Repr, DecidableEq

/-- `ConnTx::send_message_with_payload`: never blocks; a full queue requests the close of *this* connection -/
def trySend (c : ConnQ) (f : OutFrame) : ConnQ :=
  if c.queue.length < c.cap then { c with queue := c.queue ++ [f] } else { c with closeReq := true }

/-- routing one frame to a set of connections (by index) -/
def route (cs : List ConnQ) (targets : List Nat) (f : OutFrame) : List ConnQ :=
  cs.mapIdx (fun i c => if i ∈ targets then trySend c f else c)

end Narwhal.Writer
