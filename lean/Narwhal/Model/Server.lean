import Narwhal.Model.Id
import Narwhal.Model.Acl
/-!
# Sequential semantics of the C2S server

Model of `server/src/c2s/conn.rs` (dispatcher), `server/src/channel/mod.rs` (channel manager),
`server/src/c2s/router.rs` (router) and `server/src/notifier/mod.rs`, *after* the `fix:` commits
listed in `/verif/known_findings.txt`.  One `step` is one client frame (or a socket close) handled to
quiescence, with the outcomes of the modulator calls it triggers and the one piece of hash-order
non-determinism (`pick_new_owner`) supplied as environment input `Env`.

State is plain association lists; hash iteration order only affects the order in which frames are
queued to *different* connections (and the order of the events of one disconnect clean-up on one
connection), which the correspondence canonicalises.
-/
namespace Narwhal.Server
open Narwhal.Acl (Acl ANid isAllowed)

abbrev Str := List Char

structure Cfg where
  domain       : Str
  maxChannels  : Nat
  maxClients   : Nat     -- max_clients_per_channel
  maxSubs      : Nat     -- max_channels_per_client
  maxPayload   : Nat
  authRequired : Bool    -- modulator offers `auth`
  hasMod       : Bool
  fwdEvent     : Bool    -- modulator offers `fwd-event`
  sendPrivate  : Bool    -- modulator offers `send-private-payload`
  -- values echoed in CONNECT_ACK
  keepAlive    : Nat
  minKeepAlive : Nat
  maxMessage   : Nat
  maxInflight  : Nat
  appProtocol  : Option Str
deriving Repr

inductive Reason
  | badRequest | channelNotFound | channelIsFull | forbidden | internalServerError
  | policyViolation | serverOverloaded | notAllowed | notImplemented | unauthorized
  | unexpectedMessage | unsupportedProtocolVersion | userInChannel | userNotInChannel
  | usernameInUse | userNotRegistered | resourceConflict | responseTooLarge
  | timeout | outboundQueueFull | serverShuttingDown
deriving DecidableEq, Repr

/-- `Error::is_recoverable` (table cross-checked by the translator, `Generated/Errors.lean`) -/
def Reason.recoverable : Reason → Bool
  | .channelIsFull | .channelNotFound | .forbidden | .notAllowed | .notImplemented
  | .userInChannel | .userNotInChannel | .usernameInUse | .userNotRegistered
  | .serverOverloaded | .resourceConflict | .responseTooLarge => true
  | _ => false

inductive AclType | join | publish | read
deriving DecidableEq, Repr

abbrev Payload := List UInt8

inductive EvKind | joined | left
deriving DecidableEq, Repr

/-- frames the server queues to a connection -/
inductive Frame
  | connectAck (authRequired : Bool) (app : Option Str) (hb maxInflight maxMsg maxPayload maxSubs : Nat)
  | identifyAck (nid : Str)
  | authAck (challenge : Option Str) (succeeded : Option Bool) (nid : Option Str)
  | joinAck (id : Nat) (chan : Str)
  | leaveAck (id : Nat)
  | broadcastAck (id : Nat)
  | message (frm chan : Str) (payload : Payload)
  | event (kind : EvKind) (chan nid : Str) (owner : Bool)
  | membersAck (id : Nat) (chan : Str) (members : List Str) (page : Option (Nat × Nat × Nat))
  | channelsAck (id : Nat) (chans : List Str) (page : Option (Nat × Nat × Nat))
  | chanAcl (id : Nat) (chan : Str) (ty : AclType) (nids : List Str) (page : Option (Nat × Nat × Nat))
  | chanConfig (id : Nat) (chan : Str) (maxClients maxPayload : Nat)
  | setAclAck (id : Nat)
  | setConfigAck (id : Nat)
  | modDirectAck (id : Nat)
  | modDirect (frm : Str) (payload : Payload)
  | error (id : Option Nat) (reason : Reason)
deriving DecidableEq, Repr

/-- one queued frame; `close = true` means the frame went through the close channel: it is the last
    thing the connection is sent and the connection then ends -/
structure Emit where
  conn  : Nat
  frame : Frame
  close : Bool := false
deriving DecidableEq, Repr

structure Chan where
  handler    : Str
  owner      : Option Str
  maxClients : Nat
  maxPayload : Nat
  joinAcl    : Acl
  publishAcl : Acl
  readAcl    : Acl
  members    : List Str
  targets    : List Str      -- `allowed_targets`: cached read-permitted members
deriving Repr

inductive Phase | connecting | connected | authed (user : Str)
deriving DecidableEq, Repr

structure Conn where
  id    : Nat
  phase : Phase
deriving Repr

structure Srv where
  cfg    : Cfg
  chans  : List (Str × Chan)         -- `channels`: handler ↦ channel
  index  : List (Str × List Str)     -- `in_channels`: username ↦ channel handlers
  router : List (Str × List Nat)     -- `connections`: username ↦ connection handlers
  conns  : List Conn                 -- live connections
deriving Repr

/-- modulator verdict on a broadcast payload -/
inductive Verdict | valid | altered (p : Payload) | invalid | failed
deriving DecidableEq, Repr

inductive AuthOutcome | success (user : Str) | continue_ (challenge : Str) | failure | failed
deriving DecidableEq, Repr

/-- environment input of one step -/
structure Env where
  evOk     : Bool := true                 -- outcome of the `fwd-event` calls made during this step
  owners   : List (Str × Str) := []       -- `pick_new_owner` choices: channel handler ↦ username
  verdict  : Verdict := .valid            -- outcome of `forward_broadcast_payload`
  auth     : AuthOutcome := .failure      -- outcome of `authenticate`
  directOk : Option Bool := some true     -- `send_private_payload`: some valid? / none = call failed
  handoverOk : Bool := true               -- the modulator acknowledges the hand-over announcement (MEMBER_JOINED owner=true) that
                                          -- follows the removal of an owner; `evOk` is the notification of the removal itself
  down     : Bool := false                -- the modulator link is lost during this step: every call fails, `operations()` and
                                          -- `protocol_name()` included (only the flags cached at start-up, `authRequired`, survive)
deriving Repr

inductive AclAction | add | remove
deriving DecidableEq, Repr

/-- client frames (fields that are identifiers are raw strings: parsing is part of the model) -/
inductive Req
  | connect (version hb : Nat)
  | identify (username : Str)
  | auth (token : Str)
  | join (id : Nat) (chan : Str) (onBehalf : Option Str)
  | leave (id : Nat) (chan : Str) (onBehalf : Option Str)
  | broadcast (id : Nat) (chan : Str) (qos : Option Nat) (payload : Payload)
  | members (id : Nat) (chan : Str) (page size : Option Nat)
  | channels (id : Nat) (page size : Option Nat) (owner : Bool)
  | getAcl (id : Nat) (chan : Str) (ty : AclType) (page size : Option Nat)
  | setAcl (id : Nat) (chan : Str) (ty : AclType) (act : AclAction) (nids : List Str)
  | getConfig (id : Nat) (chan : Str)
  | setConfig (id : Nat) (chan : Str) (maxClients maxPayload : Nat)
  | modDirect (id : Option Nat) (payload : Payload)
  | other                                  -- any other well-formed message kind
  | malformed                              -- a line `deserialize` rejects (any phase: BAD_REQUEST, close)
deriving Repr

inductive Op
  | open_ (k : Nat)
  | recv (k : Nat) (r : Req)
  | close (k : Nat)
deriving Repr

/-! ## helpers -/

def lookupA {β} (l : List (Str × β)) (k : Str) : Option β :=
  match l with
  | [] => none
  | (k', v) :: rest => if k' = k then some v else lookupA rest k

def setA {β} (l : List (Str × β)) (k : Str) (v : β) : List (Str × β) :=
  match l with
  | [] => [(k, v)]
  | (k', v') :: rest => if k' = k then (k, v) :: rest else (k', v') :: setA rest k v

/-- remove every binding of `k` (so that `lookupA (eraseA l k) k = none` needs no well-formedness) -/
def eraseA {β} (l : List (Str × β)) (k : Str) : List (Str × β) := l.filter (fun p => p.1 ≠ k)

def findChan (cs : List (Str × Chan)) (h : Str) : Option Chan := lookupA cs h
def putChan (cs : List (Str × Chan)) (c : Chan) : List (Str × Chan) := setA cs c.handler c
def delChan (cs : List (Str × Chan)) (h : Str) : List (Str × Chan) := eraseA cs h

def findConn (cs : List Conn) (k : Nat) : Option Conn :=
  match cs with
  | [] => none
  | c :: rest => if c.id = k then some c else findConn rest k

def connsOf (s : Srv) (u : Str) : List Nat := (lookupA s.router u).getD []
def indexOf (s : Srv) (u : Str) : List Str := (lookupA s.index u).getD []

def fullNid (s : Srv) (u : Str) : Str := u ++ ['@'] ++ s.cfg.domain
def fullChan (s : Srv) (h : Str) : Str := ['!'] ++ h ++ ['@'] ++ s.cfg.domain

/-- `Router::route_to` over a list of local usernames, skipping one connection -/
def routeTo (s : Srv) (users : List Str) (excl : Option Nat) (f : Frame) : List Emit :=
  users.flatMap (fun u => ((connsOf s u).filter (fun k => some k ≠ excl)).map (fun k => { conn := k, frame := f }))

def aclOf (c : Chan) : AclType → Acl
  | .join => c.joinAcl | .publish => c.publishAcl | .read => c.readAcl

/-- `update_allowed_targets` -/
def rebuild (dom : Str) (c : Chan) : Chan :=
  { c with targets := c.members.filter (fun m => isAllowed c.readAcl m dom) }

def newChan (s : Srv) (h : Str) : Chan :=
  { handler := h, owner := none, maxClients := s.cfg.maxClients, maxPayload := s.cfg.maxPayload,
    joinAcl := [], publishAcl := [], readAcl := [], members := [], targets := [] }

def indexAdd (s : Srv) (u h : Str) : List (Str × List Str) :=
  let cur := indexOf s u
  setA s.index u (if h ∈ cur then cur else cur ++ [h])

def indexDel (s : Srv) (u h : Str) : List (Str × List Str) :=
  match lookupA s.index u with
  | none => s.index
  | some cur =>
    let cur' := cur.filter (· ≠ h)
    if cur'.isEmpty then eraseA s.index u else setA s.index u cur'

def errFrame (id : Option Nat) (r : Reason) : Frame := .error id r

/-- insertion sort on strings, lexicographic by code point (`Vec<StringAtom>::sort`) -/
def strLt : Str → Str → Bool
  | [], [] => false
  | [], _ :: _ => true
  | _ :: _, [] => false
  | a :: as, b :: bs => if a < b then true else if b < a then false else strLt as bs

def insertSorted (x : Str) : List Str → List Str
  | [] => [x]
  | y :: ys => if strLt y x then y :: insertSorted x ys else x :: y :: ys

def sortStrs (l : List Str) : List Str := l.foldr insertSorted []

/-- pagination of CHANNELS / MEMBERS (`page` defaults to 1, `size` to 20, capped) -/
def paginate (l : List Str) (page size : Option Nat) (cap : Nat) : List Str × Option (Nat × Nat × Nat) :=
  let pg := page.getD 1
  let sz := min (size.getD 20) cap
  let start := (pg - 1) * sz
  let stop := pg * sz
  let slice := if start < l.length then (l.take (min stop l.length)).drop start else []
  (slice, if slice.length < l.length then some (pg, sz, l.length) else none)

/-- pagination of GET_CHAN_ACL (only when both parameters are given) -/
def paginateAcl (l : List Str) (page size : Option Nat) : List Str × Option (Nat × Nat × Nat) :=
  match page, size with
  | some pg, some sz =>
    let start := (pg - 1) * sz
    let stop := min (start + sz) l.length
    ((if start < l.length then (l.take stop).drop start else []), some (pg, sz, l.length))
  | _, _ => (l, none)

/-- `Notifier::notify` fails before anything is routed: the modulator refuses the forwarded event, or cannot even be
    asked which operations it offers -/
def notifyFails (s : Srv) (env : Env) : Bool := (s.cfg.fwdEvent && !env.evOk) || (s.cfg.hasMod && env.down)

/-- the announcement of the new owner fails: as any notification, or because the modulator refuses just that event -/
def handoverFails (s : Srv) (env : Env) : Bool := notifyFails s env || (s.cfg.fwdEvent && !env.handoverOk)

/-! ## disconnect clean-up -/

/-- channel `c` after `remove_member(u)`: owner cleared if it was `u`, reader cache rebuilt -/
def withoutMember (dom : Str) (c : Chan) (u : Str) : Chan :=
  rebuild dom { c with members := c.members.filter (· ≠ u), owner := if c.owner = some u then none else c.owner }

/-- `pick_new_owner`: any remaining member; the implementation's choice is an oracle input, validated here -/
def pickOwner (env : Env) (c1 : Chan) (u : Str) : Str :=
  match lookupA env.owners c1.handler with
  | some o => if o ∈ c1.members then o else c1.members.headD u
  | none => c1.members.headD u

def handoverEvents (s : Srv) (c2 : Chan) (pick : Str) : List Emit :=
  routeTo s c2.members none (.event .joined (fullChan s c2.handler) (fullNid s pick) true)

/-- outcome of removing `u` from channel `c` (the common tail of LEAVE and of the clean-up):
    new state, the hand-over events routed, and whether the hand-over notification could be forwarded. -/
def removeMember (s : Srv) (c : Chan) (u : Str) (env : Env) : Srv × List Emit × Bool :=
  if (withoutMember s.cfg.domain c u).members.isEmpty then
    ({ s with index := indexDel s u c.handler, chans := delChan s.chans c.handler }, [], true)
  else if c.owner = some u then
    if handoverFails s env then
      ({ s with index := indexDel s u c.handler,
                chans := putChan s.chans { withoutMember s.cfg.domain c u with owner := some (pickOwner env (withoutMember s.cfg.domain c u) u) } },
        [], false)
    else
      ({ s with index := indexDel s u c.handler,
                chans := putChan s.chans { withoutMember s.cfg.domain c u with owner := some (pickOwner env (withoutMember s.cfg.domain c u) u) } },
        handoverEvents s { withoutMember s.cfg.domain c u with owner := some (pickOwner env (withoutMember s.cfg.domain c u) u) }
          (pickOwner env (withoutMember s.cfg.domain c u) u), true)
  else ({ s with index := indexDel s u c.handler, chans := putChan s.chans (withoutMember s.cfg.domain c u) }, [], true)

def leftEvents (s : Srv) (c : Chan) (u : Str) (excl : Option Nat) : List Emit :=
  routeTo s c.members excl (.event .left (fullChan s c.handler) (fullNid s u) (c.owner = some u))

/-- one channel of `leave_all_channels` -/
def leaveOne (u : Str) (env : Env) (acc : Srv × List Emit) (h : Str) : Srv × List Emit :=
  match findChan acc.1.chans h with
  | none => acc
  | some c =>
    if u ∈ c.members then
      ((removeMember acc.1 c u env).1,
        acc.2 ++ (if notifyFails acc.1 env then [] else leftEvents acc.1 c u none) ++ (removeMember acc.1 c u env).2.1)
    else acc

/-- `leave_all_channels` for the last connection of `u` -/
def leaveAll (s : Srv) (u : Str) (env : Env) : Srv × List Emit :=
  (indexOf s u).foldl (leaveOne u env) ({ s with index := eraseA s.index u }, [])

def withoutConn (s : Srv) (k : Nat) : Srv := { s with conns := s.conns.filter (·.id ≠ k) }
def restConns (s : Srv) (u : Str) (k : Nat) : List Nat := (connsOf s u).filter (· ≠ k)

/-- `unregister_connection` + clean-up when it was the user's last connection -/
def dropAuthed (s : Srv) (k : Nat) (u : Str) (env : Env) : Srv × List Emit :=
  if (restConns s u k).isEmpty then leaveAll { withoutConn s k with router := eraseA s.router u } u env
  else ({ withoutConn s k with router := setA s.router u (restConns s u k) }, [])

/-- the connection `k` ends (socket closed, or closed by the server after an error frame) -/
def dropConn (s : Srv) (k : Nat) (env : Env) : Srv × List Emit :=
  match findConn s.conns k with
  | none => (s, [])
  | some c =>
    match c.phase with
    | .authed u => dropAuthed s k u env
    | _ => (withoutConn s k, [])

/-- queue an error to `k`; a non-recoverable one closes the connection -/
def fail (s : Srv) (k : Nat) (id : Option Nat) (r : Reason) (env : Env) : Srv × List Emit :=
  if r.recoverable then (s, [{ conn := k, frame := errFrame id r }])
  else ((dropConn s k env).1, { conn := k, frame := errFrame id r, close := true } :: (dropConn s k env).2)

def reply (s : Srv) (k : Nat) (f : Frame) : Srv × List Emit := (s, [{ conn := k, frame := f }])

/-! ## authenticated requests

Every handler is `check` (pure admission decision: a refusal `(id?, reason)` or the admitted data)
followed by `commit`.  A refusal never changes channel state; `fail` turns it into an ERROR frame and,
for non-recoverable reasons, into the end of the requesting connection. -/

abbrev Refusal := Option Nat × Reason

def chanOrNew (s : Srv) (h : Str) : Chan := (findChan s.chans h).getD (newChan s h)

/-- who is to be joined: the caller, or a local, connected user named by the channel's owner -/
def joinMember (s : Srv) (u : Str) (c : Chan) (ob : Option (Str × Str)) : Except Reason Str :=
  match ob with
  | some (ou, od) =>
    if c.owner ≠ some u then .error .forbidden
    else if od ≠ s.cfg.domain then .error .notImplemented
    else if (connsOf s ou).isEmpty then .error .userNotRegistered
    else .ok ou
  | none => .ok u

def joinAdmit (s : Srv) (c : Chan) (m : Str) : Option Reason :=
  if !isAllowed c.joinAcl m s.cfg.domain then some .notAllowed
  else if m ∈ c.members then some .userInChannel
  else if c.members.length ≥ c.maxClients then some .channelIsFull
  else if (indexOf s m).length ≥ s.cfg.maxSubs then some .policyViolation
  else none

/-- JOIN admission: `(handler, new member)` -/
def joinCheck (s : Srv) (u : Str) (id : Nat) (chanRaw : Str) (obRaw : Option Str) : Except Refusal (Str × Str) :=
  match Id.parseChannelId chanRaw with
  | none => .error (none, .badRequest)
  | some (h, d) =>
    if obRaw.map Id.parseNid = some none then .error (none, .badRequest)
    else if d ≠ s.cfg.domain then .error (some id, .notImplemented)
    else if (findChan s.chans h).isNone && s.chans.length ≥ s.cfg.maxChannels then .error (some id, .serverOverloaded)
    else match joinMember s u (chanOrNew s h) (obRaw.bind Id.parseNid) with
      | .error r => .error (some id, r)
      | .ok m =>
        match joinAdmit s (chanOrNew s h) m with
        | some r => .error (some id, r)
        | none => .ok (h, m)

def withMember (dom : Str) (c : Chan) (m : Str) : Chan :=
  rebuild dom { c with members := c.members ++ [m], owner := if c.owner.isNone then some m else c.owner }

def joinedState (s : Srv) (h m : Str) : Srv :=
  { s with chans := putChan s.chans (withMember s.cfg.domain (chanOrNew s h) m), index := indexAdd s m h }

def joinedEvents (s : Srv) (k : Nat) (h m : Str) : List Emit :=
  routeTo (joinedState s h m) (withMember s.cfg.domain (chanOrNew s h) m).members (some k)
    (.event .joined (fullChan s h) (fullNid s m) (findChan s.chans h).isNone)

def doJoin (s : Srv) (k : Nat) (u : Str) (id : Nat) (chanRaw : Str) (obRaw : Option Str) (env : Env) :
    Srv × List Emit :=
  match joinCheck s u id chanRaw obRaw with
  | .error (i, r) => fail s k i r env
  | .ok (h, m) =>
    -- a failed notification rolls the join back and the request fails as a whole
    if notifyFails s env then fail s k none .internalServerError env
    else (joinedState s h m, joinedEvents s k h m ++ [{ conn := k, frame := .joinAck id chanRaw }])

/-- who is to be removed (a foreign NID is never a member) -/
def leaveTarget (s : Srv) (u : Str) (c : Chan) (ob : Option (Str × Str)) : Except Reason Str :=
  match ob with
  | some (ou, od) =>
    if c.owner ≠ some u then .error .forbidden
    else if od ≠ s.cfg.domain then .error .userNotInChannel
    else .ok ou
  | none => .ok u

/-- LEAVE admission: `(channel, member to remove)` -/
def leaveCheck (s : Srv) (u : Str) (id : Nat) (chanRaw : Str) (obRaw : Option Str) : Except Refusal (Chan × Str) :=
  match Id.parseChannelId chanRaw with
  | none => .error (none, .badRequest)
  | some (h, d) =>
    if obRaw.map Id.parseNid = some none then .error (none, .badRequest)
    else if d ≠ s.cfg.domain then .error (some id, .notImplemented)
    else match findChan s.chans h with
      | none => .error (some id, .channelNotFound)
      | some c =>
        match leaveTarget s u c (obRaw.bind Id.parseNid) with
        | .error r => .error (some id, r)
        | .ok m => if m ∉ c.members then .error (some id, .userNotInChannel) else .ok (c, m)

/-- the part of LEAVE after all checks passed -/
def leaveTail (s : Srv) (k : Nat) (id : Nat) (c : Chan) (m : Str) (env : Env) : Srv × List Emit :=
  if (removeMember s c m env).2.2 then
    ((removeMember s c m env).1,
      leftEvents s c m (some k) ++ [{ conn := k, frame := .leaveAck id }] ++ (removeMember s c m env).2.1)
  else
    ((fail (removeMember s c m env).1 k none .internalServerError env).1,
      leftEvents s c m (some k) ++ [{ conn := k, frame := .leaveAck id }] ++ (removeMember s c m env).2.1
        ++ (fail (removeMember s c m env).1 k none .internalServerError env).2)

def doLeave (s : Srv) (k : Nat) (u : Str) (id : Nat) (chanRaw : Str) (obRaw : Option Str) (env : Env) :
    Srv × List Emit :=
  match leaveCheck s u id chanRaw obRaw with
  | .error (i, r) => fail s k i r env
  | .ok (c, m) =>
    if notifyFails s env then fail s k none .internalServerError env
    else leaveTail s k id c m env

/-- what the modulator lets through: the payload to deliver -/
def payloadGate (s : Srv) (p : Payload) (env : Env) : Except Reason Payload :=
  if s.cfg.hasMod then
    if env.down then .error .internalServerError else
    match env.verdict with
    | .valid => .ok p
    | .altered p' => if p'.isEmpty then .error .internalServerError else .ok p'   -- a MESSAGE cannot carry an empty payload
    | .invalid => .error .badRequest
    | .failed => .error .internalServerError
  else .ok p

/-- BROADCAST admission: `(channel, payload to deliver)` -/
def broadcastCheck (s : Srv) (u : Str) (id : Nat) (chanRaw : Str) (qos : Option Nat) (p : Payload) (env : Env) :
    Except Refusal (Chan × Payload) :=
  if qos.any (· > 1) || p.isEmpty || id = 0 then .error (none, .badRequest)      -- rejected by `deserialize`
  else if p.length > s.cfg.maxPayload then .error (some id, .policyViolation)
  else match Id.parseChannelId chanRaw with
    | none => .error (none, .badRequest)
    | some (h, d) =>
      match payloadGate s p env with
      | .error r => .error (some id, r)
      | .ok p' =>
        if d ≠ s.cfg.domain then .error (some id, .notImplemented)
        else match findChan s.chans h with
          | none => .error (some id, .channelNotFound)
          | some c =>
            if u ∉ c.members then .error (some id, .forbidden)
            else if !isAllowed c.publishAcl u s.cfg.domain then .error (some id, .notAllowed)
            else if p'.length > c.maxPayload then .error (some id, .policyViolation)
            else .ok (c, p')

def deliveries (s : Srv) (k : Nat) (u : Str) (chanRaw : Str) (c : Chan) (p' : Payload) : List Emit :=
  routeTo s c.targets (some k) (.message (fullNid s u) chanRaw p')

def doBroadcast (s : Srv) (k : Nat) (u : Str) (id : Nat) (chanRaw : Str) (qos : Option Nat) (p : Payload)
    (env : Env) : Srv × List Emit :=
  match broadcastCheck s u id chanRaw qos p env with
  | .error (i, r) => fail s k i r env
  | .ok (c, p') =>
    if qos = some 0 then (s, { conn := k, frame := .broadcastAck id } :: deliveries s k u chanRaw c p')
    else (s, deliveries s k u chanRaw c p' ++ [{ conn := k, frame := .broadcastAck id }])

def membersCheck (s : Srv) (u : Str) (id : Nat) (chanRaw : Str) : Except Refusal Chan :=
  match Id.parseChannelId chanRaw with
  | none => .error (none, .badRequest)
  | some (h, d) =>
    if d ≠ s.cfg.domain then .error (some id, .notImplemented)
    else match findChan s.chans h with
      | none => .error (some id, .channelNotFound)
      | some c => if u ∉ c.members then .error (some id, .userNotInChannel) else .ok c

def membersReply (s : Srv) (id : Nat) (chanRaw : Str) (c : Chan) (page size : Option Nat) : Frame :=
  .membersAck id chanRaw (paginate (sortStrs (c.members.map (fullNid s))) page size 100).1
    (paginate (sortStrs (c.members.map (fullNid s))) page size 100).2

def doMembers (s : Srv) (k : Nat) (u : Str) (id : Nat) (chanRaw : Str) (page size : Option Nat) (env : Env) :
    Srv × List Emit :=
  match membersCheck s u id chanRaw with
  | .error (i, r) => fail s k i r env
  | .ok c => reply s k (membersReply s id chanRaw c page size)

def ownedOrAll (s : Srv) (u : Str) (owner : Bool) (h : Str) : Bool :=
  if owner then (match findChan s.chans h with | some c => c.owner = some u | none => false) else true

def channelsReply (s : Srv) (u : Str) (id : Nat) (page size : Option Nat) (owner : Bool) : Frame :=
  .channelsAck id (paginate (sortStrs (((indexOf s u).filter (ownedOrAll s u owner)).map (fullChan s))) page size 50).1
    (paginate (sortStrs (((indexOf s u).filter (ownedOrAll s u owner)).map (fullChan s))) page size 50).2

def doChannels (s : Srv) (k : Nat) (u : Str) (id : Nat) (page size : Option Nat) (owner : Bool) :
    Srv × List Emit :=
  reply s k (channelsReply s u id page size owner)

def nidLt (a b : ANid) : Bool :=
  if strLt (a.user.getD []) (b.user.getD []) then true
  else if strLt (b.user.getD []) (a.user.getD []) then false else strLt a.dom b.dom

def insertNid (x : ANid) : List ANid → List ANid
  | [] => [x]
  | y :: ys => if nidLt y x then y :: insertNid x ys else x :: y :: ys

def renderANid (n : ANid) : Str :=
  match n.user with
  | none => n.dom
  | some u => u ++ ['@'] ++ n.dom

def toANid (p : Str × Str) : ANid := { user := if p.1.isEmpty then none else some p.1, dom := p.2 }

/-- owner-only access to a local channel (GET_CHAN_ACL, SET_CHAN_ACL, SET_CHAN_CONFIG) -/
def ownerCheck (s : Srv) (u : Str) (id : Nat) (h d : Str) : Except Refusal Chan :=
  if d ≠ s.cfg.domain then .error (some id, .notAllowed)
  else match findChan s.chans h with
    | none => .error (some id, .channelNotFound)
    | some c => if c.owner ≠ some u then .error (some id, .forbidden) else .ok c

def getAclCheck (s : Srv) (u : Str) (id : Nat) (chanRaw : Str) : Except Refusal Chan :=
  match Id.parseChannelId chanRaw with
  | none => .error (none, .badRequest)
  | some (h, d) => ownerCheck s u id h d

def reportedAcl (c : Chan) (ty : AclType) : List Str :=
  ((Acl.allowList (aclOf c ty)).foldr insertNid []).map renderANid

def aclReply (id : Nat) (chanRaw : Str) (c : Chan) (ty : AclType) (page size : Option Nat) : Frame :=
  .chanAcl id chanRaw ty (paginateAcl (reportedAcl c ty) page size).1 (paginateAcl (reportedAcl c ty) page size).2

def doGetAcl (s : Srv) (k : Nat) (u : Str) (id : Nat) (chanRaw : Str) (ty : AclType) (page size : Option Nat)
    (env : Env) : Srv × List Emit :=
  match getAclCheck s u id chanRaw with
  | .error (i, r) => fail s k i r env
  | .ok c => reply s k (aclReply id chanRaw c ty page size)

def setAclOf (c : Chan) (ty : AclType) (a : Acl) : Chan :=
  match ty with
  | .join => { c with joinAcl := a } | .publish => { c with publishAcl := a } | .read => { c with readAcl := a }

def toAction : AclAction → Acl.Action | .add => .add | .remove => .remove

def updatedAcl (c : Chan) (ty : AclType) (act : AclAction) (nidsRaw : List Str) : Acl :=
  Acl.update (aclOf c ty) ((nidsRaw.map Id.parseNid).filterMap (fun o => o.map toANid)) (toAction act)

/-- SET_CHAN_ACL admission: the channel to update -/
def setAclCheck (s : Srv) (u : Str) (id : Nat) (chanRaw : Str) (ty : AclType) (act : AclAction)
    (nidsRaw : List Str) : Except Refusal Chan :=
  match Id.parseChannelId chanRaw with
  | none => .error (none, .badRequest)
  | some (h, d) =>
    if (nidsRaw.map Id.parseNid).any Option.isNone then .error (none, .badRequest)
    else match ownerCheck s u id h d with
      | .error e => .error e
      | .ok c =>
        if Acl.totalEntries (updatedAcl c ty act nidsRaw) > c.maxClients then .error (some id, .policyViolation)
        else .ok c

def doSetAcl (s : Srv) (k : Nat) (u : Str) (id : Nat) (chanRaw : Str) (ty : AclType) (act : AclAction)
    (nidsRaw : List Str) (env : Env) : Srv × List Emit :=
  match setAclCheck s u id chanRaw ty act nidsRaw with
  | .error (i, r) => fail s k i r env
  | .ok c =>
    ({ s with chans := putChan s.chans (rebuild s.cfg.domain (setAclOf c ty (updatedAcl c ty act nidsRaw))) },
      [{ conn := k, frame := .setAclAck id }])

def getConfigCheck (s : Srv) (u : Str) (id : Nat) (chanRaw : Str) : Except Refusal Chan :=
  match Id.parseChannelId chanRaw with
  | none => .error (none, .badRequest)
  | some (h, _) =>
    match findChan s.chans h with
    | none => .error (some id, .channelNotFound)
    | some c => if u ∉ c.members then .error (some id, .forbidden) else .ok c

def doGetConfig (s : Srv) (k : Nat) (u : Str) (id : Nat) (chanRaw : Str) (env : Env) : Srv × List Emit :=
  match getConfigCheck s u id chanRaw with
  | .error (i, r) => fail s k i r env
  | .ok c => reply s k (.chanConfig id chanRaw c.maxClients c.maxPayload)

def setConfigCheck (s : Srv) (u : Str) (id : Nat) (chanRaw : Str) (mc mp : Nat) : Except Refusal Chan :=
  match Id.parseChannelId chanRaw with
  | none => .error (none, .badRequest)
  | some (h, d) =>
    if d ≠ s.cfg.domain then .error (some id, .notAllowed)
    else if mc > s.cfg.maxClients then .error (some id, .badRequest)
    else if mp > s.cfg.maxPayload then .error (some id, .badRequest)
    else ownerCheck s u id h d

def mergeConfig (c : Chan) (mc mp : Nat) : Chan :=
  { c with maxClients := if mc > 0 then mc else c.maxClients, maxPayload := if mp > 0 then mp else c.maxPayload }

def doSetConfig (s : Srv) (k : Nat) (u : Str) (id : Nat) (chanRaw : Str) (mc mp : Nat) (env : Env) :
    Srv × List Emit :=
  match setConfigCheck s u id chanRaw mc mp with
  | .error (i, r) => fail s k i r env
  | .ok c => ({ s with chans := putChan s.chans (mergeConfig c mc mp) }, [{ conn := k, frame := .setConfigAck id }])

def modDirectCheck (s : Srv) (id : Option Nat) (p : Payload) (env : Env) : Except Refusal Nat :=
  if p.length > s.cfg.maxPayload then .error (id, .policyViolation)
  else if !s.cfg.hasMod then .error (none, .unexpectedMessage)
  else if env.down then .error (none, .internalServerError)
  else if !s.cfg.sendPrivate then .error (none, .unexpectedMessage)
  else match id with
    | none => .error (none, .badRequest)
    | some i =>
      match env.directOk with
      | none => .error (none, .internalServerError)
      | some false => .error (some i, .badRequest)
      | some true => .ok i

def doModDirect (s : Srv) (k : Nat) (id : Option Nat) (p : Payload) (env : Env) : Srv × List Emit :=
  match modDirectCheck s id p env with
  | .error (i, r) => fail s k i r env
  | .ok i => reply s k (.modDirectAck i)

def authedStep (s : Srv) (k : Nat) (u : Str) (r : Req) (env : Env) : Srv × List Emit :=
  match r with
  | .join id c ob => doJoin s k u id c ob env
  | .leave id c ob => doLeave s k u id c ob env
  | .broadcast id c q p => doBroadcast s k u id c q p env
  | .members id c pg sz => doMembers s k u id c pg sz env
  | .channels id pg sz o => doChannels s k u id pg sz o
  | .getAcl id c t pg sz => doGetAcl s k u id c t pg sz env
  | .setAcl id c t a ns => doSetAcl s k u id c t a ns env
  | .getConfig id c => doGetConfig s k u id c env
  | .setConfig id c mc mp => doSetConfig s k u id c mc mp env
  | .modDirect id p => doModDirect s k id p env
  | _ => fail s k none .unexpectedMessage env

/-! ## handshake -/

/-- heartbeat negotiation (`dispatch_message_in_connecting_state`) -/
def clampHb (cfg : Cfg) (req : Nat) : Nat :=
  if req = 0 then cfg.keepAlive
  else if req < cfg.minKeepAlive then cfg.minKeepAlive
  else if req > cfg.keepAlive then cfg.keepAlive
  else req

def setPhase (s : Srv) (k : Nat) (p : Phase) : Srv :=
  { s with conns := s.conns.map (fun c => if c.id = k then { c with phase := p } else c) }

def register (s : Srv) (k : Nat) (u : Str) : Srv :=
  setPhase { s with router := setA s.router u (connsOf s u ++ [k]) } k (.authed u)

def connectingStep (s : Srv) (k : Nat) (r : Req) (env : Env) : Srv × List Emit :=
  match r with
  | .connect v hb =>
    if v ≠ 1 then fail s k none .unsupportedProtocolVersion env
    else if s.cfg.hasMod && env.down then fail s k none .internalServerError env     -- `protocol_name()` fails
    else
      (setPhase s k .connected,
        [{ conn := k, frame := .connectAck s.cfg.authRequired s.cfg.appProtocol (clampHb s.cfg hb)
              s.cfg.maxInflight s.cfg.maxMessage s.cfg.maxPayload s.cfg.maxSubs }])
  | _ => fail s k none .unexpectedMessage env

def connectedStep (s : Srv) (k : Nat) (r : Req) (env : Env) : Srv × List Emit :=
  match r with
  | .identify raw =>
    if s.cfg.authRequired then fail s k none .unexpectedMessage env
    else match Id.identifyUsername raw s.cfg.domain with
      | none => fail s k none .badRequest env
      | some u =>
        if !(connsOf s u).isEmpty then fail s k none .usernameInUse env
        else (register s k u, [{ conn := k, frame := .identifyAck (fullNid s u) }])
  | .auth _ =>
    if !s.cfg.authRequired then fail s k none .unexpectedMessage env
    else if env.down then fail s k none .internalServerError env
    else match env.auth with
      | .success u =>
        if u.isEmpty || !Id.validNidParts u s.cfg.domain then fail s k none .internalServerError env
        else (register s k u, [{ conn := k, frame := .authAck none (some true) (some (fullNid s u)) }])
      | .continue_ ch => reply s k (.authAck (some ch) none none)
      | .failure => reply s k (.authAck none (some false) none)
      | .failed => fail s k none .internalServerError env
  | _ => fail s k none .unexpectedMessage env

/-! ## one step -/

def step (s : Srv) (op : Op) (env : Env) : Srv × List Emit :=
  match op with
  | .open_ k =>
    if (findConn s.conns k).isSome then (s, []) else ({ s with conns := s.conns ++ [{ id := k, phase := .connecting }] }, [])
  | .close k => dropConn s k env
  | .recv k r =>
    match findConn s.conns k with
    | none => (s, [])
    | some c =>
      match r, c.phase with
      | .malformed, _ => fail s k none .badRequest env
      | _, .connecting => connectingStep s k r env
      | _, .connected => connectedStep s k r env
      | _, .authed u => authedStep s k u r env

def init (cfg : Cfg) : Srv := { cfg := cfg, chans := [], index := [], router := [], conns := [] }

/-- run a history; returns the final state and everything queued, in order -/
def run (s : Srv) : List (Op × Env) → Srv × List Emit
  | [] => (s, [])
  | (op, env) :: rest =>
    let (s1, out1) := step s op env
    let (s2, out2) := run s1 rest
    (s2, out1 ++ out2)

end Narwhal.Server
