import Narwhal.Model.Id
import Narwhal.Model.Acl
/-!
# Sequential semantics of the C2S server

Model of `server/src/c2s/conn.rs` (dispatcher), `server/src/channel/mod.rs` (channel manager),
`server/src/c2s/router.rs` (router) and `server/src/notifier/mod.rs`, *after* the `fix:` commits
listed in `/verif/known_findings.txt`.  One `step` is one client frame (or a socket close) handled to
quiescence, with the outcomes of the modulator calls it triggers and the one piece of hash-order
non-determinism (`pick_new_owner`) supplied as environment input `Env`.

State is plain association lists; hash iteration order only affects the order in which frames are
queued to *different* connections (and the order of the events of one disconnect clean-up on one
connection), which the correspondence canonicalises.
-/
namespace Narwhal.Server
open Narwhal.Acl (Acl ANid isAllowed)

abbrev Str := List Char

structure Cfg where
  domain       : Str
  maxChannels  : Nat
  maxClients   : Nat     -- max_clients_per_channel
  maxSubs      : Nat     -- max_channels_per_client
  maxPayload   : Nat
  authRequired : Bool    -- modulator offers `auth`
  hasMod       : Bool
  fwdEvent     : Bool    -- modulator offers `fwd-event`
  sendPrivate  : Bool    -- modulator offers `send-private-payload`
  -- values echoed in CONNECT_ACK
  keepAlive    : Nat
  minKeepAlive : Nat
  maxMessage   : Nat
  maxInflight  : Nat
  appProtocol  : Option Str
deriving Repr

inductive Reason
  | badRequest | channelNotFound | channelIsFull | forbidden | internalServerError
  | policyViolation | serverOverloaded | notAllowed | notImplemented | unauthorized
  | unexpectedMessage | unsupportedProtocolVersion | userInChannel | userNotInChannel
  | usernameInUse | userNotRegistered | resourceConflict | responseTooLarge
  | timeout | outboundQueueFull | serverShuttingDown
deriving DecidableEq, Repr

/-- `Error::is_recoverable` (table cross-checked by the translator, `Generated/Errors.lean`) -/
def Reason.recoverable : Reason → Bool
  | .channelIsFull | .channelNotFound | .forbidden | .notAllowed | .notImplemented
  | .userInChannel | .userNotInChannel | .usernameInUse | .userNotRegistered
  | .serverOverloaded | .resourceConflict | .responseTooLarge => true
  | _ => false

inductive AclType | join | publish | read
deriving DecidableEq, Repr

abbrev Payload := List UInt8

inductive EvKind | joined | left
deriving DecidableEq, Repr

/-- frames the server queues to a connection -/
inductive Frame
  | connectAck (authRequired : Bool) (app : Option Str) (hb maxInflight maxMsg maxPayload maxSubs : Nat)
  | identifyAck (nid : Str)
  | authAck (challenge : Option Str) (succeeded : Option Bool) (nid : Option Str)
  | joinAck (id : Nat) (chan : Str)
  | leaveAck (id : Nat)
  | broadcastAck (id : Nat)
  | message (frm chan : Str) (payload : Payload)
  | event (kind : EvKind) (chan nid : Str) (owner : Bool)
  | membersAck (id : Nat) (chan : Str) (members : List Str) (page : Option (Nat × Nat × Nat))
  | channelsAck (id : Nat) (chans : List Str) (page : Option (Nat × Nat × Nat))
  | chanAcl (id : Nat) (chan : Str) (ty : AclType) (nids : List Str) (page : Option (Nat × Nat × Nat))
  | chanConfig (id : Nat) (chan : Str) (maxClients maxPayload : Nat)
  | setAclAck (id : Nat)
  | setConfigAck (id : Nat)
  | modDirectAck (id : Nat)
  | modDirect (frm : Str) (payload : Payload)
  | error (id : Option Nat) (reason : Reason)
deriving DecidableEq, Repr

/-- one queued frame; `close = true` means the frame went through the close channel: it is the last
    thing the connection is sent and the connection then ends -/
structure Emit where
  conn  : Nat
  frame : Frame
  close : Bool := false
deriving DecidableEq, Repr

structure Chan where
  handler    : Str
  owner      : Option Str
  maxClients : Nat
  maxPayload : Nat
  joinAcl    : Acl
  publishAcl : Acl
  readAcl    : Acl
  members    : List Str
  targets    : List Str      -- `allowed_targets`: cached read-permitted members
deriving Repr

inductive Phase | connecting | connected | authed (user : Str)
deriving DecidableEq, Repr

structure Conn where
  id    : Nat
  phase : Phase
deriving Repr

structure Srv where
  cfg    : Cfg
  chans  : List Chan
  index  : List (Str × List Str)     -- `in_channels`: username ↦ channel handlers
  router : List (Str × List Nat)     -- `connections`: username ↦ connection handlers
  conns  : List Conn                 -- live connections
deriving Repr

/-- modulator verdict on a broadcast payload -/
inductive Verdict | valid | altered (p : Payload) | invalid | failed
deriving DecidableEq, Repr

inductive AuthOutcome | success (user : Str) | continue_ (challenge : Str) | failure | failed
deriving DecidableEq, Repr

/-- environment input of one step -/
structure Env where
  evOk     : Bool := true                 -- outcome of the `fwd-event` calls made during this step
  owners   : List (Str × Str) := []       -- `pick_new_owner` choices: channel handler ↦ username
  verdict  : Verdict := .valid            -- outcome of `forward_broadcast_payload`
  auth     : AuthOutcome := .failure      -- outcome of `authenticate`
  directOk : Option Bool := some true     -- `send_private_payload`: some valid? / none = call failed
deriving Repr

inductive AclAction | add | remove
deriving DecidableEq, Repr

/-- client frames (fields that are identifiers are raw strings: parsing is part of the model) -/
inductive Req
  | connect (version hb : Nat)
  | identify (username : Str)
  | auth (token : Str)
  | join (id : Nat) (chan : Str) (onBehalf : Option Str)
  | leave (id : Nat) (chan : Str) (onBehalf : Option Str)
  | broadcast (id : Nat) (chan : Str) (qos : Option Nat) (payload : Payload)
  | members (id : Nat) (chan : Str) (page size : Option Nat)
  | channels (id : Nat) (page size : Option Nat) (owner : Bool)
  | getAcl (id : Nat) (chan : Str) (ty : AclType) (page size : Option Nat)
  | setAcl (id : Nat) (chan : Str) (ty : AclType) (act : AclAction) (nids : List Str)
  | getConfig (id : Nat) (chan : Str)
  | setConfig (id : Nat) (chan : Str) (maxClients maxPayload : Nat)
  | modDirect (id : Option Nat) (payload : Payload)
  | other                                  -- any other well-formed message kind
  | malformed                              -- a line `deserialize` rejects (any phase: BAD_REQUEST, close)
deriving Repr

inductive Op
  | open_ (k : Nat)
  | recv (k : Nat) (r : Req)
  | close (k : Nat)
deriving Repr

/-! ## helpers -/

def lookupA {β} (l : List (Str × β)) (k : Str) : Option β :=
  match l with
  | [] => none
  | (k', v) :: rest => if k' = k then some v else lookupA rest k

def setA {β} (l : List (Str × β)) (k : Str) (v : β) : List (Str × β) :=
  match l with
  | [] => [(k, v)]
  | (k', v') :: rest => if k' = k then (k, v) :: rest else (k', v') :: setA rest k v

def eraseA {β} (l : List (Str × β)) (k : Str) : List (Str × β) :=
  match l with
  | [] => []
  | (k', v') :: rest => if k' = k then rest else (k', v') :: eraseA rest k

def findChan (cs : List Chan) (h : Str) : Option Chan :=
  match cs with
  | [] => none
  | c :: rest => if c.handler = h then some c else findChan rest h

def putChan (cs : List Chan) (c : Chan) : List Chan :=
  match cs with
  | [] => [c]
  | c' :: rest => if c'.handler = c.handler then c :: rest else c' :: putChan rest c

def delChan (cs : List Chan) (h : Str) : List Chan :=
  match cs with
  | [] => []
  | c' :: rest => if c'.handler = h then rest else c' :: delChan rest h

def findConn (cs : List Conn) (k : Nat) : Option Conn :=
  match cs with
  | [] => none
  | c :: rest => if c.id = k then some c else findConn rest k

def connsOf (s : Srv) (u : Str) : List Nat := (lookupA s.router u).getD []
def indexOf (s : Srv) (u : Str) : List Str := (lookupA s.index u).getD []

def fullNid (s : Srv) (u : Str) : Str := u ++ ['@'] ++ s.cfg.domain
def fullChan (s : Srv) (h : Str) : Str := ['!'] ++ h ++ ['@'] ++ s.cfg.domain

/-- `Router::route_to` over a list of local usernames, skipping one connection -/
def routeTo (s : Srv) (users : List Str) (excl : Option Nat) (f : Frame) : List Emit :=
  users.flatMap (fun u => ((connsOf s u).filter (fun k => some k ≠ excl)).map (fun k => { conn := k, frame := f }))

def aclOf (c : Chan) : AclType → Acl
  | .join => c.joinAcl | .publish => c.publishAcl | .read => c.readAcl

/-- `update_allowed_targets` -/
def rebuild (dom : Str) (c : Chan) : Chan :=
  { c with targets := c.members.filter (fun m => isAllowed c.readAcl m dom) }

def newChan (s : Srv) (h : Str) : Chan :=
  { handler := h, owner := none, maxClients := s.cfg.maxClients, maxPayload := s.cfg.maxPayload,
    joinAcl := [], publishAcl := [], readAcl := [], members := [], targets := [] }

def indexAdd (s : Srv) (u h : Str) : List (Str × List Str) :=
  let cur := indexOf s u
  setA s.index u (if h ∈ cur then cur else cur ++ [h])

def indexDel (s : Srv) (u h : Str) : List (Str × List Str) :=
  match lookupA s.index u with
  | none => s.index
  | some cur =>
    let cur' := cur.filter (· ≠ h)
    if cur'.isEmpty then eraseA s.index u else setA s.index u cur'

def errFrame (id : Option Nat) (r : Reason) : Frame := .error id r

/-- insertion sort on strings, lexicographic by code point (`Vec<StringAtom>::sort`) -/
def strLt : Str → Str → Bool
  | [], [] => false
  | [], _ :: _ => true
  | _ :: _, [] => false
  | a :: as, b :: bs => if a < b then true else if b < a then false else strLt as bs

def insertSorted (x : Str) : List Str → List Str
  | [] => [x]
  | y :: ys => if strLt y x then y :: insertSorted x ys else x :: y :: ys

def sortStrs (l : List Str) : List Str := l.foldr insertSorted []

/-- pagination of CHANNELS / MEMBERS (`page` defaults to 1, `size` to 20, capped) -/
def paginate (l : List Str) (page size : Option Nat) (cap : Nat) : List Str × Option (Nat × Nat × Nat) :=
  let pg := page.getD 1
  let sz := min (size.getD 20) cap
  let start := (pg - 1) * sz
  let stop := pg * sz
  let slice := if start < l.length then (l.take (min stop l.length)).drop start else []
  (slice, if slice.length < l.length then some (pg, sz, l.length) else none)

/-- pagination of GET_CHAN_ACL (only when both parameters are given) -/
def paginateAcl (l : List Str) (page size : Option Nat) : List Str × Option (Nat × Nat × Nat) :=
  match page, size with
  | some pg, some sz =>
    let start := (pg - 1) * sz
    let stop := min (start + sz) l.length
    ((if start < l.length then (l.take stop).drop start else []), some (pg, sz, l.length))
  | _, _ => (l, none)

/-! ## disconnect clean-up -/

/-- outcome of removing `u` from channel `h` (the common tail of LEAVE and of the clean-up):
    new channel list and the events routed.  `excl` is the requesting connection (none in clean-up).
    `hand` tells whether the owner hand-over notification could be forwarded. -/
def removeMember (s : Srv) (c : Chan) (u : Str) (env : Env) : Srv × List Emit × Bool :=
  let wasOwner := c.owner = some u
  let c1 : Chan := rebuild s.cfg.domain
    { c with members := c.members.filter (· ≠ u), owner := if wasOwner then none else c.owner }
  let s1 : Srv := { s with index := indexDel s u c.handler }
  if c1.members.isEmpty then
    ({ s1 with chans := delChan s1.chans c.handler }, [], true)
  else if wasOwner then
    -- `pick_new_owner`: any remaining member; the choice is an oracle input, validated here
    let pick := match lookupA env.owners c.handler with
      | some o => if o ∈ c1.members then o else c1.members.headD u
      | none => c1.members.headD u
    let c2 : Chan := { c1 with owner := some pick }
    let s2 : Srv := { s1 with chans := putChan s1.chans c2 }
    if s.cfg.fwdEvent && !env.evOk then (s2, [], false)
    else (s2, routeTo s2 c2.members none (.event .joined (fullChan s c.handler) (fullNid s pick) true), true)
  else ({ s1 with chans := putChan s1.chans c1 }, [], true)

/-- `leave_all_channels` for the last connection of `u` -/
def leaveAll (s : Srv) (u : Str) (env : Env) : Srv × List Emit :=
  let hs := indexOf s u
  let s0 : Srv := { s with index := eraseA s.index u }
  hs.foldl (fun (acc : Srv × List Emit) h =>
    let (st, out) := acc
    match findChan st.chans h with
    | none => (st, out)
    | some c =>
      if u ∈ c.members then
        let evs := if st.cfg.fwdEvent && !env.evOk then []
          else routeTo st c.members none (.event .left (fullChan st h) (fullNid st u) (c.owner = some u))
        let (st', evs2, _) := removeMember st c u env
        (st', out ++ evs ++ evs2)
      else (st, out)) (s0, [])

/-- the connection `k` ends (socket closed, or closed by the server after an error frame) -/
def dropConn (s : Srv) (k : Nat) (env : Env) : Srv × List Emit :=
  match findConn s.conns k with
  | none => (s, [])
  | some c =>
    let s1 : Srv := { s with conns := s.conns.filter (·.id ≠ k) }
    match c.phase with
    | .authed u =>
      let rest := (connsOf s1 u).filter (· ≠ k)
      if rest.isEmpty then leaveAll { s1 with router := eraseA s1.router u } u env
      else ({ s1 with router := setA s1.router u rest }, [])
    | _ => (s1, [])

/-- queue an error to `k`; a non-recoverable one closes the connection -/
def fail (s : Srv) (k : Nat) (id : Option Nat) (r : Reason) (env : Env) : Srv × List Emit :=
  if r.recoverable then (s, [{ conn := k, frame := errFrame id r }])
  else
    let (s', evs) := dropConn s k env
    (s', { conn := k, frame := errFrame id r, close := true } :: evs)

def reply (s : Srv) (k : Nat) (f : Frame) : Srv × List Emit := (s, [{ conn := k, frame := f }])

/-! ## authenticated requests -/

def doJoin (s : Srv) (k : Nat) (u : Str) (id : Nat) (chanRaw : Str) (obRaw : Option Str) (env : Env) :
    Srv × List Emit :=
  match Id.parseChannelId chanRaw with
  | none => fail s k none .badRequest env
  | some (h, d) =>
    let ob : Option (Option (Str × Str)) := obRaw.map Id.parseNid
    if ob = some none then fail s k none .badRequest env
    else if d ≠ s.cfg.domain then fail s k (some id) .notImplemented env
    else
      let existing := findChan s.chans h
      if existing.isNone && s.chans.length ≥ s.cfg.maxChannels then fail s k (some id) .serverOverloaded env
      else
        let c := existing.getD (newChan s h)
        let created := existing.isNone
        -- admission (a refusal leaves no trace: a just-created empty channel is dropped again)
        let admit : Except Reason Str :=
          match ob with
          | some (some (ou, od)) =>
            if c.owner ≠ some u then .error .forbidden
            else if od ≠ s.cfg.domain then .error .notImplemented
            else if (connsOf s ou).isEmpty then .error .userNotRegistered
            else .ok ou
          | _ => .ok u
        match admit with
        | .error r => fail s k (some id) r env
        | .ok m =>
          if !isAllowed c.joinAcl m s.cfg.domain then fail s k (some id) .notAllowed env
          else if m ∈ c.members then fail s k (some id) .userInChannel env
          else if c.members.length ≥ c.maxClients then fail s k (some id) .channelIsFull env
          else if (indexOf s m).length ≥ s.cfg.maxSubs then fail s k (some id) .policyViolation env
          else if s.cfg.fwdEvent && !env.evOk then
            -- the notification failed: the join is rolled back and the request fails as a whole
            fail s k none .internalServerError env
          else
            let c1 := rebuild s.cfg.domain
              { c with members := c.members ++ [m], owner := if c.owner.isNone then some m else c.owner }
            let s1 : Srv := { s with chans := putChan s.chans c1, index := indexAdd s m h }
            let evs := routeTo s1 c1.members (some k) (.event .joined (fullChan s h) (fullNid s m) created)
            (s1, evs ++ [{ conn := k, frame := .joinAck id chanRaw }])

def doLeave (s : Srv) (k : Nat) (u : Str) (id : Nat) (chanRaw : Str) (obRaw : Option Str) (env : Env) :
    Srv × List Emit :=
  match Id.parseChannelId chanRaw with
  | none => fail s k none .badRequest env
  | some (h, d) =>
    let ob : Option (Option (Str × Str)) := obRaw.map Id.parseNid
    if ob = some none then fail s k none .badRequest env
    else if d ≠ s.cfg.domain then fail s k (some id) .notImplemented env
    else match findChan s.chans h with
      | none => fail s k (some id) .channelNotFound env
      | some c =>
        let target : Except Reason (Option Str) :=
          match ob with
          | some (some (ou, od)) =>
            if c.owner ≠ some u then .error .forbidden
            else .ok (if od = s.cfg.domain then some ou else none)   -- a foreign NID is never a member
          | _ => .ok (some u)
        match target with
        | .error r => fail s k (some id) r env
        | .ok none => fail s k (some id) .userNotInChannel env
        | .ok (some m) =>
          if m ∉ c.members then fail s k (some id) .userNotInChannel env
          else if s.cfg.fwdEvent && !env.evOk then fail s k none .internalServerError env
          else
            let evs := routeTo s c.members (some k) (.event .left (fullChan s h) (fullNid s m) (c.owner = some m))
            let (s1, evs2, handOk) := removeMember s c m env
            let out := evs ++ [{ conn := k, frame := .leaveAck id }] ++ evs2
            if handOk then (s1, out)
            else
              let (s2, evs3) := fail s1 k none .internalServerError env
              (s2, out ++ evs3)

def doBroadcast (s : Srv) (k : Nat) (u : Str) (id : Nat) (chanRaw : Str) (qos : Option Nat) (p : Payload)
    (env : Env) : Srv × List Emit :=
  if qos.any (· > 1) || p.isEmpty || id = 0 then fail s k none .badRequest env      -- rejected by `deserialize`
  else if p.length > s.cfg.maxPayload then fail s k (some id) .policyViolation env
  else match Id.parseChannelId chanRaw with
  | none => fail s k none .badRequest env
  | some (h, d) =>
    -- the modulator (if any) sees the payload first
    let gate : Except Reason Payload :=
      if s.cfg.hasMod then
        match env.verdict with
        | .valid => .ok p
        | .altered p' => .ok p'
        | .invalid => .error .badRequest
        | .failed => .error .internalServerError
      else .ok p
    match gate with
    | .error r => fail s k (some id) r env
    | .ok p' =>
      if d ≠ s.cfg.domain then fail s k (some id) .notImplemented env
      else match findChan s.chans h with
        | none => fail s k (some id) .channelNotFound env
        | some c =>
          if u ∉ c.members then fail s k (some id) .forbidden env
          else if !isAllowed c.publishAcl u s.cfg.domain then fail s k (some id) .notAllowed env
          else if p'.length > c.maxPayload then fail s k (some id) .policyViolation env
          else
            let msgs := routeTo s c.targets (some k) (.message (fullNid s u) chanRaw p')
            let ack : Emit := { conn := k, frame := .broadcastAck id }
            if qos = some 0 then (s, ack :: msgs) else (s, msgs ++ [ack])

def doMembers (s : Srv) (k : Nat) (u : Str) (id : Nat) (chanRaw : Str) (page size : Option Nat) (env : Env) :
    Srv × List Emit :=
  match Id.parseChannelId chanRaw with
  | none => fail s k none .badRequest env
  | some (h, d) =>
    if d ≠ s.cfg.domain then fail s k (some id) .notImplemented env
    else match findChan s.chans h with
      | none => fail s k (some id) .channelNotFound env
      | some c =>
        if u ∉ c.members then fail s k (some id) .userNotInChannel env
        else
          let all := sortStrs (c.members.map (fullNid s))
          let (slice, pg) := paginate all page size 100
          reply s k (.membersAck id chanRaw slice pg)

def doChannels (s : Srv) (k : Nat) (u : Str) (id : Nat) (page size : Option Nat) (owner : Bool) :
    Srv × List Emit :=
  let hs := (indexOf s u).filter (fun h =>
    if owner then (match findChan s.chans h with | some c => c.owner = some u | none => false) else true)
  let all := sortStrs (hs.map (fullChan s))
  let (slice, pg) := paginate all page size 50
  reply s k (.channelsAck id slice pg)

def nidLt (a b : ANid) : Bool :=
  let ua := a.user.getD []; let ub := b.user.getD []
  if strLt ua ub then true else if strLt ub ua then false else strLt a.dom b.dom

def insertNid (x : ANid) : List ANid → List ANid
  | [] => [x]
  | y :: ys => if nidLt y x then y :: insertNid x ys else x :: y :: ys

def renderANid (n : ANid) : Str :=
  match n.user with
  | none => n.dom
  | some u => u ++ ['@'] ++ n.dom

def toANid (p : Str × Str) : ANid := { user := if p.1.isEmpty then none else some p.1, dom := p.2 }

def doGetAcl (s : Srv) (k : Nat) (u : Str) (id : Nat) (chanRaw : Str) (ty : AclType) (page size : Option Nat)
    (env : Env) : Srv × List Emit :=
  match Id.parseChannelId chanRaw with
  | none => fail s k none .badRequest env
  | some (h, d) =>
    if d ≠ s.cfg.domain then fail s k (some id) .notAllowed env
    else match findChan s.chans h with
      | none => fail s k (some id) .channelNotFound env
      | some c =>
        if c.owner ≠ some u then fail s k (some id) .forbidden env
        else
          let all := ((Acl.allowList (aclOf c ty)).foldr insertNid []).map renderANid
          let (slice, pg) := paginateAcl all page size
          reply s k (.chanAcl id chanRaw ty slice pg)

def setAclOf (c : Chan) (ty : AclType) (a : Acl) : Chan :=
  match ty with
  | .join => { c with joinAcl := a } | .publish => { c with publishAcl := a } | .read => { c with readAcl := a }

def doSetAcl (s : Srv) (k : Nat) (u : Str) (id : Nat) (chanRaw : Str) (ty : AclType) (act : AclAction)
    (nidsRaw : List Str) (env : Env) : Srv × List Emit :=
  match Id.parseChannelId chanRaw with
  | none => fail s k none .badRequest env
  | some (h, d) =>
    let parsed := nidsRaw.map Id.parseNid
    if parsed.any Option.isNone then fail s k none .badRequest env
    else if d ≠ s.cfg.domain then fail s k (some id) .notAllowed env
    else match findChan s.chans h with
      | none => fail s k (some id) .channelNotFound env
      | some c =>
        if c.owner ≠ some u then fail s k (some id) .forbidden env
        else
          let ns : List ANid := parsed.filterMap (fun o => o.map toANid)
          let a' := Acl.update (aclOf c ty) ns (match act with | .add => .add | .remove => .remove)
          if Acl.totalEntries a' > c.maxClients then fail s k (some id) .policyViolation env
          else
            let c1 := rebuild s.cfg.domain (setAclOf c ty a')
            ({ s with chans := putChan s.chans c1 }, [{ conn := k, frame := .setAclAck id }])

def doGetConfig (s : Srv) (k : Nat) (u : Str) (id : Nat) (chanRaw : Str) (env : Env) : Srv × List Emit :=
  match Id.parseChannelId chanRaw with
  | none => fail s k none .badRequest env
  | some (h, _) =>
    match findChan s.chans h with
    | none => fail s k (some id) .channelNotFound env
    | some c =>
      if u ∉ c.members then fail s k (some id) .forbidden env
      else reply s k (.chanConfig id chanRaw c.maxClients c.maxPayload)

def doSetConfig (s : Srv) (k : Nat) (u : Str) (id : Nat) (chanRaw : Str) (mc mp : Nat) (env : Env) :
    Srv × List Emit :=
  match Id.parseChannelId chanRaw with
  | none => fail s k none .badRequest env
  | some (h, d) =>
    if d ≠ s.cfg.domain then fail s k (some id) .notAllowed env
    else if mc > s.cfg.maxClients then fail s k (some id) .badRequest env
    else if mp > s.cfg.maxPayload then fail s k (some id) .badRequest env
    else match findChan s.chans h with
      | none => fail s k (some id) .channelNotFound env
      | some c =>
        if c.owner ≠ some u then fail s k (some id) .forbidden env
        else
          let c1 : Chan := { c with maxClients := if mc > 0 then mc else c.maxClients,
                                    maxPayload := if mp > 0 then mp else c.maxPayload }
          ({ s with chans := putChan s.chans c1 }, [{ conn := k, frame := .setConfigAck id }])

def doModDirect (s : Srv) (k : Nat) (id : Option Nat) (p : Payload) (env : Env) : Srv × List Emit :=
  if p.length > s.cfg.maxPayload then fail s k id .policyViolation env
  else if !s.cfg.hasMod then fail s k none .unexpectedMessage env
  else if !s.cfg.sendPrivate then fail s k none .unexpectedMessage env
  else match id with
    | none => fail s k none .badRequest env
    | some i =>
      match env.directOk with
      | none => fail s k none .internalServerError env
      | some false => fail s k (some i) .badRequest env
      | some true => reply s k (.modDirectAck i)

def authedStep (s : Srv) (k : Nat) (u : Str) (r : Req) (env : Env) : Srv × List Emit :=
  match r with
  | .join id c ob => doJoin s k u id c ob env
  | .leave id c ob => doLeave s k u id c ob env
  | .broadcast id c q p => doBroadcast s k u id c q p env
  | .members id c pg sz => doMembers s k u id c pg sz env
  | .channels id pg sz o => doChannels s k u id pg sz o
  | .getAcl id c t pg sz => doGetAcl s k u id c t pg sz env
  | .setAcl id c t a ns => doSetAcl s k u id c t a ns env
  | .getConfig id c => doGetConfig s k u id c env
  | .setConfig id c mc mp => doSetConfig s k u id c mc mp env
  | .modDirect id p => doModDirect s k id p env
  | _ => fail s k none .unexpectedMessage env

/-! ## handshake -/

/-- heartbeat negotiation (`dispatch_message_in_connecting_state`) -/
def clampHb (cfg : Cfg) (req : Nat) : Nat :=
  if req = 0 then cfg.keepAlive
  else if req < cfg.minKeepAlive then cfg.minKeepAlive
  else if req > cfg.keepAlive then cfg.keepAlive
  else req

def setPhase (s : Srv) (k : Nat) (p : Phase) : Srv :=
  { s with conns := s.conns.map (fun c => if c.id = k then { c with phase := p } else c) }

def register (s : Srv) (k : Nat) (u : Str) : Srv :=
  setPhase { s with router := setA s.router u (connsOf s u ++ [k]) } k (.authed u)

def connectingStep (s : Srv) (k : Nat) (r : Req) (env : Env) : Srv × List Emit :=
  match r with
  | .connect v hb =>
    if v ≠ 1 then fail s k none .unsupportedProtocolVersion env
    else
      (setPhase s k .connected,
        [{ conn := k, frame := .connectAck s.cfg.authRequired s.cfg.appProtocol (clampHb s.cfg hb)
              s.cfg.maxInflight s.cfg.maxMessage s.cfg.maxPayload s.cfg.maxSubs }])
  | _ => fail s k none .unexpectedMessage env

def connectedStep (s : Srv) (k : Nat) (r : Req) (env : Env) : Srv × List Emit :=
  match r with
  | .identify raw =>
    if s.cfg.authRequired then fail s k none .unexpectedMessage env
    else match Id.identifyUsername raw s.cfg.domain with
      | none => fail s k none .badRequest env
      | some u =>
        if !(connsOf s u).isEmpty then fail s k none .usernameInUse env
        else (register s k u, [{ conn := k, frame := .identifyAck (fullNid s u) }])
  | .auth _ =>
    if !s.cfg.authRequired then fail s k none .unexpectedMessage env
    else match env.auth with
      | .success u =>
        if u.isEmpty || !Id.validNidParts u s.cfg.domain then fail s k none .internalServerError env
        else (register s k u, [{ conn := k, frame := .authAck none (some true) (some (fullNid s u)) }])
      | .continue_ ch => reply s k (.authAck (some ch) none none)
      | .failure => reply s k (.authAck none (some false) none)
      | .failed => fail s k none .internalServerError env
  | _ => fail s k none .unexpectedMessage env

/-! ## one step -/

def step (s : Srv) (op : Op) (env : Env) : Srv × List Emit :=
  match op with
  | .open_ k =>
    if (findConn s.conns k).isSome then (s, []) else ({ s with conns := s.conns ++ [{ id := k, phase := .connecting }] }, [])
  | .close k => dropConn s k env
  | .recv k r =>
    match findConn s.conns k with
    | none => (s, [])
    | some c =>
      match r, c.phase with
      | .malformed, _ => fail s k none .badRequest env
      | _, .connecting => connectingStep s k r env
      | _, .connected => connectedStep s k r env
      | _, .authed u => authedStep s k u r env

def init (cfg : Cfg) : Srv := { cfg := cfg, chans := [], index := [], router := [], conns := [] }

/-- run a history; returns the final state and everything queued, in order -/
def run (s : Srv) : List (Op × Env) → Srv × List Emit
  | [] => (s, [])
  | (op, env) :: rest =>
    let (s1, out1) := step s op env
    let (s2, out2) := run s1 rest
    (s2, out1 ++ out2)

end Narwhal.Server
