/-!
# The S2M client's reply → verdict mapping

Model of `modulator/src/client.rs: <S2mClient as Modulator>::{authenticate, forward_broadcast_payload, forward_event}`
on top of the generic request engine (`common/src/client.rs`, whose by-id completion is C16): what the server
concludes from whatever comes back for one request.
-/
namespace Narwhal.S2m

abbrev Str := List Char
abbrev Payload := List UInt8

/-- the payload that follows a reply frame announcing one -/
inductive Attach
  | none                       -- no payload announced
  | intact (p : Payload)       -- announced length, those bytes, terminator
  | broken                     -- announced but truncated / wrong terminator / link lost / stalled past the read timeout
deriving DecidableEq, Repr

/-- what arrives for a request (the engine completes a request only with a frame carrying its id) -/
inductive Reply
  | authAck (succeeded : Bool) (username : Option Str) (challenge : Option Str)
  | payloadAck (valid : Bool) (att : Attach)
  | eventAck
  | error                      -- an ERROR frame with the request's id
  | otherKind                  -- some other frame kind with the request's id
  | nothing                    -- silence, a frame with another id, or a lost link: the request times out / fails
deriving DecidableEq, Repr

inductive AuthRes | success (u : Str) | continue_ (c : Str) | failure | err
deriving DecidableEq, Repr

inductive PayloadRes | valid | altered (p : Payload) | invalid | err
deriving DecidableEq, Repr

def mapAuth : Reply → AuthRes
  | .authAck true (some u) _ => .success u
  | .authAck true none _ => .err
  | .authAck false _ (some c) => .continue_ c
  | .authAck false _ none => .failure
  | _ => .err

def mapPayload : Reply → PayloadRes
  | .payloadAck _ .broken => .err                 -- the engine fails the request when the payload cannot be read
  | .payloadAck true (.intact p) => .altered p
  | .payloadAck true .none => .valid
  | .payloadAck false _ => .invalid
  | _ => .err

def mapEvent : Reply → Bool
  | .eventAck => true
  | _ => false

end Narwhal.S2m
