/-!
# Direct (private) payloads

`server/src/c2s/mod.rs: route_m2s_private_payload` (modulator → clients), `modulator/src/conn.rs:
M2sDispatcher::dispatch_mod_direct_message` (publish + acknowledge) and
`server/src/c2s/conn.rs: dispatch_mod_direct_message` (client → modulator).

The router state (which live connections are registered under which username) is an input; the model is the
routing / gating logic.
-/
namespace Narwhal.Direct

abbrev Str := List Char
abbrev Payload := List UInt8

/-- `connections`: username ↦ live connection handlers -/
abbrev Router := List (Str × List Nat)

def connsOf (rt : Router) (u : Str) : List Nat :=
  match rt with
  | [] => []
  | (u', ks) :: rest => if u' = u then ks else connsOf rest u

/-- the `delivered` list of the routing loop: first occurrences, in order -/
def dedup : List Str → List Str → List Str
  | [], _ => []
  | t :: ts, seen => if seen.contains t then dedup ts seen else t :: dedup ts (t :: seen)

structure Delivery where
  conn    : Nat
  frm     : Str          -- `from` of the MOD_DIRECT frame
  payload : Payload
deriving DecidableEq, Repr

/-- one `OutboundPrivatePayload` through the routing task -/
def routeDirect (rt : Router) (domain : Str) (targets : List Str) (p : Payload) : List Delivery :=
  (dedup targets []).flatMap (fun u => (connsOf rt u).map (fun k => { conn := k, frm := domain, payload := p }))

/-- what the M2S dispatcher does with `M2S_MOD_DIRECT id targets payload`: publish, then acknowledge with the id -/
def m2sDirect (rt : Router) (domain : Str) (id : Nat) (targets : List Str) (p : Payload) : List Delivery × Nat :=
  (routeDirect rt domain targets p, id)

/-! ## client → modulator -/

structure Cfg where
  hasMod      : Bool
  sendPrivate : Bool
  maxPayload  : Nat
deriving Repr

inductive Outcome | valid | invalid | failed
deriving DecidableEq, Repr

inductive Reply
  | ack (id : Nat)
  | error (id : Option Nat) (reason : String) (closes : Bool)
deriving DecidableEq, Repr

/-- `(reply to the client, what the modulator was asked: (from, payload))` -/
def c2sDirect (cfg : Cfg) (user : Str) (id : Option Nat) (p : Payload) (o : Outcome) : Reply × Option (Str × Payload) :=
  if p.length > cfg.maxPayload then (.error id "POLICY_VIOLATION" true, none)
  else if !cfg.hasMod || !cfg.sendPrivate then (.error none "UNEXPECTED_MESSAGE" true, none)
  else match id with
    | none => (.error none "BAD_REQUEST" true, none)
    | some i =>
      match o with
      | .valid => (.ack i, some (user, p))
      | .invalid => (.error (some i) "BAD_REQUEST" true, some (user, p))
      | .failed => (.error none "INTERNAL_SERVER_ERROR" true, some (user, p))

end Narwhal.Direct
