/-!
# The outbound request engine (common/src/client.rs: `ClientConn::{send_message, perform_request, reader_task}`)

One connection with a negotiated window `max` (semaphore), a pending table keyed by correlation id, a
reader that hands each inbound frame carrying an id to the pending request with that id (PING is answered
with PONG and never completes a request), and a per-request timeout that drops the request future — whose
drop guard removes the table entry and thereby returns the permit (after the D17 fix).

A request goes `waiting` (no permit yet) → `inflight` (permit held, entry registered, frame written) →
`answered r` (the reader took its sender and delivered `r`; entry and permit still held until the request
task runs) → `completed r`; or → `timedOut` from `waiting` / `inflight`.
Correlation ids of simultaneously live requests are distinct (the id counter only wraps after 2^32 - 1 ids).
-/
namespace Narwhal.Client

inductive RState
  | waiting
  | inflight
  | answered (reply : Nat)
  | completed (reply : Nat)
  | timedOut
deriving Repr, DecidableEq

structure St where
  max     : Nat
  permits : Nat
  reqs    : List (Nat × RState)      -- correlation id ↦ state (one entry per request ever submitted with a live id)
  written : List Nat                 -- ids put on the wire, in order
  pongs   : List Nat                 -- PONG ids sent
deriving Repr, DecidableEq

inductive Step
  | submit (id : Nat)
  | grant (id : Nat)          -- the semaphore hands the waiting request its permit; it registers and writes
  | reply (id : Nat) (r : Nat) -- a frame carrying `id` (and content `r`) arrives from the peer
  | finish (id : Nat)         -- the answered request's task runs: result returned, guard dropped
  | timeout (id : Nat)
  | ping (id : Nat)           -- a PING from the peer
deriving Repr, DecidableEq

def init (max : Nat) : St := { max := max, permits := max, reqs := [], written := [], pongs := [] }

def get (l : List (Nat × RState)) (id : Nat) : Option RState :=
  match l with
  | [] => none
  | (i, s) :: rest => if i = id then some s else get rest id

def set (l : List (Nat × RState)) (id : Nat) (s : RState) : List (Nat × RState) :=
  match l with
  | [] => [(id, s)]
  | (i, s') :: rest => if i = id then (id, s) :: rest else (i, s') :: set rest id s

def RState.live : RState → Bool
  | .waiting | .inflight | .answered _ => true
  | _ => false

def RState.holdsPermit : RState → Bool
  | .inflight | .answered _ => true
  | _ => false

/-- steps that are not enabled leave the state unchanged -/
def step (s : St) : Step → St
  | .submit id =>
    match get s.reqs id with
    | some st => if st.live then s else { s with reqs := set s.reqs id .waiting }
    | none => { s with reqs := set s.reqs id .waiting }
  | .grant id =>
    if get s.reqs id = some .waiting ∧ s.permits > 0 then
      { s with permits := s.permits - 1, reqs := set s.reqs id .inflight, written := s.written ++ [id] }
    else s
  | .reply id r => if get s.reqs id = some .inflight then { s with reqs := set s.reqs id (.answered r) } else s
  | .finish id =>
    match get s.reqs id with
    | some (.answered r) => { s with reqs := set s.reqs id (.completed r), permits := s.permits + 1 }
    | _ => s
  | .timeout id =>
    match get s.reqs id with
    | some .waiting => { s with reqs := set s.reqs id .timedOut }
    | some .inflight => { s with reqs := set s.reqs id .timedOut, permits := s.permits + 1 }
    | _ => s
  | .ping id => { s with pongs := s.pongs ++ [id] }

def run (s : St) (l : List Step) : St := l.foldl step s

def holders (l : List (Nat × RState)) : Nat := (l.filter (fun p => p.2.holdsPermit)).length

end Narwhal.Client
