import Narwhal.Generated.Unicode
/-!
# Identifiers: usernames, NIDs, channel ids, domains

Model of `crates/protocol/src/id.rs` (`Nid::{new,from_str,validate}`, `ChannelId::from_str`,
`validate_domain`) over `List Char` (= Rust `str::chars`). Byte lengths are UTF-8 lengths.

Modelled, not verified: the domain regex is transcribed by hand as a matcher that is exact for ASCII
input; Rust's `\d` also accepts non-ASCII decimal digits, which the correspondence generators never
produce (stated in DESIGN.md §6).
-/
namespace Narwhal.Id
open Narwhal.Generated

def inRanges (rs : List (Nat × Nat)) (n : Nat) : Bool := rs.any (fun r => r.1 ≤ n && n ≤ r.2)

/-- `char::is_alphanumeric` (table regenerated from the toolchain). -/
def isAlnum (c : Char) : Bool := inRanges alnumRanges c.toNat
/-- `char::is_whitespace`. -/
def isWhitespace (c : Char) : Bool := whitespaceCodes.contains c.toNat

def utf8Len (cs : List Char) : Nat := (cs.map (fun c => c.utf8Size)).sum

def isAsciiDigit (c : Char) : Bool := '0' ≤ c && c ≤ '9'
def isAsciiAlpha (c : Char) : Bool := ('a' ≤ c && c ≤ 'z') || ('A' ≤ c && c ≤ 'Z')
def isHexOrColon (c : Char) : Bool := isAsciiDigit c || ('a' ≤ c && c ≤ 'f') || ('A' ≤ c && c ≤ 'F') || c == ':'
def isLabelChar (c : Char) : Bool := isAsciiDigit c || isAsciiAlpha c || c == '-'

/-- split on a separator character (like `str::split`) -/
def splitOn (sep : Char) : List Char → List (List Char)
  | [] => [[]]
  | c :: cs =>
    let r := splitOn sep cs
    if c == sep then [] :: r
    else match r with
      | [] => [[c]]
      | x :: xs => (c :: x) :: xs

def validPort (p : List Char) : Bool := 1 ≤ p.length && p.length ≤ 5 && p.all isAsciiDigit

/-- `(?::\d{1,5})?$` applied to what follows the host part -/
def validPortSuffix : List Char → Bool
  | [] => true
  | ':' :: p => validPort p
  | _ => false

def validHostname (h : List Char) : Bool :=
  match (splitOn '.' h).reverse with
  | tld :: l :: ls =>
    (2 ≤ tld.length && tld.length ≤ 63 && tld.all isAsciiAlpha) &&
    (l :: ls).all (fun x => 1 ≤ x.length && x.length ≤ 63 && x.all isLabelChar)
  | _ => false

def validIpv4 (h : List Char) : Bool :=
  match splitOn '.' h with
  | [a, b, c, d] => [a, b, c, d].all (fun x => 1 ≤ x.length && x.length ≤ 3 && x.all isAsciiDigit)
  | _ => false

def validDomainRegex (d : List Char) : Bool :=
  match d with
  | '[' :: rest =>
    let inner := rest.takeWhile (· != ']')
    let after := rest.dropWhile (· != ']')
    match after with
    | ']' :: p => 1 ≤ inner.length && inner.all isHexOrColon && validPortSuffix p
    | _ => false
  | _ =>
    let host := d.takeWhile (· != ':')
    let p := d.dropWhile (· != ':')
    (validHostname host || validIpv4 host) && validPortSuffix p

def validDomain (d : List Char) : Bool :=
  !d.isEmpty && utf8Len d ≤ 253 && (d == "localhost".toList || validDomainRegex d)

def isUsernameChar (c : Char) : Bool := isAlnum c || c == '-' || c == '.' || c == '_'

/-- `Nid::validate` -/
def validNidParts (user dom : List Char) : Bool :=
  utf8Len user ≤ 256 && user.all isUsernameChar && validDomain dom

/-- `Nid::from_str`: `(username, domain)`; username `[]` is a server (bare-domain) NID. -/
def parseNid (s : List Char) : Option (List Char × List Char) :=
  if s.contains '@' then
    let u := s.takeWhile (· != '@')
    let d := (s.dropWhile (· != '@')).drop 1
    if u.isEmpty then none
    else if validNidParts u d then some (u, d) else none
  else if validNidParts [] s then some ([], s) else none

/-- `ChannelId::from_str`: `(handler, domain)`. -/
def parseChannelId (s : List Char) : Option (List Char × List Char) :=
  match s with
  | '!' :: rest =>
    if rest.contains '@' then
      let h := rest.takeWhile (· != '@')
      let d := (rest.dropWhile (· != '@')).drop 1
      if !h.isEmpty && utf8Len h ≤ 256 && h.all isAlnum && validDomain d then some (h, d) else none
    else none
  | _ => none

/-- `str::trim` -/
def trim (s : List Char) : List Char :=
  ((s.dropWhile isWhitespace).reverse.dropWhile isWhitespace).reverse

/-- what IDENTIFY does with the client-supplied username (after the D6 fix): trim, refuse empty,
    `Nid::new(username, serverDomain)`. Returns the assigned username. -/
def identifyUsername (raw dom : List Char) : Option (List Char) :=
  let u := trim raw
  if u.isEmpty then none else if validNidParts u dom then some u else none

end Narwhal.Id
