/-!
# Per-domain allow lists (`Acl` in `crates/server/src/channel/mod.rs`)

`allow_lists : HashMap<domain, HashSet<username>>` is modelled as an association list
`List (Dom × List User)`; hash iteration order is irrelevant because `allow_list()` sorts and
`total_entries()` sums.  A NID is `(user, domain)`; `user = ""`-like emptiness is the bare-domain
(server) NID, represented by `none`.
-/
namespace Narwhal.Acl

abbrev Str := List Char

/-- a NID as the ACL sees it: `user = none` is a bare domain -/
structure ANid where
  user : Option Str
  dom  : Str
deriving DecidableEq, Repr

abbrev Acl := List (Str × List Str)

def lookup (a : Acl) (d : Str) : Option (List Str) :=
  match a with
  | [] => none
  | (d', us) :: rest => if d' = d then some us else lookup rest d

def setDom (a : Acl) (d : Str) (us : List Str) : Acl :=
  match a with
  | [] => [(d, us)]
  | (d', us') :: rest => if d' = d then (d, us) :: rest else (d', us') :: setDom rest d us

def eraseDom (a : Acl) (d : Str) : Acl :=
  match a with
  | [] => []
  | (d', us') :: rest => if d' = d then rest else (d', us') :: eraseDom rest d

/-- `Acl::update` with `AclAction::Add`, one NID -/
def addOne (a : Acl) (n : ANid) : Acl :=
  let cur := (lookup a n.dom).getD []
  match n.user with
  | none   => setDom a n.dom cur                                   -- `entry(domain).or_default()`
  | some u => setDom a n.dom (if u ∈ cur then cur else cur ++ [u])  -- `.insert(username)`

/-- store a domain's user set, dropping the domain entry when the set is empty
    (`if domain_users.is_empty() { allow_lists.remove(&domain) }`) -/
def putOrErase (a : Acl) (d : Str) (us : List Str) : Acl :=
  if us.isEmpty then eraseDom a d else setDom a d us

/-- `Acl::update` with `AclAction::Remove`, one NID -/
def removeOne (a : Acl) (n : ANid) : Acl :=
  match lookup a n.dom with
  | none => a
  | some cur =>
    match n.user with
    | none => putOrErase a n.dom cur            -- `remove("")`: usernames are never empty, nothing to remove
    | some u => putOrErase a n.dom (cur.filter (· ≠ u))

inductive Action | add | remove
deriving DecidableEq, Repr

def update (a : Acl) (ns : List ANid) : Action → Acl
  | .add => ns.foldl addOne a
  | .remove => ns.foldl removeOne a

/-- `Acl::is_allowed` for a client NID `u@d` -/
def isAllowed (a : Acl) (u d : Str) : Bool :=
  if a.isEmpty then true
  else match lookup a d with
    | some us => if us.isEmpty then true else us.contains u
    | none => false

/-- `Acl::allow_list` before sorting: every listed user NID, or the bare domain for an empty set -/
def allowList (a : Acl) : List ANid :=
  a.flatMap (fun (d, us) => if us.isEmpty then [⟨none, d⟩] else us.map (fun u => ⟨some u, d⟩))

/-- `Acl::total_entries` (after the D22 fix: a bare domain counts as one entry) -/
def totalEntries (a : Acl) : Nat :=
  (a.map (fun (_, us) => max us.length 1)).sum

/-- keys are pairwise distinct -/
def WF (a : Acl) : Prop := (a.map (·.1)).Nodup

end Narwhal.Acl
