import Narwhal.Model.Micro
/-!
# Readers of a channel interleaved with the membership operations (server/src/channel/mod.rs: `broadcast_payload`,
`list_members`)

`Micro.lean` interleaves the *writers* of a channel (JOIN, LEAVE, clean-up).  A BROADCAST and a MEMBERS request are *readers*:
they look the channel object up in the map, wait for its lock in read mode (`channel.0.read().await` — granted only while no
writer holds it), check that the requester is a member, copy what they need (`allowed_targets`, `members`) and drop the lock;
the broadcast is then routed to the copied targets.  A reader never changes the membership state, so the model is a product:
the writers' state `base` steps by `Micro.step`, the readers by `runReader`, in any interleaving.

What this adds to the sequential model: which member list a reader can observe *while* writers are suspended mid-operation —
never a tentative member (a JOIN whose notification is still pending holds the write lock), never a list that no moment of
the request's processing had, and, for a reader that waited on an object which was removed from the map meanwhile, nothing at
all (a removed object is empty — `C05_removed_channel_is_empty` — so the membership check refuses it).
-/
namespace Narwhal.MicroB
open Narwhal.Micro

inductive RPc
  | start
  | wait (o : Nat)          -- waiting for the read lock of object `o`
  | done
deriving Repr, DecidableEq

inductive Res
  | notFound                 -- CHANNEL_NOT_FOUND
  | notMember                -- FORBIDDEN (BROADCAST) / USER_NOT_IN_CHANNEL (MEMBERS)
  | ok (snapshot : List User)  -- the members copied under the read lock
deriving Repr, DecidableEq

structure Reader where
  u   : User                 -- the requester
  n   : Name
  pc  : RPc
  res : Option Res
deriving Repr

structure St where
  base    : Micro.St
  readers : Nat → Reader

inductive Label
  | base (l : Micro.Label)
  | rspawn (r : Nat) (u : User) (n : Name)      -- a BROADCAST / MEMBERS request is created
  | rrun (r : Nat)                                -- reader `r` runs its next segment

def idleReader : Reader := { u := 0, n := 0, pc := .done, res := none }

def init (strict : Bool) : St := { base := Micro.init strict, readers := fun _ => idleReader }

/-- with the read lock of `o` granted: membership check, copy, unlock -/
def snapshot (b : Micro.St) (rd : Reader) (o : Nat) : Reader :=
  if rd.u ∈ (b.objs o).members then { rd with pc := .done, res := some (.ok (b.objs o).members) }
  else { rd with pc := .done, res := some .notMember }

def runReader (b : Micro.St) (rd : Reader) : Reader :=
  match rd.pc with
  | .done => rd
  | .start =>
    match b.map rd.n with
    | none => { rd with pc := .done, res := some .notFound }
    | some o => if (b.objs o).holder = none then snapshot b rd o else { rd with pc := .wait o }
  | .wait o => if (b.objs o).holder = none then snapshot b rd o else rd

def step (s : St) (l : Label) : St :=
  match l with
  | .base bl => { s with base := Micro.step s.base bl }
  | .rspawn r u n =>
    if (s.readers r).pc = .done then
      { s with readers := fun i => if i = r then { u := u, n := n, pc := .start, res := none } else s.readers i }
    else s
  | .rrun r => { s with readers := fun i => if i = r then runReader s.base (s.readers r) else s.readers i }

def run (s : St) (ls : List Label) : St := ls.foldl step s

/-- the members of channel `n` as the map has them now (`[]` when there is no such channel) -/
def membersOf (b : Micro.St) (n : Name) : List User :=
  match b.map n with
  | some o => (b.objs o).members
  | none => []

/-- a JOIN on channel `n` has written its member and not yet heard from the modulator -/
def Tentative (b : Micro.St) (n : Name) : Prop := ∃ t o, b.map n = some o ∧ (b.tasks t).pc = .jNotify o

end Narwhal.MicroB
