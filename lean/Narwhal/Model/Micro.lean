/-!
# Micro-step semantics of the membership operations (server/src/channel/mod.rs: `join_channel`, `leave_channel`,
`leave_all_channels`; server/src/c2s/conn.rs: `shutdown`)

The sequential model (`Server.lean`) handles one request to quiescence.  Here the same operations are cut at their suspension
points — waiting for a channel's write lock, and the modulator call inside `notify_member_joined` / `notify_member_left` —
and any number of them interleave: a step runs one task from its current suspension point to its next one.  The environment
chooses the outcome of every modulator call (`ok`, `fail`), may drop a request task at a suspension point (`cancel`: the
connection closed or `request_timeout` fired; its lock is released, nothing else runs), and chooses whether an admission check
passes (`accept`: ACLs and limits are abstracted).

Channel *objects* have an identity (the `Arc`): `map` takes a handler to the current object, and an object that was removed
from the map can still be locked by a task that looked it up earlier.  `strict` is the post-lock re-check of `join_channel`:
`true` compares the map's entry with the locked object by identity (repair a26f788), `false` is the earlier check that only
asked whether *some* channel of that name exists (disproved by `old_recheck_breaks_views`).

Granularity assumption: a segment between two suspension points is atomic.  On one worker thread that is literally so; with
several workers, segments on the same channel are serialised by its write lock and the per-user index entry is updated by single
DashMap operations, but the check-then-act pairs across two maps (DESIGN D23, D27) are not covered.
-/
namespace Narwhal.Micro

abbrev User := Nat
abbrev Name := Nat

structure Obj where
  name    : Name            -- ghost: the handler this object was created for
  members : List User
  holder  : Option Nat      -- the task holding the object's write lock
deriving Repr

inductive Pc
  | start
  | jWait (o : Nat)         -- JOIN waiting for the lock of object `o`
  | jNotify (o : Nat)       -- JOIN suspended in `notify_member_joined`, lock held; member and index entry are written
  | lWait (o : Nat)         -- LEAVE waiting for the lock
  | lNotify (o : Nat)       -- LEAVE suspended in `notify_member_left`, lock held; nothing changed yet
  | lHandover (o : Nat)     -- LEAVE suspended in the hand-over notification, lock held; the removal is done
  | done
deriving Repr, DecidableEq

inductive Kind
  | join
  | leave (hasTx : Bool)    -- `hasTx = false`: issued by `leave_all_channels` (cannot fail, cannot be cancelled)
deriving Repr, DecidableEq

structure Task where
  kind : Kind
  m    : User               -- the user joined / removed
  n    : Name
  pc   : Pc
deriving Repr

/-- the environment's choices for one segment -/
structure Env where
  accept : Bool := true     -- the admission checks of JOIN pass (ACL, limits, on_behalf rules)
  ok     : Bool := true     -- the modulator acknowledged the notification
  cancel : Bool := false    -- the request task is dropped at this suspension point
  owner  : Bool := false    -- the member removed was the owner (a hand-over follows)
deriving Repr

structure St where
  strict : Bool
  next   : Nat                          -- objects `≥ next` do not exist yet
  objs   : Nat → Obj
  map    : Name → Option Nat            -- `channels`
  index  : User → List Name             -- `in_channels`
  tasks  : Nat → Task
  rests  : List (User × List Name)      -- running `leave_all_channels`: user, channels not yet handed to a LEAVE

inductive Label
  | spawn (t : Nat) (k : Kind) (m : User) (n : Name)     -- a request task is created (JOIN / LEAVE, own or on_behalf)
  | run (t : Nat) (e : Env)                              -- task `t` runs its next segment
  | cleanup (u : User)                                   -- the last connection of `u` ended: `leave_all_channels` starts
  | cleanupNext (i : Nat) (n : Name) (t : Nat)           -- clean-up `i` hands channel `n` to a LEAVE run as task `t`

def idle : Task := { kind := .join, m := 0, n := 0, pc := .done }

def init (strict : Bool) : St :=
  { strict := strict, next := 0, objs := fun _ => { name := 0, members := [], holder := none },
    map := fun _ => none, index := fun _ => [], tasks := fun _ => idle, rests := [] }

def setPc (s : St) (t : Nat) (pc : Pc) : St :=
  { s with tasks := fun i => if i = t then { s.tasks t with pc := pc } else s.tasks i }

def setObj (s : St) (o : Nat) (v : Obj) : St :=
  { s with objs := fun i => if i = o then v else s.objs i }

def setMap (s : St) (n : Name) (v : Option Nat) : St :=
  { s with map := fun i => if i = n then v else s.map i }

def setIndex (s : St) (u : User) (l : List Name) : St :=
  { s with index := fun i => if i = u then l else s.index i }

def addIdx (l : List Name) (n : Name) : List Name := if n ∈ l then l else n :: l
def delIdx (l : List Name) (n : Name) : List Name := l.filter (· ≠ n)

/-- JOIN, with the lock of `o` free: the segment from the lock acquisition to the modulator call (or to a refusal) -/
def lockedJoin (s : St) (t : Nat) (o : Nat) (e : Env) : St :=
  let tk := s.tasks t
  if (if s.strict then s.map tk.n ≠ some o else s.map tk.n = none) then
    setPc s t .done                                                   -- RESOURCE_CONFLICT
  else if !e.accept || tk.m ∈ (s.objs o).members then
    -- refused: a refused JOIN removes the channel if it is (still) empty
    setPc (if (s.objs o).members = [] then setMap s tk.n none else s) t .done
  else
    setPc (setIndex (setObj s o { s.objs o with members := tk.m :: (s.objs o).members, holder := some t })
      tk.m (addIdx (s.index tk.m) tk.n)) t (.jNotify o)

/-- LEAVE, with the lock of `o` free: up to the modulator call -/
def lockedLeave (s : St) (t : Nat) (o : Nat) : St :=
  let tk := s.tasks t
  if s.map tk.n = none then setPc s t .done                          -- CHANNEL_NOT_FOUND
  else if tk.m ∉ (s.objs o).members then setPc s t .done              -- USER_NOT_IN_CHANNEL
  else setPc (setObj s o { s.objs o with holder := some t }) t (.lNotify o)

def hasTx : Kind → Bool
  | .leave b => b
  | .join => true

def runTask (s : St) (t : Nat) (e : Env) : St :=
  let tk := s.tasks t
  match tk.pc with
  | .done => s
  | .start =>
    match tk.kind with
    | .join =>
      match s.map tk.n with
      | some o => if (s.objs o).holder = none then lockedJoin s t o e else setPc s t (.jWait o)
      | none =>
        -- `entry().or_insert_with`: a new, empty, unlocked object
        let s1 := setMap (setObj { s with next := s.next + 1 } s.next { name := tk.n, members := [], holder := none }) tk.n (some s.next)
        lockedJoin s1 t s.next e
    | .leave _ =>
      match s.map tk.n with
      | none => setPc s t .done
      | some o => if (s.objs o).holder = none then lockedLeave s t o else setPc s t (.lWait o)
  | .jWait o =>
    if e.cancel then setPc s t .done
    else if (s.objs o).holder = none then lockedJoin s t o e else s
  | .lWait o =>
    if e.cancel && hasTx tk.kind then setPc s t .done
    else if (s.objs o).holder = none then lockedLeave s t o else s
  | .jNotify o =>
    if e.cancel then setPc (setObj s o { s.objs o with holder := none }) t .done
    else if e.ok then setPc (setObj s o { s.objs o with holder := none }) t .done                  -- JOIN_ACK
    else
      -- roll-back: member and index entry removed, an empty channel removed from the map
      let ms := (s.objs o).members.filter (· ≠ tk.m)
      let s1 := setIndex (setObj s o { s.objs o with members := ms, holder := none }) tk.m (delIdx (s.index tk.m) tk.n)
      setPc (if ms = [] then setMap s1 tk.n none else s1) t .done
  | .lNotify o =>
    if e.cancel && hasTx tk.kind then setPc (setObj s o { s.objs o with holder := none }) t .done
    else if !e.ok && hasTx tk.kind then setPc (setObj s o { s.objs o with holder := none }) t .done   -- the LEAVE fails as a whole
    else
      let ms := (s.objs o).members.filter (· ≠ tk.m)
      let s1 := setIndex (setObj s o { s.objs o with members := ms }) tk.m (delIdx (s.index tk.m) tk.n)
      if ms = [] then setPc (setMap (setObj s1 o { s1.objs o with holder := none }) tk.n none) t .done
      else if e.owner then setPc s1 t (.lHandover o)
      else setPc (setObj s1 o { s1.objs o with holder := none }) t .done
  | .lHandover o => setPc (setObj s o { s.objs o with holder := none }) t .done

def step (s : St) (l : Label) : St :=
  match l with
  | .spawn t k m n =>
    if (s.tasks t).pc = .done then
      { s with tasks := fun i => if i = t then { kind := k, m := m, n := n, pc := .start } else s.tasks i }
    else s
  | .run t e => runTask s t e
  | .cleanup u => { setIndex s u [] with rests := (u, s.index u) :: s.rests }
  | .cleanupNext i n t =>
    match s.rests[i]? with
    | none => s
    | some (u, r) =>
      if n ∈ r ∧ (s.tasks t).pc = .done then
        { s with rests := s.rests.set i (u, r.filter (· ≠ n)),
                 tasks := fun j => if j = t then { kind := .leave false, m := u, n := n, pc := .start } else s.tasks j }
      else s

def run (s : St) (ls : List Label) : St := ls.foldl step s

/-- no request or clean-up is in progress -/
def Quiescent (s : St) : Prop := (∀ t, (s.tasks t).pc = .done) ∧ (∀ p ∈ s.rests, p.2 = [])

/-- the two listings agree: `n` is in `u`'s CHANNELS listing iff `u` is in the MEMBERS listing of `n` -/
def ViewsAgree (s : St) : Prop :=
  ∀ u n, n ∈ s.index u ↔ ∃ o, s.map n = some o ∧ u ∈ (s.objs o).members

end Narwhal.Micro
