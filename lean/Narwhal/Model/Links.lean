import Narwhal.Generated.Dispatch
/-!
# The S2M / M2S link handshake (modulator/src/conn.rs: `{M2s,S2m}Dispatcher::dispatch_message*`)

A link is `Connecting` until a CONNECT of its own kind with protocol version 1 and — when a shared secret is configured —
exactly that secret arrives; it is then `Authenticated` for good.  Which kinds each state accepts is read from the
regenerated dispatch tables; every other kind is answered with UNEXPECTED_MESSAGE.  All three refusal reasons are
non-recoverable: the connection is closed.
-/
namespace Narwhal.Links
open Narwhal.Generated

inductive Link | s2m | m2s
deriving Repr, DecidableEq

structure Cfg where
  link   : Link
  secret : Option String      -- `none`: no shared secret configured (empty string in the configuration)
deriving Repr, DecidableEq

structure Msg where
  kind    : String            -- the `Message` variant
  version : Nat
  secret  : Option String
deriving Repr, DecidableEq

inductive Out
  | ack
  | refused (reason : String)  -- ERROR + close
  | handled                    -- passed on to the operational handler of its kind
deriving Repr, DecidableEq

def connectingTable : Link → List String
  | .s2m => s2mConnecting
  | .m2s => m2sConnecting

def authedTable : Link → List String
  | .s2m => s2mAuthed
  | .m2s => m2sAuthed

/-- `(authenticated afterwards, what the peer sees)` -/
def step (cfg : Cfg) (authed : Bool) (m : Msg) : Bool × Out :=
  if !authed then
    if m.kind ∈ connectingTable cfg.link then
      if m.version ≠ 1 then (false, .refused "UNSUPPORTED_PROTOCOL_VERSION")
      else if cfg.secret.isSome ∧ m.secret ≠ cfg.secret then (false, .refused "UNAUTHORIZED")
      else (true, .ack)
    else (false, .refused "UNEXPECTED_MESSAGE")
  else if m.kind = "Pong" then (true, .handled)          -- consumed by the connection engine's keep-alive (C20)
  else if m.kind ∈ authedTable cfg.link then (true, .handled)
  else (true, .refused "UNEXPECTED_MESSAGE")

def Out.closes : Out → Bool
  | .refused _ => true
  | _ => false

/-- a whole conversation: stops at the first refusal (the connection is closed) -/
def run (cfg : Cfg) : Bool → List Msg → List Out
  | _, [] => []
  | a, m :: ms =>
    let (a', o) := step cfg a m
    if o.closes then [o] else o :: run cfg a' ms

end Narwhal.Links
