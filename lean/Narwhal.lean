import Narwhal.Model.Id
import Narwhal.Model.Acl
import Narwhal.Model.Server
import Narwhal.Theorems.C03
