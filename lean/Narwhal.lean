import Narwhal.Model.Id
import Narwhal.Model.Acl
import Narwhal.Model.Server
import Narwhal.Lemmas.Assoc
import Narwhal.Lemmas.Emit
import Narwhal.Theorems.C03
import Narwhal.Theorems.C12
