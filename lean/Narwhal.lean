import Narwhal.Model.Id
import Narwhal.Model.Acl
import Narwhal.Theorems.C03
