#!/bin/sh
# Builds the verification framework from files on disk only (offline): Rust harness (path deps on /repo) and the Lean development.
set -e
cd "$(dirname "$0")"
export CARGO_NET_OFFLINE=true
(cd harness && cargo build 2>&1 | tail -3)
./harness/target/debug/nvh translate --lean "$(pwd)/lean"
(cd lean && lake build 2>&1 | grep -E "^error|completed" | tail -5)
echo "setup done"
