//! Correspondence suite `writer` (C15): frames injected through the real `ConnTx` of a real connection whose
//! transport accepts writes only in small pieces; and `write_all_vectored` against a scripted vectored writer.
use std::fmt::Write as _;
use std::io::IoSlice;
use std::pin::Pin;
use std::sync::{Arc, Mutex};
use std::task::{Context, Poll};
use std::time::Duration;

use narwhal_common::conn::{ConnManager, ConnTx, Dispatcher, DispatcherFactory, State};
use narwhal_common::service::C2sService;
use narwhal_protocol::*;
use narwhal_util::pool::{Pool, PoolBuffer};
use tokio::io::AsyncReadExt;
use tokio_util::compat::TokioAsyncReadCompatExt;

use crate::reader_suite::conn_config;
use crate::rng::{Rng, xhex};

struct Idle;
#[async_trait::async_trait]
impl Dispatcher for Idle {
  async fn dispatch_message(&mut self, _m: Message, _p: Option<PoolBuffer>, _s: State) -> anyhow::Result<Option<State>> {
    Ok(None)
  }
  async fn bootstrap(&mut self) -> anyhow::Result<()> {
    Ok(())
  }
  async fn shutdown(&mut self) -> anyhow::Result<()> {
    Ok(())
  }
}

#[derive(Clone)]
struct TxGrabber(Arc<Mutex<Option<ConnTx>>>);
#[async_trait::async_trait]
impl DispatcherFactory<Idle> for TxGrabber {
  async fn create(&mut self, _h: usize, tx: ConnTx) -> Idle {
    *self.0.lock().unwrap() = Some(tx);
    Idle
  }
  async fn bootstrap(&mut self) -> anyhow::Result<()> {
    Ok(())
  }
  async fn shutdown(&mut self) -> anyhow::Result<()> {
    Ok(())
  }
}

fn gen_frame(rng: &mut Rng, i: u32, pool_bufs: &mut Vec<(Vec<u8>, usize)>) -> (Message, Option<Vec<u8>>) {
  let _ = pool_bufs;
  match rng.below(5) {
    0 => (Message::Ping(PingParameters { id: i + 1 }), None),
    1 => (Message::BroadcastAck(BroadcastAckParameters { id: i + 1 }), None),
    2 => (
      Message::Event(EventParameters {
        kind: "MEMBER_JOINED".into(),
        channel: Some("!c1@localhost".into()),
        nid: Some(format!("u{i}@localhost").as_str().into()),
        owner: Some(false),
      }),
      None,
    ),
    _ => {
      let len = match rng.below(6) {
        0 => 1,
        1 => 256,
        2 => 257,
        _ => rng.range(1, 40),
      } as usize;
      let p: Vec<u8> = (0..len).map(|j| if rng.chance(1, 9) { b'\n' } else { (i as u8).wrapping_add(j as u8) }).collect();
      (
        Message::Message(MessageParameters { from: "a@localhost".into(), channel: "!c1@localhost".into(), length: len as u32 }),
        Some(p),
      )
    },
  }
}

async fn pool_buffer(pool: &Pool, bytes: &[u8]) -> PoolBuffer {
  let mut b = pool.acquire_buffer().await;
  b.as_mut_slice()[..bytes.len()].copy_from_slice(bytes);
  b.freeze(bytes.len())
}

/// one burst through a real connection; returns (frames line, impl line)
async fn burst_case(rng: &mut Rng, n: usize, queue: u32, pipe: usize) -> (String, String) {
  let slot = Arc::new(Mutex::new(None));
  let mut cfg = conn_config(4096, 1024, 1 << 20);
  cfg.outbound_message_queue_size = queue;
  let mng: ConnManager<C2sService> = ConnManager::new(cfg);
  let (mut a, b) = tokio::io::duplex(pipe);
  let f = TxGrabber(slot.clone());
  tokio::task::spawn_local(async move {
    mng.run_connection(b.compat(), f).await;
  });
  tokio::time::sleep(Duration::from_millis(1)).await;
  let tx = slot.lock().unwrap().clone().expect("connection did not start");
  let pool = Pool::new(n + 1, 1024);
  let mut line = String::from("frames");
  let mut dummy = Vec::new();
  let mut expect_frames: Vec<Vec<u8>> = Vec::new();
  for i in 0..n {
    let (msg, payload) = gen_frame(rng, i as u32, &mut dummy);
    let mut buf = vec![0u8; 4096];
    let k = serialize(&msg, &mut buf).unwrap();
    let mut fr = buf[..k].to_vec();
    let _ = write!(line, " {}", xhex(&buf[..k]));
    let pb = match &payload {
      Some(p) => {
        let _ = write!(line, ":{}", xhex(p));
        fr.extend_from_slice(p);
        fr.push(b'\n');
        Some(pool_buffer(&pool, p).await)
      },
      None => None,
    };
    expect_frames.push(fr);
    tx.send_message_with_payload(msg, pb);
  }
  // the peer reads in irregular pieces (own random stream: how often this loop runs must not shift later cases)
  let mut rrng = rng.fork();
  let rng = &mut rrng;
  let mut got = Vec::new();
  let mut buf = vec![0u8; 70000];
  let mut idle = 0;
  loop {
    let want = match rng.below(4) {
      0 => 1,
      1 => 3,
      2 => 64,
      _ => 65536,
    };
    match tokio::time::timeout(Duration::from_millis(20), a.read(&mut buf[..want])).await {
      Ok(Ok(0)) | Ok(Err(_)) => break,
      Ok(Ok(k)) => {
        got.extend_from_slice(&buf[..k]);
        idle = 0;
      },
      Err(_) => {
        idle += 1;
        if idle > 2 {
          break;
        }
      },
    }
  }
  if n as u32 > queue {
    // overflow: frames were queued until the queue was full; each one that found it full was dropped and asked for the
    // close. What arrives is whole frames in their order of submission (a subsequence: the writer may have made room
    // again while the burst was still being submitted; how far it gets before the close request wins is not fixed by the
    // property), followed by the closing ERROR and nothing else.
    let err = b"ERROR reason=OUTBOUND_QUEUE_FULL\n";
    let mut ok = false;
    if got.len() >= err.len() && got[got.len() - err.len()..] == err[..] {
      let body = &got[..got.len() - err.len()];
      let mut off = 0;
      let mut i = 0;
      while off < body.len() && i < expect_frames.len() {
        let fr = &expect_frames[i];
        if body.len() >= off + fr.len() && body[off..off + fr.len()] == fr[..] {
          off += fr.len();
        }
        i += 1;
      }
      ok = off == body.len();
    }
    if !ok {
      FAILS.with(|f| {
        f.borrow_mut().push(format!(
          "C15: queue overflow (n={n}, queue={queue}) did not end in whole frames followed by ERROR OUTBOUND_QUEUE_FULL: received {} bytes",
          got.len()
        ))
      });
    }
    return (format!("overflow n={n} queue={queue}"), if ok { "OVERFLOW-OK".into() } else { format!("OVERFLOW-BAD {}", xhex(&got)) });
  }
  let expect: Vec<u8> = expect_frames.concat();
  if got != expect {
    // locate the first damaged / missing frame for the report
    let mut off = 0;
    let mut which = expect_frames.len();
    for (i, fr) in expect_frames.iter().enumerate() {
      if got.len() < off + fr.len() || got[off..off + fr.len()] != fr[..] {
        which = i;
        break;
      }
      off += fr.len();
    }
    FAILS.with(|f| {
      f.borrow_mut().push(format!(
        "C15: a burst of {n} queued frames (queue {queue}, pipe {pipe} bytes) did not arrive as the concatenation of whole frames in order: \
         received {} of {} bytes, first difference at frame #{which}",
        got.len(),
        expect.len()
      ))
    });
  }
  (line, xhex(&got))
}


/// The server ends the connection (shutdown, or a close requested through its `ConnTx`) while the writer is blocked in
/// the middle of a batch because the peer has stopped reading; the peer then reads everything.  Whatever the timing,
/// what arrives must be whole frames in queue order, then at most one closing ERROR frame, then nothing.
async fn interrupted_case(rng: &mut Rng, n: usize, pipe: usize, how: &str) -> (String, String) {
  let slot = Arc::new(Mutex::new(None));
  let mut cfg = conn_config(4096, 1024, 1 << 20);
  cfg.outbound_message_queue_size = 512;
  let mng: ConnManager<C2sService> = ConnManager::new(cfg);
  let (mut a, b) = tokio::io::duplex(pipe);
  let f = TxGrabber(slot.clone());
  let m2 = mng.clone();
  tokio::task::spawn_local(async move {
    m2.run_connection(b.compat(), f).await;
  });
  tokio::time::sleep(Duration::from_millis(1)).await;
  let tx = slot.lock().unwrap().clone().expect("connection did not start");
  let pool = Pool::new(n + 1, 1024);
  let mut dummy = Vec::new();
  let mut expect_frames: Vec<Vec<u8>> = Vec::new();
  let mut got = Vec::new();
  let mut buf = vec![0u8; 70000];
  for i in 0..n {
    let (msg, payload) = gen_frame(rng, i as u32, &mut dummy);
    let mut hb = vec![0u8; 4096];
    let k = serialize(&msg, &mut hb).unwrap();
    let mut fr = hb[..k].to_vec();
    let pb = match &payload {
      Some(p) => {
        fr.extend_from_slice(p);
        fr.push(b'\n');
        Some(pool_buffer(&pool, p).await)
      },
      None => None,
    };
    expect_frames.push(fr);
    tx.send_message_with_payload(msg, pb);
  }
  // let the writer run into the full pipe; the peer takes a few bytes so that the stall is somewhere inside a frame
  tokio::time::sleep(Duration::from_millis(1)).await;
  let nibble = rng.below(1 + 2 * pipe as u64).min(40) as usize;
  if nibble > 0 {
    if let Ok(Ok(k)) = tokio::time::timeout(Duration::from_millis(5), a.read(&mut buf[..nibble])).await {
      got.extend_from_slice(&buf[..k]);
    }
  }
  tokio::time::sleep(Duration::from_millis(1)).await;
  let err: &[u8] = if how == "shutdown" {
    let m3 = mng.clone();
    tokio::task::spawn_local(async move {
      let _ = m3.shutdown().await;
    });
    b"ERROR reason=SERVER_SHUTTING_DOWN\n"
  } else {
    tx.close(Message::Error(ErrorParameters { id: None, reason: "POLICY_VIOLATION".into(), detail: None }));
    b"ERROR reason=POLICY_VIOLATION\n"
  };
  tokio::time::sleep(Duration::from_millis(rng.below(3))).await;
  // now the peer reads everything
  let mut idle = 0;
  loop {
    let want = match rng.below(3) {
      0 => 1,
      1 => 5,
      _ => 65536,
    };
    match tokio::time::timeout(Duration::from_millis(20), a.read(&mut buf[..want])).await {
      Ok(Ok(0)) | Ok(Err(_)) => break,
      Ok(Ok(k)) => {
        got.extend_from_slice(&buf[..k]);
        idle = 0;
      },
      Err(_) => {
        idle += 1;
        if idle > 2 {
          break;
        }
      },
    }
  }
  // whole frames, in order, as a prefix of the queue; then optionally the closing ERROR; then nothing
  let mut off = 0;
  let mut i = 0;
  while i < expect_frames.len() {
    let fr = &expect_frames[i];
    if got.len() >= off + fr.len() && got[off..off + fr.len()] == fr[..] {
      off += fr.len();
      i += 1;
    } else {
      break;
    }
  }
  let rest = &got[off..];
  let ok = rest.is_empty() || rest == err;
  if !ok {
    FAILS.with(|f| {
      f.borrow_mut().push(format!(
        "C15: [interrupted-write] {how} while the writer was blocked mid-batch ({n} frames, pipe {pipe} bytes): after {i} whole frames the peer          received {} bytes that are neither the next frame nor the closing ERROR: {}",
        rest.len(),
        String::from_utf8_lossy(&rest[..rest.len().min(120)]).escape_debug()
      ))
    });
  }
  (format!("interrupted how={how} n={n} pipe={pipe}"), if ok { "INTERRUPTED-OK".into() } else { format!("INTERRUPTED-BAD {}", xhex(rest)) })
}

thread_local! {
  pub static FAILS: std::cell::RefCell<Vec<String>> = const { std::cell::RefCell::new(Vec::new()) };
}

/// scripted vectored writer: accepts `accepts[i]` bytes (across slices) at its i-th call
struct ScriptW {
  accepts: Vec<usize>,
  i: usize,
  written: Vec<u8>,
}
impl futures::io::AsyncWrite for ScriptW {
  fn poll_write(mut self: Pin<&mut Self>, _cx: &mut Context<'_>, buf: &[u8]) -> Poll<std::io::Result<usize>> {
    let a = self.accepts.get(self.i).copied();
    self.i += 1;
    match a {
      None => Poll::Ready(Err(std::io::Error::other("script exhausted"))),
      Some(a) => {
        let k = a.min(buf.len());
        self.written.extend_from_slice(&buf[..k]);
        Poll::Ready(Ok(k))
      },
    }
  }
  fn poll_write_vectored(mut self: Pin<&mut Self>, _cx: &mut Context<'_>, bufs: &[IoSlice<'_>]) -> Poll<std::io::Result<usize>> {
    let a = self.accepts.get(self.i).copied();
    self.i += 1;
    match a {
      None => Poll::Ready(Err(std::io::Error::other("script exhausted"))),
      Some(a) => {
        let mut left = a;
        let mut n = 0;
        for b in bufs {
          if left == 0 {
            break;
          }
          let k = left.min(b.len());
          self.written.extend_from_slice(&b[..k]);
          left -= k;
          n += k;
        }
        Poll::Ready(Ok(n))
      },
    }
  }
  fn poll_flush(self: Pin<&mut Self>, _cx: &mut Context<'_>) -> Poll<std::io::Result<()>> {
    Poll::Ready(Ok(()))
  }
  fn poll_close(self: Pin<&mut Self>, _cx: &mut Context<'_>) -> Poll<std::io::Result<()>> {
    Poll::Ready(Ok(()))
  }
}

async fn wav_case(rng: &mut Rng) -> (String, String) {
  let ns = rng.range(1, 6) as usize;
  let slices: Vec<Vec<u8>> = (0..ns)
    .map(|i| {
      let lo = if rng.chance(1, 6) { 0 } else { 1 };
      let l = rng.range(lo, 9) as usize;
      (0..l).map(|j| (i * 16 + j) as u8).collect()
    })
    .collect();
  let total: usize = slices.iter().map(|s| s.len()).sum();
  let mut accepts: Vec<usize> = Vec::new();
  let mut acc = 0;
  while acc < total {
    let a = if rng.chance(1, 25) { 0 } else { rng.range(1, 7) as usize };
    accepts.push(a);
    if a == 0 {
      break;
    }
    acc += a;
  }
  if total == 0 {
    // only empty slices: `write_all_vectored` still makes one call, which cannot accept anything
    accepts.push(0);
  }
  let mut ios: Vec<IoSlice<'_>> = slices.iter().map(|s| IoSlice::new(s)).collect();
  let mut w = ScriptW { accepts: accepts.clone(), i: 0, written: Vec::new() };
  let r = narwhal_util::io::write_all_vectored(&mut ios, &mut w).await;
  let line = format!(
    "wav {} | {}",
    slices.iter().map(|s| xhex(s)).collect::<Vec<_>>().join(" "),
    accepts.iter().map(|a| a.to_string()).collect::<Vec<_>>().join(" ")
  );
  (line, format!("{} {}", xhex(&w.written), if r.is_ok() { "done" } else { "closed" }))
}

pub async fn run_suite(seed: u64, cases: usize) -> String {
  let mut rng = Rng::new(seed);
  let mut t = String::new();
  for case in 0..cases {
    let _ = writeln!(t, "case {case}");
    if case % 3 == 0 {
      for _ in 0..20 {
        let (l, o) = wav_case(&mut rng).await;
        let _ = writeln!(t, "{l}\nimpl {o}");
      }
    } else if case % 3 == 1 && case % 2 == 0 {
      for _ in 0..4 {
        let n = *rng.pick(&[1usize, 2, 3, 5, 20, 130]);
        let pipe = *rng.pick(&[1usize, 7, 20, 64]);
        let how = *rng.pick(&["shutdown", "close"]);
        let (l, o) = interrupted_case(&mut rng, n, pipe, how).await;
        let _ = writeln!(t, "{l}\nimpl {o}");
      }
    } else {
      let n = *rng.pick(&[1usize, 2, 5, 40, 127, 128, 129, 130, 256, 257, 300]);
      let overflow = rng.chance(1, 6);
      let queue = if overflow { *rng.pick(&[1u32, 4, 128, 129]).min(&(n as u32 - 1).max(1)) } else { 512 };
      let pipe = *rng.pick(&[1usize, 7, 64, 4096, 1 << 20]);
      let (l, o) = burst_case(&mut rng, n, queue, pipe).await;
      let _ = writeln!(t, "{l}\nimpl {o}");
    }
  }
  FAILS.with(|f| {
    for m in f.borrow().iter() {
      let _ = writeln!(t, "oracle-failure case=0 {m}");
    }
  });
  t
}
