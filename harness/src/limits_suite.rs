//! Suite `limits` (C14): connection admission, the per-connection in-flight gate and the release of every slot and
//! buffer, on the real C2S server (counters read through the `narwhal_verif` hook `ConnManager::verif_stats`).
//!   l open k          : a new connection; `admitted` or `refused exact=1` (the SERVER_OVERLOADED bytes, then EOF)
//!   l hs k            : CONNECT + IDENTIFY on connection k
//!   l burst k n       : n JOINs (new channels) in ONE write while the modulator parks every call: how many handlers run
//!   l release         : every parked call returns
//!   l close k how     : clean | midframe | midpayload | garbage
//!   l stats           : active connections, message-pool and payload-pool buffers in use
use std::collections::BTreeMap;
use std::fmt::Write as _;

use narwhal_modulator::modulator::Operation;
use narwhal_protocol::Message;

use crate::rng::Rng;
use crate::srv::*;

const OVERLOADED: &[u8] = b"ERROR reason=SERVER_OVERLOADED detail=\\\"max connections reached\\\"\n";

pub async fn run_suite(seed: u64, cases: usize) -> String {
  let mut master = Rng::new(seed ^ 0x11317);
  let mut t = String::new();
  let mut fails: Vec<(usize, String)> = Vec::new();
  let mut stats: BTreeMap<String, u64> = BTreeMap::new();
  for case in 0..cases {
    let mut r = master.fork();
    let mut cfg = SrvCfg::default();
    cfg.max_connections = *r.pick(&[0u32, 1, 1, 2, 2, 3, 3, 4, 6]);
    cfg.max_inflight = *r.pick(&[1u32, 1, 2, 3, 5]);
    cfg.max_subs = 1000;
    cfg.max_channels = 10_000;
    cfg.max_clients = 50;
    cfg.request_timeout_ms = 3_600_000;
    cfg.modulator = Some(vec![Operation::ForwardEvent]);
    let mut srv = Srv::new(cfg.clone()).await;
    // only the JOIN handlers are parked; the clean-up of a closing connection (MEMBER_LEFT) is answered at once
    srv.modulator.as_ref().unwrap().script.lock().unwrap().hold_prefix = "event MEMBER_JOINED".into();
    let _ = writeln!(t, "case {case}");
    let _ = writeln!(t, "lcfg maxconn={} inflight={}", cfg.max_connections, cfg.max_inflight);
    // live admitted connections -> (authenticated, requests executing)
    let mut live: BTreeMap<usize, (bool, u32)> = BTreeMap::new();
    let mut next_chan = 0u32;
    let mut next_id = 10u32;
    let steps = r.range(10, 30);
    macro_rules! line {
      ($op:expr, $obs:expr) => {{
        let _ = writeln!(t, "l {}", $op);
        let _ = writeln!(t, "impl {}", $obs);
        *stats.entry($op.split(' ').next().unwrap_or("").to_string()).or_insert(0) += 1;
      }};
    }
    for step in 0..=steps {
      let last = step == steps;
      let ks: Vec<usize> = live.keys().copied().collect();
      let choice = if last { 100 } else { r.below(100) };
      if choice < 30 || ks.is_empty() && !last {
        let k = srv.open();
        srv.settle(0).await;
        let got = srv.collect().await;
        let refused = got.get(&k).is_some_and(|(_, eof)| *eof);
        let raw_ok = {
          // the refusal must be exactly the documented bytes: re-serialise what was parsed is not enough, compare text
          got.get(&k).map(|(f, _)| f.len() == 1 && f[0].text == "ERROR reason=SERVER_OVERLOADED").unwrap_or(false)
        };
        let (active, ..) = srv.conn_mng.verif_stats().await;
        if refused {
          line!(format!("open {k}"), format!("refused exact={}", raw_ok as u8));
          if (live.len() as u32) < cfg.max_connections {
            fails.push((case, format!("C14: [conn-refused-below-limit] connection {k} was refused with {} of {} connections open", live.len(), cfg.max_connections)));
          }
        } else {
          live.insert(k, (false, 0));
          line!(format!("open {k}"), "admitted".to_string());
          if live.len() as u32 > cfg.max_connections {
            fails.push((case, format!("C14: [conn-limit-exceeded] {} connections are open with max_connections={}", live.len(), cfg.max_connections)));
          }
        }
        if active as usize != live.len() {
          fails.push((case, format!("C14: [conn-counter-drift] the manager counts {active} active connections, {} are open", live.len())));
        }
      } else if choice < 45 {
        let k = *r.pick(&ks);
        if live[&k].0 {
          continue;
        }
        srv.send(k, format!("CONNECT version=1\nIDENTIFY username=u{k}\n").as_bytes()).await;
        srv.settle(0).await;
        let got = srv.collect().await;
        let ok = got.get(&k).is_some_and(|(f, _)| f.iter().any(|x| matches!(x.msg, Message::IdentifyAck(_))));
        live.get_mut(&k).unwrap().0 = ok;
        line!(format!("hs {k}"), if ok { "ok" } else { "failed" });
      } else if choice < 70 {
        let authed: Vec<usize> = ks.iter().copied().filter(|k| live[k].0).collect();
        if authed.is_empty() {
          continue;
        }
        let k = *r.pick(&authed);
        let n = r.range(1, cfg.max_inflight as u64 + 3) as u32;
        srv.modulator.as_ref().unwrap().set_hold(true);
        let mut bytes = Vec::new();
        for _ in 0..n {
          next_chan += 1;
          next_id += 1;
          bytes.extend_from_slice(format!("JOIN id={next_id} channel=!b{next_chan}@localhost\n").as_bytes());
        }
        let before = srv.modulator.as_ref().unwrap().parked_live();
        srv.send(k, &bytes).await;
        srv.settle(0).await;
        let got = srv.collect().await;
        let parked = srv.modulator.as_ref().unwrap().parked_live();
        let eof = got.get(&k).is_some_and(|(_, e)| *e);
        let errs: Vec<String> = got
          .get(&k)
          .map(|(f, _)| f.iter().filter(|x| matches!(x.msg, Message::Error(_))).map(|x| x.text.clone()).collect())
          .unwrap_or_default();
        // handlers of connection k now executing = all live parked calls minus those of the other connections
        let others: u32 = live.iter().filter(|(kk, _)| **kk != k).map(|(_, v)| v.1).sum();
        let mine = parked as i64 - others as i64;
        let _ = before;
        if mine > cfg.max_inflight as i64 {
          fails.push((case, format!("C14: [inflight-exceeded] connection {k} has {mine} requests executing at once with max_inflight_requests={}", cfg.max_inflight)));
        }
        // a client that stays within the advertised limit must never be cut off: slots of finished requests are free again
        let already = live.get(&k).map(|v| v.1).unwrap_or(0);
        if eof && already + n <= cfg.max_inflight {
          for tag in ["C14", "C13", "C12"] {
            fails.push((case, format!(
              "{tag}: [slot-leak] connection {k} had {already} requests executing and pipelined {n} more (max_inflight_requests={}), yet the server closed it ({} ERROR frames): in-flight slots of finished requests were not given back",
              cfg.max_inflight,
              errs.len()
            )));
          }
        }
        if eof {
          live.remove(&k);
        } else {
          live.get_mut(&k).unwrap().1 = mine.max(0) as u32;
        }
        line!(format!("burst {k} {n}"), format!("executing={} eof={} errors={}", if eof { 0 } else { mine }, eof as u8, errs.len()));
      } else if choice < 76 {
        // requests that are refused with a recoverable error, one after the other, more of them than the connection has slots:
        // each is answered, none keeps its slot, the connection stays open
        let authed: Vec<usize> = ks.iter().copied().filter(|k| live[k].0).collect();
        if authed.is_empty() {
          continue;
        }
        let k = *r.pick(&authed);
        let n = cfg.max_inflight + r.range(1, 3) as u32;
        let already = live.get(&k).map(|v| v.1).unwrap_or(0);
        if already >= cfg.max_inflight {
          continue;
        }
        let mut errors = 0u32;
        let mut eof = false;
        for _ in 0..n {
          next_id += 1;
          srv.send(k, format!("LEAVE id={next_id} channel=!nosuch{next_id}@localhost\n").as_bytes()).await;
          srv.settle(1).await;
          let got = srv.collect().await;
          if let Some((f, e)) = got.get(&k) {
            errors += f.iter().filter(|x| matches!(&x.msg, Message::Error(p) if p.id == Some(next_id) && p.reason.as_ref() == "CHANNEL_NOT_FOUND")).count() as u32;
            eof |= *e;
          }
          for (kk, (_, e)) in &got {
            if *e && *kk != k {
              live.remove(kk);
            }
          }
          if eof {
            break;
          }
        }
        if already < cfg.max_inflight && (eof || errors != n) {
          for tag in ["C14", "C13"] {
            fails.push((case, format!(
              "{tag}: [slot-leak] connection {k} ({already} requests executing, max_inflight_requests={}) sent {n} LEAVEs of unknown channels one after the other: {errors} were answered CHANNEL_NOT_FOUND and the connection was {}: a refused request did not give its in-flight slot back",
              cfg.max_inflight,
              if eof { "closed" } else { "left open" }
            )));
          }
        }
        if eof {
          live.remove(&k);
        }
        if already < cfg.max_inflight {
          line!(format!("fails {k} {n}"), format!("executing={} eof={} errors={errors}", if eof { 0 } else { already }, eof as u8));
        }
      } else if choice < 82 {
        let m = srv.modulator.as_ref().unwrap().clone();
        m.set_hold(false);
        let mut n = 0;
        while m.parked_live() > 0 {
          m.release(0, true);
          n += 1;
          if n > 10_000 {
            break;
          }
        }
        srv.settle(0).await;
        let got = srv.collect().await;
        let acks: usize = got.values().map(|(f, _)| f.iter().filter(|x| matches!(x.msg, Message::JoinChannelAck(_))).count()).sum();
        let expect: u32 = live.values().map(|v| v.1).sum();
        for v in live.values_mut() {
          v.1 = 0;
        }
        for (k, (_, eof)) in &got {
          if *eof {
            live.remove(k);
          }
        }
        if acks as u32 != expect {
          fails.push((case, format!("C14: [released-requests-unanswered] {expect} requests were executing, {acks} were acknowledged after the modulator answered")));
        }
        line!("release".to_string(), format!("acks={acks}"));
      } else if choice < 95 && !last {
        let k = *r.pick(&ks);
        let how = *r.pick(&["clean", "midframe", "midpayload", "garbage"]);
        match how {
          "midframe" => srv.send(k, b"JOIN id=77 chann").await,
          "midpayload" if live[&k].0 => srv.send(k, b"BROADCAST id=78 channel=!zz@localhost length=100\nabc").await,
          "garbage" => srv.send(k, b"\x01\x02 nonsense\n").await,
          _ => {},
        }
        srv.settle(0).await;
        srv.close(k);
        srv.settle(1).await;
        let _ = srv.collect().await;
        live.remove(&k);
        let (active, mi, pi) = {
          let s = srv.conn_mng.verif_stats().await;
          (s.0, s.2, s.4)
        };
        line!(format!("close {k} {how}"), format!("active={active} msg_inuse={mi} payload_inuse={pi}"));
        if active as usize != live.len() {
          fails.push((case, format!("C14: [conn-counter-drift] after closing {k} ({how}) the manager counts {active} active connections, {} are open", live.len())));
        }
      } else {
        // stats; at the end of the case everything is closed first: every slot and buffer must be back
        if last {
          let m = srv.modulator.as_ref().unwrap().clone();
          m.set_hold(false);
          while m.parked_live() > 0 {
            m.release(0, true);
          }
          for k in live.keys().copied().collect::<Vec<_>>() {
            srv.close(k);
          }
          live.clear();
          srv.settle(2).await;
          let _ = srv.collect().await;
        }
        let s = srv.conn_mng.verif_stats().await;
        line!(if last { "closeall".to_string() } else { "stats".to_string() }, format!("active={} msg_inuse={} payload_inuse={}", s.0, s.2, s.4));
        if s.0 as usize != live.len() || s.2 != live.len() || s.4 != 0 {
          fails.push((case, format!(
            "C14: [slot-or-buffer-leak] with {} connections open the manager counts {} active, {} message buffers and {} payload buffers in use",
            live.len(), s.0, s.2, s.4
          )));
        }
      }
    }
  }
  for (case, f) in &fails {
    let _ = writeln!(t, "oracle-failure case={case} {f}");
  }
  let _ = writeln!(
    t,
    "stats {{\"suite\":\"limits\",\"seed\":{},\"cases\":{},\"ops\":{},\"oracle_failures\":{}}}",
    seed,
    cases,
    crate::js_map(&stats),
    fails.len()
  );
  t
}
