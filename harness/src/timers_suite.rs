//! Suite `timers` (C20): connect / authenticate deadlines, heartbeat negotiation, the keep-alive loop and shutdown of the
//! real connection engine (`ConnManager::run_connection`) for all three link types (C2S, S2M, M2S), under virtual time.
//!
//! Every operation line `t ...` is followed by `impl <obs>`: the time-stamped frames (millisecond resolution, relative to
//! the start of the case) every connection received while the operation ran, as `k@T:TEXT` entries.
//!   t open k | t adv DT | t connect k HB | t auth k ok|retry | t req k | t pong k N | t close k | t shutdown
//! PING ids are random: the N-th PING a connection received is `PING#N`, and `pong k N` answers with that PING's id
//! (N = 0, or N beyond the PINGs received so far: an id the server never sent).
use std::collections::BTreeMap;
use std::fmt::Write as _;
use std::sync::Arc;
use std::time::Duration;

use narwhal_modulator::conn::{M2sConnManager, M2sDispatcherFactory, S2mConnManager, S2mDispatcherFactory};
use narwhal_modulator::modulator::{Operation, Operations};
use narwhal_modulator::{M2sServerConfig, OutboundPrivatePayload, S2mServerConfig};
use narwhal_protocol::*;
use tokio::io::{AsyncReadExt, AsyncWriteExt, DuplexStream};
use tokio_util::compat::TokioAsyncReadCompatExt;

use crate::rng::Rng;
use crate::srv::*;

#[derive(Clone, Copy, PartialEq, Debug)]
pub enum Link {
  C2s,
  S2m,
  M2s,
}

#[derive(Clone, Debug)]
pub struct TCfg {
  pub link: Link,
  pub auth: bool,
  pub ct: u64,
  pub at: u64,
  pub ka: u64,
  pub minka: u64,
  /// capacity of the in-memory pipe towards the client (small = a peer that stops reading stalls the writer)
  pub pipe: usize,
}

impl TCfg {
  pub fn line(&self) -> String {
    format!(
      "tcfg link={} auth={} ct={} at={} ka={} minka={}",
      match self.link {
        Link::C2s => "c2s",
        Link::S2m => "s2m",
        Link::M2s => "m2s",
      },
      self.auth as u8,
      self.ct,
      self.at,
      self.ka,
      self.minka
    )
  }
}

enum Mgr {
  C2s(Srv),
  S2m(S2mConnManager, S2mDispatcherFactory<ScriptedModulator>),
  M2s(M2sConnManager, M2sDispatcherFactory, tokio::sync::broadcast::Receiver<OutboundPrivatePayload>),
}

struct End {
  stream: Option<DuplexStream>,
  inbuf: Vec<u8>,
  ping_ids: Vec<u32>,
  next_id: u32,
  /// the peer has stopped reading
  stalled: bool,
}

pub struct World {
  pub cfg: TCfg,
  mgr: Mgr,
  ends: BTreeMap<usize, End>,
  next: usize,
  t0: tokio::time::Instant,
  shutdown_task: Option<tokio::task::JoinHandle<()>>,
}

fn wire(msg: &Message, payload: Option<&[u8]>) -> Vec<u8> {
  let mut buf = vec![0u8; 8192];
  let n = serialize(msg, &mut buf).expect("serialize");
  let mut v = buf[..n].to_vec();
  if let Some(p) = payload {
    v.extend_from_slice(p);
    v.push(b'\n');
  }
  v
}

impl World {
  pub async fn new(cfg: TCfg) -> World {
    let mgr = match cfg.link {
      Link::C2s => {
        let mut c = SrvCfg::default();
        c.connect_timeout_ms = cfg.ct;
        c.auth_timeout_ms = cfg.at;
        c.keep_alive_ms = cfg.ka;
        c.min_keep_alive_ms = cfg.minka;
        c.request_timeout_ms = 3_600_000;
        if cfg.auth {
          c.modulator = Some(vec![Operation::Auth]);
        }
        Mgr::C2s(Srv::new(c).await)
      },
      Link::S2m => {
        let mut sc = S2mServerConfig { server: Default::default(), m2s_client: Default::default() };
        sc.server.connect_timeout = Duration::from_millis(cfg.ct);
        sc.server.keep_alive_interval = Duration::from_millis(cfg.ka);
        sc.server.min_keep_alive_interval = Duration::from_millis(cfg.minka);
        sc.server.request_timeout = Duration::from_secs(3600);
        let m = Arc::new(ScriptedModulator::new(Operations::new().with(Operation::ForwardEvent), 64));
        let mng = S2mConnManager::new(&sc.server);
        Mgr::S2m(mng, S2mDispatcherFactory::new(Arc::new(sc), m))
      },
      Link::M2s => {
        let mut mc = M2sServerConfig::default();
        mc.connect_timeout = Duration::from_millis(cfg.ct);
        mc.keep_alive_interval = Duration::from_millis(cfg.ka);
        mc.min_keep_alive_interval = Duration::from_millis(cfg.minka);
        mc.request_timeout = Duration::from_secs(3600);
        let (ptx, prx) = tokio::sync::broadcast::channel::<OutboundPrivatePayload>(64);
        let mng = M2sConnManager::new(&mc);
        Mgr::M2s(mng, M2sDispatcherFactory::new(Arc::new(mc), ptx), prx)
      },
    };
    World { cfg, mgr, ends: BTreeMap::new(), next: 1, t0: tokio::time::Instant::now(), shutdown_task: None }
  }

  pub fn now(&self) -> u64 {
    tokio::time::Instant::now().duration_since(self.t0).as_millis() as u64
  }

  pub fn open(&mut self) -> usize {
    let (a, b) = tokio::io::duplex(self.cfg.pipe);
    match &self.mgr {
      Mgr::C2s(s) => {
        let (m, f) = (s.conn_mng.clone(), s.factory.clone());
        tokio::task::spawn_local(async move { m.run_connection(b.compat(), f).await });
      },
      Mgr::S2m(m, f) => {
        let (m, f) = (m.clone(), f.clone());
        tokio::task::spawn_local(async move { m.run_connection(b.compat(), f).await });
      },
      Mgr::M2s(m, f, _) => {
        let (m, f) = (m.clone(), f.clone());
        tokio::task::spawn_local(async move { m.run_connection(b.compat(), f).await });
      },
    }
    let k = self.next;
    self.next += 1;
    self.ends.insert(k, End { stream: Some(a), inbuf: Vec::new(), ping_ids: Vec::new(), next_id: 1, stalled: false });
    k
  }

  async fn send(&mut self, k: usize, bytes: &[u8]) {
    if let Some(e) = self.ends.get_mut(&k) {
      if let Some(s) = e.stream.as_mut() {
        // never block the harness on a full pipe
        let _ = tokio::time::timeout(Duration::from_millis(0), s.write_all(bytes)).await;
      }
    }
  }

  pub async fn yields(&self) {
    for _ in 0..40 {
      tokio::task::yield_now().await;
    }
  }

  pub async fn connect(&mut self, k: usize, hb: u32) {
    let m = match self.cfg.link {
      Link::C2s => Message::Connect(ConnectParameters { protocol_version: 1, heartbeat_interval: hb }),
      Link::S2m => Message::S2mConnect(S2mConnectParameters { protocol_version: 1, secret: None, heartbeat_interval: hb }),
      Link::M2s => Message::M2sConnect(M2sConnectParameters { protocol_version: 1, secret: None, heartbeat_interval: hb }),
    };
    self.send(k, &wire(&m, None)).await;
  }

  /// C2S only: `ok` completes authentication; otherwise an attempt that is answered without completing it
  pub async fn auth(&mut self, k: usize, ok: bool) {
    let Mgr::C2s(s) = &self.mgr else { return };
    if self.cfg.auth {
      s.modulator.as_ref().unwrap().script.lock().unwrap().auth =
        if ok { AuthS::Success(format!("user{k}")) } else if k % 2 == 0 { AuthS::Failure } else { AuthS::Continue("more".into()) };
      self.send(k, &wire(&Message::Auth(AuthParameters { token: "tok".into() }), None)).await;
    } else {
      // a name nobody else can take vs. the name held by the sentinel connection
      let name = if ok { format!("user{k}") } else { "sentinel".to_string() };
      self.send(k, &wire(&Message::Identify(IdentifyParameters { username: name.as_str().into() }), None)).await;
    }
  }

  pub async fn req(&mut self, k: usize) {
    let id = {
      let Some(e) = self.ends.get_mut(&k) else { return };
      e.next_id += 1;
      e.next_id
    };
    let bytes = match self.cfg.link {
      Link::C2s => wire(&Message::ListChannels(ListChannelsParameters { id, page: None, page_size: None, owner: false }), None),
      Link::S2m => wire(
        &Message::S2mForwardEvent(S2mForwardEventParameters {
          id,
          channel: Some("!c@localhost".into()),
          kind: "MEMBER_JOINED".into(),
          nid: Some("u@localhost".into()),
          owner: Some(false),
        }),
        None,
      ),
      Link::M2s => wire(&Message::M2sModDirect(M2sModDirectParameters { id, targets: vec!["u".into()], length: 1 }), Some(b"x")),
    };
    self.send(k, &bytes).await;
  }

  /// C2S only: something is routed to connection `k`'s user (a MOD_DIRECT frame with a one-byte payload through the real
  /// router, as a direct message or a channel delivery would be) — traffic to the peer, not activity of the peer
  pub async fn push(&mut self, k: usize) {
    let Mgr::C2s(s) = &self.mgr else { return };
    let name = if !self.cfg.auth && k == 1 { "sentinel".to_string() } else { format!("user{k}") };
    let pool = narwhal_util::pool::Pool::new(1, 8);
    let mut b = pool.acquire_buffer().await;
    b.as_mut_slice()[0] = b'p';
    let payload = b.freeze(1);
    let msg = Message::ModDirect(narwhal_protocol::ModDirectParameters { id: None, from: "localhost".into(), length: 1 });
    let _ = s.router.route_to(msg, Some(payload), name.as_str().into(), None);
  }

  pub async fn pong(&mut self, k: usize, n: usize) {
    let id = {
      let Some(e) = self.ends.get(&k) else { return };
      if n >= 1 && n <= e.ping_ids.len() {
        e.ping_ids[n - 1]
      } else {
        // an id the server never sent on this connection
        let mut x = 77u32;
        while e.ping_ids.contains(&x) {
          x += 1;
        }
        x
      }
    };
    self.send(k, &wire(&Message::Pong(PongParameters { id }), None)).await;
  }

  pub fn stall(&mut self, k: usize, on: bool) {
    if let Some(e) = self.ends.get_mut(&k) {
      e.stalled = on;
    }
  }

  pub fn close(&mut self, k: usize) {
    if let Some(e) = self.ends.get_mut(&k) {
      e.stream = None;
    }
  }

  pub fn start_shutdown(&mut self) {
    let h = match &self.mgr {
      Mgr::C2s(s) => {
        let m = s.conn_mng.clone();
        tokio::task::spawn_local(async move {
          let _ = m.shutdown().await;
        })
      },
      Mgr::S2m(m, _) => {
        let m = m.clone();
        tokio::task::spawn_local(async move {
          let _ = m.shutdown().await;
        })
      },
      Mgr::M2s(m, _, _) => {
        let m = m.clone();
        tokio::task::spawn_local(async move {
          let _ = m.shutdown().await;
        })
      },
    };
    self.shutdown_task = Some(h);
  }

  pub fn shutdown_complete(&self) -> bool {
    self.shutdown_task.as_ref().is_some_and(|h| h.is_finished())
  }

  /// connections whose client end has not yet seen EOF (and was not closed by the client)
  pub fn open_ends(&self) -> Vec<usize> {
    self.ends.iter().filter(|(_, e)| e.stream.is_some()).map(|(k, _)| *k).collect()
  }

  /// what every connection received since the last call, stamped with the current time
  pub async fn collect(&mut self, into: &mut Vec<(usize, u64, String)>) {
    let t = self.now();
    for (k, e) in self.ends.iter_mut() {
      let mut eof = false;
      if e.stalled {
        continue;
      }
      if let Some(s) = e.stream.as_mut() {
        let mut buf = [0u8; 16384];
        loop {
          match tokio::time::timeout(Duration::from_millis(0), s.read(&mut buf)).await {
            Ok(Ok(0)) | Ok(Err(_)) => {
              eof = true;
              break;
            },
            Ok(Ok(n)) => e.inbuf.extend_from_slice(&buf[..n]),
            Err(_) => break,
          }
        }
      }
      let frames = parse_frames(&mut e.inbuf);
      let mut texts: Vec<String> = Vec::new();
      for f in &frames {
        let t = match &f.msg {
          Message::ConnectAck(p) => format!("ACK hb={}", p.heartbeat_interval),
          Message::S2mConnectAck(p) => format!("ACK hb={}", p.heartbeat_interval),
          Message::M2sConnectAck(p) => format!("ACK hb={}", p.heartbeat_interval),
          Message::IdentifyAck(_) => "AUTH_OK".to_string(),
          Message::AuthAck(p) => if p.succeeded == Some(true) { "AUTH_OK".to_string() } else { "AUTH_RETRY".to_string() },
          Message::Ping(p) => {
            e.ping_ids.push(p.id);
            format!("PING#{}", e.ping_ids.len())
          },
          Message::ListChannelsAck(_) | Message::S2mForwardEventAck(_) | Message::M2sModDirectAck(_) => "REPLY".to_string(),
          Message::ModDirect(_) => "PUSH".to_string(),
          Message::Error(p) => {
            let r: &str = p.reason.as_ref();
            if r == "USERNAME_IN_USE" {
              "AUTH_RETRY".to_string()
            } else if r == "TIMEOUT" {
              let d = p.detail.as_ref().map(|d| d.to_string()).unwrap_or_default();
              format!("ERROR TIMEOUT({})", d.split(' ').next().unwrap_or(""))
            } else {
              format!("ERROR {r}")
            }
          },
          _ => format!("OTHER {}", f.text),
        };
        texts.push(t);
      }
      // which of `send PING` / `close BAD_REQUEST` the connection loop's select! takes first is random: a PING in
      // the same instant as the closing BAD_REQUEST is dropped from the observation (the model does not emit it)
      if eof && texts.last().is_some_and(|l| l == "ERROR BAD_REQUEST") {
        let n = texts.len();
        if n >= 2 && texts[n - 2].starts_with("PING#") {
          texts.remove(n - 2);
        }
      }
      for x in texts {
        into.push((*k, t, x));
      }
      if eof {
        e.stream = None;
        into.push((*k, t, "EOF".into()));
      }
    }
  }

  /// virtual time passes, one millisecond at a time, so that every frame gets its exact time stamp
  pub async fn advance(&mut self, dt: u64, into: &mut Vec<(usize, u64, String)>) {
    for _ in 0..dt {
      tokio::time::advance(Duration::from_millis(1)).await;
      self.yields().await;
      self.collect(into).await;
    }
  }
}

/// runs a fixed script (`;`-separated operations) on a fresh world: replays of findings and probes
pub async fn run_script(cfg: TCfg, script: &str) -> String {
  let mut w = World::new(cfg.clone()).await;
  let mut t = String::new();
  let _ = writeln!(t, "case 0");
  let _ = writeln!(t, "{}", cfg.line());
  let mut fails: Vec<String> = Vec::new();
  for line in script.split(';') {
    let line = line.trim();
    if line.is_empty() {
      continue;
    }
    let mut ent: Vec<(usize, u64, String)> = Vec::new();
    let tk: Vec<&str> = line.split(' ').collect();
    let num = |i: usize| -> u64 { tk.get(i).and_then(|x| x.parse().ok()).unwrap_or(0) };
    match tk[0] {
      "open" => {
        w.open();
      },
      "connect" => w.connect(num(1) as usize, num(2) as u32).await,
      "auth" => w.auth(num(1) as usize, tk.get(2) == Some(&"ok")).await,
      "req" => w.req(num(1) as usize).await,
      "pong" => w.pong(num(1) as usize, num(2) as usize).await,
      "push" => w.push(num(1) as usize).await,
      "close" => w.close(num(1) as usize),
      "stall" => w.stall(num(1) as usize, true),
      "unstall" => w.stall(num(1) as usize, false),
      "adv" => w.advance(num(1), &mut ent).await,
      "shutdown" => {
        w.start_shutdown();
        w.yields().await;
        w.collect(&mut ent).await;
        let complete = w.shutdown_complete();
        let left = w.open_ends();
        let stalled: Vec<usize> = w.ends.iter().filter(|(_, e)| e.stalled && e.stream.is_some()).map(|(k, _)| *k).collect();
        if !complete && !stalled.is_empty() {
          fails.push(format!(
            "C20: [shutdown-blocked-by-stalled-writer] connection(s) {stalled:?} whose peer stopped reading (full socket buffer) never observe the shutdown: no SERVER_SHUTTING_DOWN, not closed, ConnManager::shutdown does not complete"
          ));
        } else if !complete {
          fails.push("C20: [shutdown-incomplete] ConnManager::shutdown did not complete".into());
        } else if !left.is_empty() {
          fails.push(format!("C20: [shutdown-left-open] shutdown completed while connections {left:?} were still open"));
        }
        ent.insert(0, (0, w.now(), format!("complete={}", complete as u8)));
      },
      _ => {},
    }
    w.yields().await;
    w.collect(&mut ent).await;
    let _ = writeln!(t, "t {line}");
    let _ = writeln!(t, "impl {}", obs(&ent));
  }
  for f in &fails {
    let _ = writeln!(t, "oracle-failure case=0 {f}");
  }
  t
}

pub fn obs(entries: &[(usize, u64, String)]) -> String {
  let mut items: Vec<(usize, usize, String)> =
    entries.iter().enumerate().map(|(i, (k, t, x))| (*k, i, format!("{k}@{t}:{x}"))).collect();
  items.sort();
  items.into_iter().map(|x| x.2).collect::<Vec<_>>().join(" | ")
}


// ------------------------------------------------------------------------------------------------
// Property oracle for C20, evaluated on what the clients did and saw (independent of the Lean model).

#[derive(Default, Clone, Debug)]
struct OC {
  t_open: u64,
  req_hb: Option<(u64, u64)>,
  ack: Option<(u64, u64)>,
  auth_ok: Option<u64>,
  reqs: Vec<u64>,
  /// (time, PING ordinal answered; 0 = an id never sent)
  pongs: Vec<(u64, usize)>,
  pings: Vec<u64>,
  closed: Option<(u64, String)>,
  eof: Option<u64>,
  client_closed: Option<u64>,
}

pub struct Orc {
  cfg: TCfg,
  conns: BTreeMap<usize, OC>,
  shutdown_at: Option<u64>,
}

impl Orc {
  pub fn new(cfg: TCfg) -> Orc {
    Orc { cfg, conns: BTreeMap::new(), shutdown_at: None }
  }
  fn c(&mut self, k: usize) -> &mut OC {
    self.conns.entry(k).or_default()
  }
  pub fn observe(&mut self, ent: &[(usize, u64, String)]) {
    for (k, t, x) in ent {
      if *k == 0 {
        continue;
      }
      let c = self.c(*k);
      if let Some(h) = x.strip_prefix("ACK hb=") {
        c.ack = Some((*t, h.parse().unwrap_or(0)));
      } else if x == "AUTH_OK" {
        c.auth_ok = Some(*t);
      } else if x.starts_with("PING#") {
        c.pings.push(*t);
      } else if let Some(r) = x.strip_prefix("ERROR ") {
        if c.closed.is_none() {
          c.closed = Some((*t, r.to_string()));
        }
      } else if x == "EOF" {
        c.eof = Some(*t);
      }
    }
  }
  /// the announced interval the property prescribes for a requested one
  fn clamp(&self, req: u64) -> u64 {
    let (lo, hi) = (self.cfg.minka, self.cfg.ka);
    if req == 0 { hi } else { req.max(lo).min(hi) }
  }
  pub fn verdict(&self, t_end: u64) -> Vec<String> {
    let mut f = Vec::new();
    let two_phase = self.cfg.link == Link::C2s;
    for (k, c) in &self.conns {
      // the moment the connection stopped being the server's to close
      let ext_end = [c.client_closed, self.shutdown_at].iter().flatten().copied().min();
      let life_end = [ext_end, c.eof, Some(t_end)].iter().flatten().copied().min().unwrap();
      let closed_by = c.closed.as_ref().map(|(t, r)| (*t, r.as_str()));
      // (1) connect deadline
      let d1 = c.t_open + self.cfg.ct;
      match c.ack {
        None => {
          if ext_end.is_none_or(|e| e > d1) && t_end >= d1 {
            match closed_by {
              Some((t, "TIMEOUT(connection)")) if t == d1 => {},
              Some((t, r)) if t < d1 => {
                let _ = r;
              },
              other => f.push(format!(
                "C20: [connect-deadline] connection {k} opened at {} sent no CONNECT before {d1} (connect_timeout {}): expected TIMEOUT at {d1}, saw {other:?}",
                c.t_open, self.cfg.ct
              )),
            }
          }
        },
        Some((ta, hb)) => {
          if let Some((t, "TIMEOUT(connection)")) = closed_by {
            f.push(format!("C20: [connect-deadline-after-connect] connection {k} connected at {ta} but was closed with the connect timeout at {t}"));
          }
          // (3) negotiation
          if let Some((_, req)) = c.req_hb {
            let want = self.clamp(req);
            if hb != want {
              f.push(format!(
                "C20: [heartbeat-clamp] connection {k} requested heartbeat {req} (min {}, max {}): announced {hb}, expected {want}",
                self.cfg.minka, self.cfg.ka
              ));
            }
          }
          // (2) authenticate deadline
          if two_phase {
            let d2 = ta + self.cfg.at;
            match c.auth_ok {
              None => {
                if ext_end.is_none_or(|e| e > d2) && t_end >= d2 {
                  match closed_by {
                    Some((t, "TIMEOUT(authentication)")) if t == d2 => {},
                    Some((t, _)) if t < d2 => {},
                    other => f.push(format!(
                      "C20: [auth-deadline] connection {k} connected at {ta} and did not authenticate before {d2} (authenticate_timeout {}): expected TIMEOUT at {d2}, saw {other:?}",
                      self.cfg.at
                    )),
                  }
                }
              },
              Some(tok) => {
                if let Some((t, "TIMEOUT(authentication)")) = closed_by {
                  f.push(format!("C20: [auth-deadline-after-auth] connection {k} authenticated at {tok} but was closed with the authentication timeout at {t}"));
                }
              },
            }
          }
          let authed_at = if two_phase { c.auth_ok } else { Some(ta) };
          let Some(t_auth) = authed_at else { continue };
          let iv = hb.max(1);
          // classify the PONGs: matched = carries the id of the PING outstanding when it was sent
          let mut activity: Vec<u64> = vec![t_auth];
          activity.extend(c.reqs.iter().copied().filter(|r| *r >= t_auth));
          let mut justified_bad = None;
          let mut answered: Vec<bool> = vec![false; c.pings.len()];
          for (tp, n) in &c.pongs {
            if *tp < t_auth || *tp > life_end {
              continue;
            }
            // the PING outstanding at tp: the last PING sent at or before tp, if not yet answered and not yet expired
            let outstanding = c.pings.iter().enumerate().filter(|(_, p)| **p <= *tp).map(|(i, _)| i).last();
            match outstanding {
              Some(i) if !answered[i] && *tp < c.pings[i] + 3 * iv => {
                if *n == i + 1 {
                  answered[i] = true;
                  activity.push(*tp);
                } else if justified_bad.is_none() {
                  justified_bad = Some(*tp);
                }
              },
              _ => {
                // unsolicited: tolerated once (it is refused when the next PING is due), a second one is refused at once
                if justified_bad.is_none() {
                  justified_bad = Some(u64::MAX);
                }
              },
            }
          }
          activity.sort();
          // (4) a silent connection is pinged within two intervals of its last activity
          for (i, a) in activity.iter().enumerate() {
            let next = activity.get(i + 1).copied().unwrap_or(u64::MAX).min(life_end);
            // (while a PING is outstanding no further one is due: the PONG rule governs)
            let outstanding = c.pings.iter().enumerate().any(|(j, p)| {
              *p <= *a && p + 3 * iv > *a && !c.pongs.iter().any(|(tp, n)| *n == j + 1 && *tp >= *p && *tp <= *a)
            });
            if !outstanding && next > a + 2 * iv && !c.pings.iter().any(|p| *p > *a && *p <= a + 2 * iv) {
              f.push(format!(
                "C20: [silent-not-pinged] connection {k} (interval {iv}) was silent from {a} until {next} and was not sent a PING by {}",
                a + 2 * iv
              ));
            }
          }
          // (6) an active connection is not pinged
          // (the window starts anew when a PING is answered: the PONG itself is the sign of life, and a request sent
          //  before it — or in the same instant — does not count for the next window)
          let matched_pongs: Vec<u64> = activity.iter().copied().filter(|a| c.pongs.iter().any(|(tp, _)| tp == a)).collect();
          for p in &c.pings {
            let base = matched_pongs.iter().copied().filter(|m| *m < *p).max();
            if let Some(r) = c.reqs.iter().find(|r| **r + iv >= *p && **r < *p && **r >= t_auth && base.is_none_or(|b| **r > b)) {
              f.push(format!("C20: [active-pinged] connection {k} (interval {iv}) sent a request at {r} and was pinged at {p}"));
            }
          }
          // (5) PONG rule
          for (i, p) in c.pings.iter().enumerate() {
            let dl = p + 3 * iv;
            if !answered[i] && life_end >= dl && t_end >= dl && ext_end.is_none_or(|e| e > dl) {
              let wrong = c.pongs.iter().any(|(tp, n)| *tp >= *p && *tp < dl && *n != i + 1);
              match closed_by {
                Some((t, "TIMEOUT(ping)")) if t == dl && !wrong => {},
                Some((t, "BAD_REQUEST")) if t < dl || wrong => {},
                other => f.push(format!(
                  "C20: [pong-deadline] connection {k} (interval {iv}) got PING at {p} and sent no matching PONG before {dl}: expected TIMEOUT at {dl}, saw {other:?}"
                )),
              }
            }
            if answered[i] {
              if let Some((t, "TIMEOUT(ping)")) = closed_by {
                if i + 1 == c.pings.len() {
                  f.push(format!("C20: [pong-ignored] connection {k} answered PING#{} (sent at {p}) in time but was closed with the ping timeout at {t}", i + 1));
                }
              }
            }
          }
          // (8) an authenticated connection is closed only for a reason the property names
          if let Some((t, r)) = closed_by {
            if t >= t_auth {
              let ok = match r {
                "TIMEOUT(ping)" => c.pings.last().is_some_and(|p| p + 3 * iv == t),
                "BAD_REQUEST" => justified_bad.is_some(),
                "SERVER_SHUTTING_DOWN" => self.shutdown_at == Some(t),
                _ => false,
              };
              if !ok {
                f.push(format!("C20: [unjustified-close] authenticated connection {k} (interval {iv}) was closed at {t} with {r}: pings at {:?}, requests at {:?}, pongs {:?}", c.pings, c.reqs, c.pongs));
              }
            }
          }
        },
      }
      // (7) shutdown reaches every connection that is still open
      if let Some(ts) = self.shutdown_at {
        let open_then = c.eof.is_none_or(|e| e >= ts) && c.client_closed.is_none_or(|e| e > ts) && closed_by.is_none_or(|(t, _)| t >= ts);
        if open_then {
          match (closed_by, c.eof) {
            (Some((t, "SERVER_SHUTTING_DOWN")), Some(e)) if t == ts && e == ts => {},
            (Some((t, _)), Some(_)) if t == ts => {},
            other => f.push(format!("C20: [shutdown-not-notified] connection {k} was open at shutdown ({ts}): expected SERVER_SHUTTING_DOWN and close, saw {other:?}")),
          }
        }
      }
    }
    f
  }
}

#[derive(Clone, Copy, PartialEq, Debug)]
enum Ph {
  Fresh,
  Connected,
  Authed,
  Gone,
}

pub async fn run_suite(seed: u64, cases: usize, mode: &str) -> String {
  let mut master = Rng::new(seed ^ 0x7133e5);
  let mut t = String::new();
  let mut fails: Vec<(usize, String)> = Vec::new();
  let mut stats: BTreeMap<String, u64> = BTreeMap::new();
  for case in 0..cases {
    let mut r = master.fork();
    let link = *r.pick(&[Link::C2s, Link::C2s, Link::C2s, Link::S2m, Link::M2s]);
    let ka = *r.pick(&[10u64, 20, 30, 50, 100]);
    let minka = *r.pick(&[1u64, 5, ka / 2, ka]);
    let cfg = TCfg {
      link,
      auth: link == Link::C2s && r.chance(1, 2),
      ct: *r.pick(&[15u64, 40, 100, 250, 600]),
      at: *r.pick(&[15u64, 40, 100, 250, 600]),
      ka,
      minka: minka.max(1),
      pipe: 1 << 20,
    };
    let scenario = if mode == "random" { *r.pick(&["random", "random", "silent", "active", "shutdown", "listener"]) } else { mode };
    let mut w = World::new(cfg.clone()).await;
    let _ = writeln!(t, "case {case}");
    let _ = writeln!(t, "{}", cfg.line());
    let mut ph: BTreeMap<usize, Ph> = BTreeMap::new();
    let mut hbs: BTreeMap<usize, u64> = BTreeMap::new();
    let mut marks: Vec<u64> = Vec::new();
    let mut ent: Vec<(usize, u64, String)> = Vec::new();
    let mut orc = Orc::new(cfg.clone());
    // the sentinel holds the name used for refused IDENTIFYs (C2S without modulator); it is opened outside the transcript
    // numbering only in the sense that it is connection 1 of the case
    macro_rules! op {
      ($line:expr) => {{
        w.yields().await;
        w.collect(&mut ent).await;
        let _ = writeln!(t, "t {}", $line);
        let _ = writeln!(t, "impl {}", obs(&ent));
        orc.observe(&ent);
        for (k, tm, x) in &ent {
          if x == "EOF" {
            ph.insert(*k, Ph::Gone);
          } else if x.starts_with("ACK hb=") {
            let hb: u64 = x[7..].parse().unwrap_or(0);
            hbs.insert(*k, hb);
            if cfg.link == Link::C2s {
              ph.insert(*k, Ph::Connected);
              marks.push(tm + cfg.at);
            } else {
              ph.insert(*k, Ph::Authed);
              marks.push(tm + hb);
              marks.push(tm + 2 * hb);
            }
          } else if x == "AUTH_OK" {
            ph.insert(*k, Ph::Authed);
            let hb = hbs.get(k).copied().unwrap_or(cfg.ka);
            marks.push(tm + hb);
            marks.push(tm + 2 * hb);
          } else if x.starts_with("PING#") {
            let hb = hbs.get(k).copied().unwrap_or(cfg.ka);
            marks.push(tm + 3 * hb);
            marks.push(tm + hb);
          } else if x == "REPLY" {
            let hb = hbs.get(k).copied().unwrap_or(cfg.ka);
            marks.push(tm + hb);
            marks.push(tm + 2 * hb);
          }
        }
        // oracle (implementation only): the announced interval is the requested one clamped to [min, max]
        *stats.entry($line.split(' ').next().unwrap_or("").to_string()).or_insert(0) += 1;
        ent.clear();
      }};
    }
    let hb_menu: Vec<u32> = vec![
      0,
      1,
      cfg.minka.saturating_sub(1) as u32,
      cfg.minka as u32,
      (cfg.minka + 1) as u32,
      ((cfg.minka + cfg.ka) / 2) as u32,
      cfg.ka.saturating_sub(1) as u32,
      cfg.ka as u32,
      (cfg.ka + 1) as u32,
      100_000,
      u32::MAX,
    ];
    let nconn = r.range(1, 3) as usize;
    if cfg.link == Link::C2s && !cfg.auth {
      // sentinel: connection 1, identified as `sentinel`, kept alive by nothing (it will be pinged and time out like the rest)
      let k = w.open();
      orc.c(k).t_open = w.now();
      ph.insert(k, Ph::Fresh);
      marks.push(w.now() + cfg.ct);
      op!(format!("open {k}"));
      orc.c(k).req_hb = Some((w.now(), cfg.ka));
      w.connect(k, cfg.ka as u32).await;
      op!(format!("connect {k} {}", cfg.ka));
      w.send(k, &wire(&Message::Identify(IdentifyParameters { username: "sentinel".into() }), None)).await;
      op!(format!("auth {k} ok"));
    }
    for _ in 0..nconn {
      let k = w.open();
      orc.c(k).t_open = w.now();
      ph.insert(k, Ph::Fresh);
      marks.push(w.now() + cfg.ct);
      op!(format!("open {k}"));
    }
    let steps = match scenario {
      "silent" => r.range(6, 12),
      "active" | "listener" => r.range(14, 30),
      _ => r.range(10, 30),
    };
    let mut did_shutdown = false;
    for step in 0..steps {
      let live: Vec<usize> = ph.iter().filter(|(_, p)| **p != Ph::Gone).map(|(k, _)| *k).collect();
      if live.is_empty() {
        break;
      }
      let now = w.now();
      let pick_dt = |r: &mut Rng, marks: &Vec<u64>| -> u64 {
        let fut: Vec<u64> = marks.iter().copied().filter(|m| *m + 1 > now && *m < now + 2000).collect();
        if !fut.is_empty() && r.chance(3, 4) {
          let m = *r.pick(&fut);
          let tgt = match r.below(3) {
            0 => m.saturating_sub(1),
            1 => m,
            _ => m + 1,
          };
          if tgt > now {
            return tgt - now;
          }
        }
        *r.pick(&[1u64, 2, 3, cfg.ka / 2, cfg.ka, cfg.ka + 1, 3 * cfg.ka])
      };
      let k = *r.pick(&live);
      let p = ph[&k];
      let choice = r.below(100);
      // let some time pass between operations (otherwise most of a case happens in one instant)
      if step > 0 && r.chance(1, 2) {
        let dt = *r.pick(&[1u64, 1, 2, 3, 5, 8, cfg.ka / 3 + 1, cfg.at / 2 + 1]);
        w.advance(dt, &mut ent).await;
        op!(format!("adv {dt}"));
        if ph.get(&k) == Some(&Ph::Gone) {
          continue;
        }
      }
      let p = if ph[&k] != p { ph[&k] } else { p };
      if scenario == "shutdown" && !did_shutdown && (step + 1 == steps || r.chance(1, 6)) {
        w.start_shutdown();
        orc.shutdown_at = Some(w.now());
        did_shutdown = true;
        w.yields().await;
        w.collect(&mut ent).await;
        let complete = w.shutdown_complete();
        let left = w.open_ends();
        if !complete {
          fails.push((case, "C20: [shutdown-incomplete] ConnManager::shutdown did not complete".into()));
        } else if !left.is_empty() {
          fails.push((case, format!("C20: [shutdown-left-open] shutdown completed while connections {left:?} were still open")));
        }
        ent.insert(0, (0, w.now(), format!("complete={}", complete as u8)));
        op!("shutdown".to_string());
        continue;
      }
      match p {
        Ph::Fresh if choice < 75 => {
          let hb = *r.pick(&hb_menu);
          orc.c(k).req_hb = Some((w.now(), hb as u64));
          w.connect(k, hb).await;
          op!(format!("connect {k} {hb}"));
        },
        Ph::Connected if choice < 45 => {
          w.auth(k, true).await;
          op!(format!("auth {k} ok"));
        },
        // (a refused IDENTIFY needs the sentinel to still hold its name)
        Ph::Connected if choice < 65 && (cfg.auth || ph.get(&1) == Some(&Ph::Authed)) => {
          w.auth(k, false).await;
          op!(format!("auth {k} retry"));
        },
        // a listener: sends nothing itself while traffic keeps arriving for it, more often than once per interval
        Ph::Authed if cfg.link == Link::C2s && choice < (if scenario == "listener" { 85 } else { 12 }) => {
          w.push(k).await;
          op!(format!("push {k}"));
          if scenario == "listener" {
            let hb = hbs.get(&k).copied().unwrap_or(cfg.ka).max(2);
            let dt = r.range(1, hb - 1);
            w.advance(dt, &mut ent).await;
            op!(format!("adv {dt}"));
          }
        },
        Ph::Authed if scenario != "listener" && choice < (if scenario == "active" { 60 } else { 32 }) => {
          let tn = w.now();
          orc.c(k).reqs.push(tn);
          w.req(k).await;
          op!(format!("req {k}"));
          if scenario == "active" {
            let hb = hbs.get(&k).copied().unwrap_or(cfg.ka).max(2);
            let dt = r.range(1, hb - 1);
            w.advance(dt, &mut ent).await;
            op!(format!("adv {dt}"));
          }
        },
        Ph::Authed if choice < (if scenario == "silent" { 42 } else if scenario == "listener" { 90 } else { 62 }) => {
          let have = w.ends.get(&k).map(|e| e.ping_ids.len()).unwrap_or(0);
          let n = match r.below(6) {
            0 => 0,
            1 if have > 1 => have - 1,
            2 => have + 1,
            _ => have,
          };
          let tn = w.now();
          orc.c(k).pongs.push((tn, if n <= have { n } else { 0 }));
          w.pong(k, n).await;
          op!(format!("pong {k} {n}"));
        },
        _ if choice >= 97 => {
          w.close(k);
          orc.c(k).client_closed = Some(w.now());
          ph.insert(k, Ph::Gone);
          op!(format!("close {k}"));
        },
        _ => {
          let dt = pick_dt(&mut r, &marks).clamp(1, 1500);
          w.advance(dt, &mut ent).await;
          op!(format!("adv {dt}"));
        },
      }
    }
    // let every remaining deadline pass, then (unless done) shut down: nothing may be left open
    let dt = 4 * cfg.ka + cfg.ct.max(cfg.at) + 2;
    w.advance(dt, &mut ent).await;
    op!(format!("adv {dt}"));
    if !did_shutdown {
      orc.shutdown_at = Some(w.now());
      w.start_shutdown();
      w.yields().await;
      w.collect(&mut ent).await;
      let complete = w.shutdown_complete();
      let left = w.open_ends();
      if !complete {
        fails.push((case, "C20: [shutdown-incomplete] ConnManager::shutdown did not complete".into()));
      } else if !left.is_empty() {
        fails.push((case, format!("C20: [shutdown-left-open] shutdown completed while connections {left:?} were still open")));
      }
      ent.insert(0, (0, w.now(), format!("complete={}", complete as u8)));
      op!("shutdown".to_string());
    }
    for v in orc.verdict(w.now()) {
      fails.push((case, v));
    }
  }
  for (case, f) in &fails {
    let _ = writeln!(t, "oracle-failure case={case} {f}");
  }
  let _ = writeln!(
    t,
    "stats {{\"suite\":\"timers\",\"seed\":{},\"cases\":{},\"ops\":{},\"oracle_failures\":{}}}",
    seed,
    cases,
    crate::js_map(&stats),
    fails.len()
  );
  t
}
