//! Suite `client_mt` (C16, oracle-only, real time, multi-thread runtime): many requests of one real `Client` time out in
//! the same timer tick on several worker threads (their drop guards contend for the pending table), repeatedly; then a
//! healthy phase must be able to have the whole negotiated window in flight at once.
//! This is a stress search for what the single-threaded correspondence suite cannot exhibit (thread interleavings inside
//! the engine); it is not part of the proof.
use std::fmt::Write as _;
use std::sync::atomic::{AtomicUsize, Ordering};
use std::sync::{Arc, Mutex};
use std::time::Duration;

use narwhal_common::client::{Client, Config as CConfig, Handshaker, SessionInfo};
use narwhal_common::service::S2mService;
use narwhal_protocol::*;
use narwhal_util::conn::Dialer;
use tokio::io::{AsyncReadExt, DuplexStream};
use tokio_util::compat::{Compat, TokioAsyncReadCompatExt};

#[derive(Clone)]
struct HS(u32);
#[async_trait::async_trait]
impl Handshaker<Compat<DuplexStream>> for HS {
  type SessionExtraInfo = ();
  async fn handshake(&self, _s: &mut Compat<DuplexStream>) -> anyhow::Result<(SessionInfo, ())> {
    Ok((SessionInfo { heartbeat_interval: 3_600_000, max_inflight_requests: self.0, max_message_size: 4096, max_payload_size: 1024 }, ()))
  }
}
struct D(Mutex<Option<DuplexStream>>);
#[async_trait::async_trait]
impl Dialer for D {
  type Stream = Compat<DuplexStream>;
  async fn dial(&self) -> anyhow::Result<Self::Stream> {
    match self.0.lock().unwrap().take() {
      Some(s) => Ok(s.compat()),
      None => anyhow::bail!("no more connections"),
    }
  }
}

pub fn run_suite(seed: u64, cases: usize) -> String {
  let mut t = String::new();
  let mut fails: Vec<(usize, String)> = Vec::new();
  let rt = tokio::runtime::Builder::new_multi_thread().worker_threads(8).enable_all().build().unwrap();
  for case in 0..cases {
    let window = [16u32, 64, 128][(seed as usize + case) % 3];
    let timeout_ms = 150u64;
    let (usable, rounds) = rt.block_on(async move {
      let (cl, mut peer) = tokio::io::duplex(1 << 22);
      let client: Arc<Client<Compat<DuplexStream>, HS, S2mService>> = Arc::new(
        Client::new(
          "mt",
          CConfig {
            max_idle_connections: 1,
            heartbeat_interval: Duration::from_secs(3600),
            connect_timeout: Duration::from_secs(1),
            timeout: Duration::from_millis(timeout_ms),
            payload_read_timeout: Duration::from_secs(1),
            backoff_initial_delay: Duration::from_millis(10),
            backoff_max_delay: Duration::from_millis(10),
            backoff_max_retries: 1,
          },
          Arc::new(D(Mutex::new(Some(cl)))),
          HS(window),
        )
        .unwrap(),
      );
      // the peer swallows everything and counts the requests it is sent
      let seen = Arc::new(AtomicUsize::new(0));
      let seen2 = seen.clone();
      tokio::spawn(async move {
        let mut buf = vec![0u8; 65536];
        loop {
          match peer.read(&mut buf).await {
            Ok(0) | Err(_) => break,
            Ok(n) => {
              seen2.fetch_add(buf[..n].iter().filter(|b| **b == b'\n').count(), Ordering::SeqCst);
            },
          }
        }
      });
      let mut next_id = 1u32;
      let rounds = 4;
      for _ in 0..rounds {
        // a burst of 4 windows' worth of requests against a peer that never answers: they all time out together
        let mut hs = Vec::new();
        for _ in 0..(4 * window) {
          let id = next_id;
          next_id += 1;
          let c = client.clone();
          hs.push(tokio::spawn(async move {
            match c.send_message(Message::S2mAuth(S2mAuthParameters { id, token: "t".into() }), None).await {
              Ok(h) => {
                let _ = h.await;
              },
              Err(_) => {},
            }
          }));
        }
        for h in hs {
          let _ = h.await;
        }
        tokio::time::sleep(Duration::from_millis(30)).await;
      }
      // healthy phase: with nothing in flight, a whole window of requests must be written at once
      let before = seen.load(Ordering::SeqCst);
      let mut hs = Vec::new();
      for _ in 0..window {
        let id = next_id;
        next_id += 1;
        let c = client.clone();
        hs.push(tokio::spawn(async move {
          if let Ok(h) = c.send_message(Message::S2mAuth(S2mAuthParameters { id, token: "t".into() }), None).await {
            let _ = h.await;
          }
        }));
      }
      tokio::time::sleep(Duration::from_millis(timeout_ms * 2 / 3)).await;
      let usable = seen.load(Ordering::SeqCst) - before;
      for h in hs {
        let _ = h.await;
      }
      (usable, rounds)
    });
    let _ = writeln!(t, "case {case} window={window} rounds={rounds} usable={usable}");
    if usable < window as usize {
      fails.push((case, format!(
        "C16: [window-shrunk-after-timeouts] after {rounds} rounds of {} requests timing out together only {usable} of the {window} negotiated in-flight slots can be used at once",
        4 * window
      )));
    }
  }
  for (case, f) in &fails {
    let _ = writeln!(t, "oracle-failure case={case} {f}");
  }
  let _ = writeln!(t, "stats {{\"suite\":\"client_mt\",\"seed\":{seed},\"cases\":{cases},\"oracle_failures\":{}}}", fails.len());
  t
}
