//! Correspondence suite `srv`: random histories against the real server; transcript for the Lean model.
use std::collections::BTreeMap;
use std::fmt::Write as _;

use narwhal_modulator::modulator::Operation;
use narwhal_protocol::*;

use crate::rng::{Rng, hex, xhex};
use crate::srv::*;

#[derive(Clone, Debug)]
pub enum Req {
  Connect { version: u16, hb: u32 },
  Identify { username: String },
  Auth { token: String },
  Join { id: u32, chan: String, ob: Option<String> },
  Leave { id: u32, chan: String, ob: Option<String> },
  Broadcast { id: u32, chan: String, qos: Option<u8>, payload: Vec<u8> },
  Members { id: u32, chan: String, page: Option<u32>, size: Option<u32> },
  Channels { id: u32, page: Option<u32>, size: Option<u32>, owner: bool },
  GetAcl { id: u32, chan: String, ty: &'static str, page: Option<u32>, size: Option<u32> },
  SetAcl { id: u32, chan: String, ty: &'static str, act: &'static str, nids: Vec<String> },
  GetConfig { id: u32, chan: String },
  SetConfig { id: u32, chan: String, mc: u32, mp: u32 },
  ModDirect { id: Option<u32>, payload: Vec<u8> },
  Other { kind: &'static str, wire: Vec<u8> },
  Malformed { wire: Vec<u8> },
}

fn opt<T: ToString>(o: &Option<T>) -> String {
  o.as_ref().map(|x| x.to_string()).unwrap_or_else(|| "-".into())
}
fn xopt(o: &Option<String>) -> String {
  o.as_ref().map(|x| xhex(x.as_bytes())).unwrap_or_else(|| "-".into())
}

impl Req {
  /// the request as the model's line protocol names it
  pub fn model(&self) -> String {
    match self {
      Req::Connect { version, hb } => format!("connect {version} {hb}"),
      Req::Identify { username } => format!("identify {}", xhex(username.as_bytes())),
      Req::Auth { token } => format!("auth {}", xhex(token.as_bytes())),
      Req::Join { id, chan, ob } => format!("join {id} {} {}", xhex(chan.as_bytes()), xopt(ob)),
      Req::Leave { id, chan, ob } => format!("leave {id} {} {}", xhex(chan.as_bytes()), xopt(ob)),
      Req::Broadcast { id, chan, qos, payload } => {
        format!("broadcast {id} {} {} {}", xhex(chan.as_bytes()), opt(qos), xhex(payload))
      },
      Req::Members { id, chan, page, size } => {
        format!("members {id} {} {} {}", xhex(chan.as_bytes()), opt(page), opt(size))
      },
      Req::Channels { id, page, size, owner } => format!("channels {id} {} {} {}", opt(page), opt(size), *owner as u8),
      Req::GetAcl { id, chan, ty, page, size } => {
        format!("getacl {id} {} {ty} {} {}", xhex(chan.as_bytes()), opt(page), opt(size))
      },
      Req::SetAcl { id, chan, ty, act, nids } => {
        let mut s = format!("setacl {id} {} {ty} {act} {}", xhex(chan.as_bytes()), nids.len());
        for n in nids {
          let _ = write!(s, " {}", xhex(n.as_bytes()));
        }
        s
      },
      Req::GetConfig { id, chan } => format!("getconfig {id} {}", xhex(chan.as_bytes())),
      Req::SetConfig { id, chan, mc, mp } => format!("setconfig {id} {} {mc} {mp}", xhex(chan.as_bytes())),
      Req::ModDirect { id, payload } => format!("moddirect {} {}", opt(id), xhex(payload)),
      Req::Other { kind, .. } => format!("other {kind}"),
      Req::Malformed { .. } => "malformed".into(),
    }
  }

  pub fn kind_name(&self) -> &'static str {
    match self {
      Req::Connect { .. } => "connect",
      Req::Identify { .. } => "identify",
      Req::Auth { .. } => "auth",
      Req::Join { ob: Some(_), .. } => "join-onbehalf",
      Req::Join { .. } => "join",
      Req::Leave { ob: Some(_), .. } => "leave-onbehalf",
      Req::Leave { .. } => "leave",
      Req::Broadcast { .. } => "broadcast",
      Req::Members { .. } => "members",
      Req::Channels { .. } => "channels",
      Req::GetAcl { .. } => "getacl",
      Req::SetAcl { .. } => "setacl",
      Req::GetConfig { .. } => "getconfig",
      Req::SetConfig { .. } => "setconfig",
      Req::ModDirect { .. } => "moddirect",
      Req::Other { .. } => "other",
      Req::Malformed { .. } => "malformed",
    }
  }

  /// the bytes a client puts on the wire for it (built with the real encoder); None if unencodable
  pub fn wire(&self) -> Option<Vec<u8>> {
    let (msg, payload): (Message, Option<&[u8]>) = match self {
      Req::Connect { version, hb } => {
        (Message::Connect(ConnectParameters { protocol_version: *version, heartbeat_interval: *hb }), None)
      },
      Req::Identify { username } => (Message::Identify(IdentifyParameters { username: username.as_str().into() }), None),
      Req::Auth { token } => (Message::Auth(AuthParameters { token: token.as_str().into() }), None),
      Req::Join { id, chan, ob } => (
        Message::JoinChannel(JoinChannelParameters {
          id: *id,
          channel: chan.as_str().into(),
          on_behalf: ob.as_ref().map(|s| s.as_str().into()),
        }),
        None,
      ),
      Req::Leave { id, chan, ob } => (
        Message::LeaveChannel(LeaveChannelParameters {
          id: *id,
          channel: chan.as_str().into(),
          on_behalf: ob.as_ref().map(|s| s.as_str().into()),
        }),
        None,
      ),
      Req::Broadcast { id, chan, qos, payload } => {
        // written by hand so that invalid qos / empty payloads can be put on the wire too
        let mut v = format!("BROADCAST id={id} channel={chan} length={}", payload.len()).into_bytes();
        if let Some(q) = qos {
          v.extend_from_slice(format!(" qos={q}").as_bytes());
        }
        v.push(b'\n');
        if !payload.is_empty() {
          v.extend_from_slice(payload);
          v.push(b'\n');
        }
        if chan.contains(char::is_whitespace) || chan.is_empty() {
          return None;
        }
        return Some(v);
      },
      Req::Members { id, chan, page, size } => (
        Message::ListMembers(ListMembersParameters { id: *id, channel: chan.as_str().into(), page: *page, page_size: *size }),
        None,
      ),
      Req::Channels { id, page, size, owner } => {
        (Message::ListChannels(ListChannelsParameters { id: *id, page: *page, page_size: *size, owner: *owner }), None)
      },
      Req::GetAcl { id, chan, ty, page, size } => (
        Message::GetChannelAcl(GetChannelAclParameters {
          id: *id,
          channel: chan.as_str().into(),
          r#type: (*ty).into(),
          page: *page,
          page_size: *size,
        }),
        None,
      ),
      Req::SetAcl { id, chan, ty, act, nids } => (
        Message::SetChannelAcl(SetChannelAclParameters {
          id: *id,
          channel: chan.as_str().into(),
          r#type: (*ty).into(),
          action: (*act).into(),
          nids: nids.iter().map(|s| s.as_str().into()).collect(),
        }),
        None,
      ),
      Req::GetConfig { id, chan } => {
        (Message::GetChannelConfiguration(GetChannelConfigurationParameters { id: *id, channel: chan.as_str().into() }), None)
      },
      Req::SetConfig { id, chan, mc, mp } => (
        Message::SetChannelConfiguration(SetChannelConfigurationParameters {
          id: *id,
          channel: chan.as_str().into(),
          max_clients: *mc,
          max_payload_size: *mp,
        }),
        None,
      ),
      Req::ModDirect { id, payload } => (
        Message::ModDirect(ModDirectParameters { id: *id, from: "x".into(), length: payload.len() as u32 }),
        Some(&payload[..]),
      ),
      Req::Other { wire, .. } => return Some(wire.clone()),
      Req::Malformed { wire } => return Some(wire.clone()),
    };
    let mut buf = vec![0u8; 16384];
    let n = serialize(&msg, &mut buf).ok()?;
    let mut v = buf[..n].to_vec();
    if let Some(p) = payload {
      v.extend_from_slice(p);
      v.push(b'\n');
    }
    Some(v)
  }
}

#[derive(Clone, Debug)]
pub enum Op {
  Open,
  Close(usize),
  Recv(usize, Req),
}

#[derive(Clone, Debug, Default)]
pub struct EnvS {
  /// the modulator link is lost while this operation is handled: every call fails, `operations()` and `protocol_name()` too
  pub down: bool,
  /// the modulator refuses the hand-over announcement of this operation (only drawn for LEAVE and close operations)
  pub handover_fail: bool,
  pub ev_ok: bool,
  pub verdict: Option<VerdictS>,
  pub auth: Option<AuthS>,
  pub direct: Option<Option<bool>>,
}

impl EnvS {
  /// membership events may be missing although memberships changed (the modulator refused them or could not be reached)
  pub fn quiet(&self) -> bool {
    !self.ev_ok || self.down || self.handover_fail
  }
  fn line(&self, owners: &[(String, String)]) -> String {
    let mut s = format!("env evok={}", self.ev_ok as u8);
    if self.down {
      s.push_str(" down=1");
    }
    if self.handover_fail {
      s.push_str(" handover=0");
    }
    if !owners.is_empty() {
      let _ = write!(s, " owners={}", owners.iter().map(|(c, u)| format!("{c}:{u}")).collect::<Vec<_>>().join(","));
    }
    match &self.verdict {
      None | Some(VerdictS::Valid) => {},
      Some(VerdictS::Invalid) => s.push_str(" verdict=invalid"),
      Some(VerdictS::Failed) | Some(VerdictS::Down) => s.push_str(" verdict=failed"),
      Some(VerdictS::Altered(p)) => {
        let _ = write!(s, " verdict=altered:{}", xhex(p));
      },
    }
    match &self.auth {
      None | Some(AuthS::Failure) => {},
      Some(AuthS::Failed) => s.push_str(" auth=failed"),
      Some(AuthS::Success(u)) => {
        let _ = write!(s, " auth=success:{}", xhex(u.as_bytes()));
      },
      Some(AuthS::Continue(c)) => {
        let _ = write!(s, " auth=continue:{}", xhex(c.as_bytes()));
      },
    }
    match self.direct {
      None | Some(Some(true)) => {},
      Some(Some(false)) => s.push_str(" direct=invalid"),
      Some(None) => s.push_str(" direct=fail"),
    }
    s
  }
}

/// generator-side view of a connection (only used to make most operations meaningful)
#[derive(Clone, Debug)]
struct GConn {
  phase: u8,
  user: Option<String>,
  open: bool,
}

pub struct Gen {
  pub rng: Rng,
  pub cfg: SrvCfg,
  /// scripted operations that run before anything random (scenario modes)
  pub plan: std::collections::VecDeque<(Op, EnvS)>,
  pub mode: String,
  /// the failing notification of the current operation cannot hide any membership change (drift mode)
  pub harmless_quiet: bool,
  conns: BTreeMap<usize, GConn>,
  next_id: u32,
  next_conn: usize,
  pub stats: BTreeMap<String, u64>,
}

const USERS: &[&str] = &["alice", "bob", "carol", "dave", "eve"];
const ODD_USERS: &[&str] =
  &["  alice  ", "al ice", "", "   ", "bob@x", "ünï.cødé_-", "a\u{0301}", "x\u{00a0}", "Ⅷ", "٣", "\u{3000}zed\u{2003}", "-._"];
const CHANS: &[&str] = &["!c1@localhost", "!c2@localhost", "!c3@localhost", "!c4@localhost", "!c5@localhost"];
const ODD_CHANS: &[&str] = &[
  "!c1@example.com",
  "c1@localhost",
  "!@localhost",
  "!c 1@localhost",
  "!c1",
  "!c1@",
  "!c-1@localhost",
  "!ünï@localhost",
  "!c1@local host",
  "!c1@sub.example.org:8080",
  "!c1@[::1]",
  "!c1@10.0.0.1",
  "!c1@bad..dom",
  "!c9@localhost",
];
const ODD_NIDS: &[&str] = &[
  "alice@example.com",
  "example.com",
  "localhost",
  "zed@localhost",
  "@localhost",
  "a b@localhost",
  "bob@",
  "bob@nodot",
  "carol@sub.example.org",
  "other.org",
  "al!ce@localhost",
];

impl Gen {
  pub fn new(rng: Rng, cfg: SrvCfg) -> Self {
    Gen {
      rng,
      cfg,
      plan: Default::default(),
      harmless_quiet: false,
      mode: "random".into(),
      conns: BTreeMap::new(),
      next_id: 1,
      next_conn: 1,
      stats: BTreeMap::new(),
    }
  }

  fn ok_env() -> EnvS {
    EnvS { ev_ok: true, ..Default::default() }
  }

  /// scenario `acl`: an owner and members in one channel, then rounds of ACL updates each followed by
  /// read-back and probes (broadcasts by members, join attempts by an outsider) with no membership
  /// change in between
  pub fn plan_acl_setup(&mut self) {
    self.mode = "acl".into();
    let users = ["alice", "bob", "carol", "dave"];
    for (i, u) in users.iter().enumerate() {
      let k = i + 1;
      self.plan.push_back((Op::Open, Self::ok_env()));
      self.conns.insert(k, GConn { phase: 2, user: Some(u.to_string()), open: true });
      self.plan.push_back((Op::Recv(k, Req::Connect { version: 1, hb: 0 }), Self::ok_env()));
      if self.cfg.has_op(Operation::Auth) {
        let mut e = Self::ok_env();
        e.auth = Some(AuthS::Success(u.to_string()));
        self.plan.push_back((Op::Recv(k, Req::Auth { token: "t".into() }), e));
      } else {
        self.plan.push_back((Op::Recv(k, Req::Identify { username: u.to_string() }), Self::ok_env()));
      }
    }
    self.next_conn = 5;
    for k in 1..=3usize {
      let id = self.id();
      self.plan.push_back((Op::Recv(k, Req::Join { id, chan: "!c1@localhost".into(), ob: None }), Self::ok_env()));
    }
  }

  /// replay of the known finding `cleanup-event-lost-when-forwarding-fails` (C05, C18): the last connection of a
  /// member ends while the modulator refuses the forwarded MEMBER_LEFT event
  pub fn plan_kf_cleanup(&mut self) {
    self.mode = "kf_cleanup".into();
    for (i, u) in ["alice", "bob"].iter().enumerate() {
      let k = i + 1;
      self.plan.push_back((Op::Open, Self::ok_env()));
      self.conns.insert(k, GConn { phase: 2, user: Some(u.to_string()), open: true });
      self.plan.push_back((Op::Recv(k, Req::Connect { version: 1, hb: 0 }), Self::ok_env()));
      self.plan.push_back((Op::Recv(k, Req::Identify { username: u.to_string() }), Self::ok_env()));
      let id = self.id();
      self.plan.push_back((Op::Recv(k, Req::Join { id, chan: "!c1@localhost".into(), ob: None }), Self::ok_env()));
    }
    self.next_conn = 3;
    let mut e = Self::ok_env();
    e.ev_ok = false;
    self.plan.push_back((Op::Close(2), e));
    let id = self.id();
    self.plan.push_back((Op::Recv(1, Req::Members { id, chan: "!c1@localhost".into(), page: None, size: None }), Self::ok_env()));
  }

  /// churn prologue (event-forwarding modulator, IDENTIFY): an owner with another member in its channel goes away while
  /// the modulator refuses the notifications of its clean-up; then the same name identifies again on a new connection
  pub fn plan_name_reuse_after_failed_cleanup(&mut self) {
    for (i, u) in ["alice", "bob"].iter().enumerate() {
      let k = i + 1;
      self.plan.push_back((Op::Open, Self::ok_env()));
      self.conns.insert(k, GConn { phase: 2, user: Some(u.to_string()), open: true });
      self.plan.push_back((Op::Recv(k, Req::Connect { version: 1, hb: 0 }), Self::ok_env()));
      self.plan.push_back((Op::Recv(k, Req::Identify { username: u.to_string() }), Self::ok_env()));
      let id = self.id();
      self.plan.push_back((Op::Recv(k, Req::Join { id, chan: "!c1@localhost".into(), ob: None }), Self::ok_env()));
    }
    let mut e = Self::ok_env();
    e.ev_ok = false;
    self.plan.push_back((Op::Close(1), e));
    self.conns.insert(1, GConn { phase: 2, user: Some("alice".into()), open: false });
    self.plan.push_back((Op::Open, Self::ok_env()));
    self.conns.insert(3, GConn { phase: 2, user: Some("alice".into()), open: true });
    self.plan.push_back((Op::Recv(3, Req::Connect { version: 1, hb: 0 }), Self::ok_env()));
    self.plan.push_back((Op::Recv(3, Req::Identify { username: "alice".into() }), Self::ok_env()));
    let id = self.id();
    self.plan.push_back((Op::Recv(3, Req::Channels { id, page: None, size: None, owner: false }), Self::ok_env()));
    self.next_conn = 4;
  }

  /// scenario `acl`, after a scripted connection was closed by the server (typically the owner, refused with a
  /// non-recoverable POLICY_VIOLATION for an over-limit update): the survivors read every list back and probe,
  /// so that a refused update that nevertheless took effect is seen
  pub fn plan_acl_aftermath(&mut self) {
    self.mode = "acl_aftermath".into();
    self.plan.clear();
    let chan = "!c1@localhost".to_string();
    let live: Vec<usize> = self.conns.iter().filter(|(k, c)| c.open && **k <= 4).map(|(k, _)| *k).collect();
    for t in ["join", "publish", "read"] {
      for k in &live {
        let id = self.id();
        self.plan.push_back((Op::Recv(*k, Req::GetAcl { id, chan: chan.clone(), ty: t, page: None, size: None }), Self::ok_env()));
        self.bump("getacl");
      }
    }
    for k in &live {
      let id = self.id();
      let mut env = Self::ok_env();
      if self.cfg.modulator.is_some() {
        env.verdict = Some(VerdictS::Valid);
      }
      let payload = format!("after{}-{}", id, k).into_bytes();
      self.plan.push_back((Op::Recv(*k, Req::Broadcast { id, chan: chan.clone(), qos: None, payload }), env));
      self.bump("broadcast");
      let id = self.id();
      self.plan.push_back((Op::Recv(*k, Req::Join { id, chan: chan.clone(), ob: None }), Self::ok_env()));
      self.bump("join");
    }
  }

  /// a read list that permits exactly the current members, then an outsider joins (if the join list lets it) and the
  /// members broadcast: the newcomer is a member but not a reader
  fn plan_acl_late_joiner(&mut self) {
    let chan = "!c1@localhost".to_string();
    let id = self.id();
    let nids: Vec<String> = ["alice@localhost", "bob@localhost", "carol@localhost"].iter().map(|s| s.to_string()).collect();
    self.plan.push_back((Op::Recv(1, Req::SetAcl { id, chan: chan.clone(), ty: "read", act: "add", nids }), Self::ok_env()));
    self.bump("setacl");
    if self.rng.chance(1, 2) {
      // make sure the outsider is not kept out by the join list
      let id = self.id();
      self.plan.push_back((Op::Recv(1, Req::SetAcl { id, chan: chan.clone(), ty: "join", act: "add", nids: vec!["dave@localhost".into()] }), Self::ok_env()));
      self.bump("setacl");
    }
    let id = self.id();
    self.plan.push_back((Op::Recv(1, Req::GetAcl { id, chan: chan.clone(), ty: "read", page: None, size: None }), Self::ok_env()));
    self.bump("getacl");
    let id = self.id();
    self.plan.push_back((Op::Recv(4, Req::Join { id, chan: chan.clone(), ob: None }), Self::ok_env()));
    self.bump("join");
    for k in 1..=2usize {
      let id = self.id();
      let mut env = Self::ok_env();
      if self.cfg.modulator.is_some() {
        env.verdict = Some(VerdictS::Valid);
      }
      let payload = format!("late{}-{}", id, k).into_bytes();
      self.plan.push_back((Op::Recv(k, Req::Broadcast { id, chan: chan.clone(), qos: None, payload }), env));
      self.bump("broadcast");
    }
    let id = self.id();
    self.plan.push_back((Op::Recv(4, Req::Leave { id, chan: chan.clone(), ob: None }), Self::ok_env()));
    self.bump("leave");
  }

  fn plan_acl_round(&mut self) {
    if self.rng.chance(1, 5) {
      self.plan_acl_late_joiner();
      return;
    }
    let chan = "!c1@localhost".to_string();
    let ty = *self.rng.pick(&["join", "publish", "read", "read"]);
    let act = if self.rng.chance(3, 5) { "add" } else { "remove" };
    let pool = [
      "alice@localhost", "bob@localhost", "carol@localhost", "dave@localhost", "localhost", "example.com",
      "bob@example.com", "zed@localhost", "other.org", "dave@other.org",
    ];
    let n = self.rng.range(0, 3);
    let nids: Vec<String> = (0..n).map(|_| self.rng.pick(&pool).to_string()).collect();
    let id = self.id();
    // mostly the owner (connection 1) edits; sometimes somebody else tries
    let who = if self.rng.chance(1, 10) { self.rng.range(2, 4) as usize } else { 1 };
    self.plan.push_back((Op::Recv(who, Req::SetAcl { id, chan: chan.clone(), ty, act, nids }), Self::ok_env()));
    self.bump("setacl");
    for t in ["join", "publish", "read"] {
      if t == ty || self.rng.chance(1, 4) {
        let id = self.id();
        let (page, size) = if self.rng.chance(1, 5) { (self.page(), self.size()) } else { (None, None) };
        self.plan.push_back((Op::Recv(1, Req::GetAcl { id, chan: chan.clone(), ty: t, page, size }), Self::ok_env()));
        self.bump("getacl");
      }
    }
    // probes
    for k in 1..=3usize {
      if self.rng.chance(2, 3) {
        let id = self.id();
        let mut env = Self::ok_env();
        if self.cfg.modulator.is_some() {
          env.verdict = Some(VerdictS::Valid);
        }
        let payload = format!("p{}-{}", id, k).into_bytes();
        let qos = if self.rng.chance(1, 4) { Some(0) } else { None };
        self.plan.push_back((Op::Recv(k, Req::Broadcast { id, chan: chan.clone(), qos, payload }), env));
        self.bump("broadcast");
      }
    }
    if self.rng.chance(1, 2) {
      // outsider probes the join list, and leaves again if admitted (a membership change: rebuilds caches)
      let id = self.id();
      self.plan.push_back((Op::Recv(4, Req::Join { id, chan: chan.clone(), ob: None }), Self::ok_env()));
      self.bump("join");
      if self.rng.chance(1, 2) {
        let id = self.id();
        self.plan.push_back((Op::Recv(4, Req::Leave { id, chan: chan.clone(), ob: None }), Self::ok_env()));
        self.bump("leave");
      }
    } else if self.rng.chance(1, 4) {
      let id = self.id();
      let ob = Some("dave@localhost".to_string());
      self.plan.push_back((Op::Recv(1, Req::Join { id, chan: chan.clone(), ob }), Self::ok_env()));
      self.bump("join-onbehalf");
    }
  }
  fn id(&mut self) -> u32 {
    let i = self.next_id;
    self.next_id += 1;
    if self.rng.chance(1, 60) { *self.rng.pick(&[1u32, 7, u32::MAX]) } else { i }
  }
  fn chan(&mut self) -> String {
    if self.rng.chance(1, 30) { (*self.rng.pick(ODD_CHANS)).into() } else { (*self.rng.pick(&CHANS[..4])).into() }
  }
  fn nid(&mut self) -> String {
    if self.rng.chance(1, 5) {
      (*self.rng.pick(ODD_NIDS)).into()
    } else {
      format!("{}@{}", self.rng.pick(USERS), self.cfg.domain)
    }
  }
  fn page(&mut self) -> Option<u32> {
    match self.rng.below(8) {
      0 => Some(0),
      1 => Some(1),
      2 => Some(2),
      3 => Some(u32::MAX),
      4 => Some(3),
      _ => None,
    }
  }
  fn size(&mut self) -> Option<u32> {
    match self.rng.below(8) {
      0 => Some(0),
      1 => Some(1),
      2 => Some(2),
      3 => Some(u32::MAX),
      4 => Some(1000),
      _ => None,
    }
  }
  fn payload(&mut self) -> Vec<u8> {
    let max = self.cfg.max_payload as u64;
    let len = match self.rng.below(40) {
      0 | 7 => 1,
      1 | 8 => max,
      2 => max + 1,
      3 | 9 => 255,
      4 | 10 => 256,
      5 | 11 => 257,
      6 => 0,
      _ => self.rng.range(1, 24),
    }
    .min(max + 1);
    let mut v = Vec::with_capacity(len as usize);
    let tag = self.rng.next();
    for i in 0..len {
      v.push(match self.rng.below(10) {
        0 => b'\n',
        1 => 0,
        2 => b'J',
        _ => (tag.wrapping_mul(i + 1) >> 7) as u8,
      });
    }
    v
  }
  fn bump(&mut self, k: &str) {
    *self.stats.entry(k.into()).or_insert(0) += 1;
  }

  pub fn note_closed(&mut self, k: usize) {
    if let Some(c) = self.conns.get_mut(&k) {
      c.open = false;
    }
  }
  pub fn note_phase(&mut self, k: usize, phase: u8, user: Option<String>) {
    if let Some(c) = self.conns.get_mut(&k) {
      c.phase = phase;
      if user.is_some() {
        c.user = user;
      }
    }
  }

  /// next operation and the environment it runs in
  pub fn next(&mut self, view: &crate::oracle::Oracle) -> (Op, EnvS) {
    if self.plan.is_empty() && self.mode == "acl" {
      self.plan_acl_round();
    }
    if let Some(x) = self.plan.pop_front() {
      return x;
    }
    self.harmless_quiet = false;
    let mut env = EnvS { ev_ok: true, ..Default::default() };
    if self.cfg.has_op(Operation::ForwardEvent) && self.rng.chance(1, 12) {
      env.ev_ok = false;
    }
    // the modulator link is lost while this operation (whatever it is: handshake, request, close) is handled
    if self.cfg.modulator.is_some() && self.rng.chance(1, 24) {
      env.down = true;
    }
    let open: Vec<usize> = self.conns.iter().filter(|(_, c)| c.open).map(|(k, _)| *k).collect();
    if open.is_empty() || (open.len() < 3 && self.rng.chance(1, 2)) || (open.len() < 7 && self.rng.chance(1, 25)) {
      let k = self.next_conn;
      self.next_conn += 1;
      self.conns.insert(k, GConn { phase: 0, user: None, open: true });
      self.bump("open");
      return (Op::Open, env);
    }
    let k = *self.rng.pick(&open);
    let c = self.conns[&k].clone();
    let churn = self.mode == "churn" || self.mode == "drift";
    if self.rng.chance(1, if churn && c.phase == 2 { 10 } else { 45 }) {
      self.bump("close");
      if self.cfg.has_op(Operation::ForwardEvent) && self.rng.chance(1, 8) {
        env.handover_fail = true;
      }
      return (Op::Close(k), env);
    }
    let req = match c.phase {
      0 => {
        if self.rng.chance(9, 10) {
          let hb = *self.rng.pick(&[0u32, 1, 500, 999, 1000, 5000, 3_600_000, 3_600_001, u32::MAX]);
          let version = if self.rng.chance(1, 15) { *self.rng.pick(&[2u16, 0, 65535]) } else { 1 };
          self.bump("connect");
          if version == 0 {
            Req::Malformed { wire: format!("CONNECT version=0 heartbeat_interval={hb}\n").into_bytes() }
          } else {
            Req::Connect { version, hb }
          }
        } else {
          self.pre_auth_noise()
        }
      },
      1 => {
        if self.cfg.has_op(Operation::Auth) {
          if env.down && self.rng.chance(1, 2) {
            // IDENTIFY while the modulator cannot be asked anything: still refused in modulator-auth mode
            self.bump("identify");
            Req::Identify { username: (*self.rng.pick(USERS)).into() }
          } else if self.rng.chance(9, 10) {
            let r = self.rng.below(10);
            env.auth = Some(match r {
              0 => AuthS::Failure,
              1 => AuthS::Continue("ch4llenge".into()),
              2 => AuthS::Failed,
              3 => AuthS::Success((*self.rng.pick(ODD_USERS)).into()),
              _ if churn => AuthS::Success((*self.rng.pick(&USERS[..3])).into()),
              _ => AuthS::Success((*self.rng.pick(USERS)).into()),
            });
            self.bump("auth");
            Req::Auth { token: format!("tok{}", self.rng.below(100)) }
          } else {
            self.pre_auth_noise()
          }
        } else if self.rng.chance(9, 10) {
          self.bump("identify");
          let username: String = if churn {
            (*self.rng.pick(&USERS[..3])).into()
          } else if self.rng.chance(1, 6) {
            (*self.rng.pick(ODD_USERS)).into()
          } else {
            (*self.rng.pick(USERS)).into()
          };
          Req::Identify { username }
        } else {
          self.pre_auth_noise()
        }
      },
      _ if churn => {
        let me = c.user.clone().unwrap_or_default();
        let r = self.churn_req(&mut env, view, &me);
        if self.mode == "drift" {
          // a JOIN by a user who is in no channel fails in the modulator (rolled back; the requester is disconnected, its clean-up
          // has nothing to announce): such failures must not cost a channel, member or subscription slot
          let lonely = !view.members.values().any(|m| m.contains(&me));
          env.ev_ok = true;
          env.down = false;
          self.harmless_quiet = false;
          if lonely && matches!(r, Req::Join { ob: None, .. }) && self.rng.chance(1, 2) {
            if self.rng.chance(1, 2) {
              env.ev_ok = false;
            } else {
              env.down = true;
            }
            self.harmless_quiet = true;
          }
        }
        r
      },
      _ => self.authed_req(&mut env, view, c.user.as_deref().unwrap_or("")),
    };
    if matches!(req, Req::Leave { .. }) && self.cfg.has_op(Operation::ForwardEvent) && self.rng.chance(1, 8) {
      env.handover_fail = true;
    }
    (Op::Recv(k, req), env)
  }

  /// scenario `churn`: three users, two channels; kicks, disconnects, same-name reconnects, hand-overs and
  /// broadcasts dominate, so that stale membership / stale index / ghost-member histories are dense
  fn churn_req(&mut self, env: &mut EnvS, view: &crate::oracle::Oracle, me: &str) -> Req {
    let id = self.id();
    let dom = self.cfg.domain.clone();
    let chans = ["c1", "c2"];
    let mine: Vec<String> = view.members.iter().filter(|(_, m)| m.contains(me)).map(|(h, _)| h.clone()).collect();
    let owned: Vec<String> = mine.iter().filter(|h| view.owner.get(*h).map(|o| o.as_str()) == Some(me)).cloned().collect();
    let full = |h: &str| format!("!{h}@{dom}");
    let r = if mine.is_empty() && self.rng.chance(3, 5) { 0 } else { self.rng.below(100) };
    let req = if r < 18 {
      let h = *self.rng.pick(&chans);
      Req::Join { id, chan: full(h), ob: None }
    } else if r < 28 && !owned.is_empty() {
      // owner joins a connected user
      let h = self.rng.pick(&owned).clone();
      let u = *self.rng.pick(&USERS[..3]);
      Req::Join { id, chan: full(&h), ob: Some(format!("{u}@{dom}")) }
    } else if r < 44 && !owned.is_empty() {
      // owner removes a member (sometimes itself, sometimes a non-member)
      let h = self.rng.pick(&owned).clone();
      let ms: Vec<String> = view.members.get(&h).map(|s| s.iter().cloned().collect()).unwrap_or_default();
      let u = if self.rng.chance(1, 6) || ms.is_empty() { (*self.rng.pick(&USERS[..3])).to_string() } else { self.rng.pick(&ms).clone() };
      Req::Leave { id, chan: full(&h), ob: Some(format!("{u}@{dom}")) }
    } else if r < 52 {
      let h = if !mine.is_empty() && self.rng.chance(4, 5) { self.rng.pick(&mine).clone() } else { (*self.rng.pick(&chans)).to_string() };
      Req::Leave { id, chan: full(&h), ob: None }
    } else if r < 80 {
      let h = if !mine.is_empty() && self.rng.chance(5, 6) { self.rng.pick(&mine).clone() } else { (*self.rng.pick(&chans)).to_string() };
      if self.cfg.modulator.is_some() {
        env.verdict = Some(VerdictS::Valid);
      }
      let payload = format!("m{id}").into_bytes();
      Req::Broadcast { id, chan: full(&h), qos: None, payload }
    } else if r < 88 {
      Req::Channels { id, page: None, size: None, owner: self.rng.chance(1, 3) }
    } else if r < 96 {
      let h = if !mine.is_empty() && self.rng.chance(2, 3) { self.rng.pick(&mine).clone() } else { (*self.rng.pick(&chans)).to_string() };
      Req::Members { id, chan: full(&h), page: None, size: None }
    } else {
      let h = (*self.rng.pick(&chans)).to_string();
      Req::GetConfig { id, chan: full(&h) }
    };
    let name = match &req {
      Req::Join { ob: Some(_), .. } => "join-onbehalf",
      Req::Join { .. } => "join",
      Req::Leave { ob: Some(_), .. } => "leave-onbehalf",
      Req::Leave { .. } => "leave",
      Req::Broadcast { .. } => "broadcast",
      Req::Members { .. } => "members",
      Req::Channels { .. } => "channels",
      _ => "getconfig",
    };
    self.bump(name);
    req
  }

  fn pre_auth_noise(&mut self) -> Req {
    self.bump("preauth-noise");
    let id = self.id();
    let chan = self.chan();
    match self.rng.below(8) {
      0 => Req::Join { id, chan, ob: None },
      1 => Req::Broadcast { id, chan, qos: None, payload: vec![b'x'; 3] },
      2 => Req::Identify { username: "mallory".into() },
      3 => Req::Auth { token: "t".into() },
      4 => Req::Connect { version: 1, hb: 0 },
      5 => Req::Other { kind: "PING", wire: b"PING id=5\n".to_vec() },
      6 => Req::Malformed { wire: b"NOPE x=1\n".to_vec() },
      _ => Req::Channels { id, page: None, size: None, owner: false },
    }
  }

  fn authed_req(&mut self, env: &mut EnvS, view: &crate::oracle::Oracle, me: &str) -> Req {
    let id = self.id();
    let mut chan = self.chan();
    let r = self.rng.below(100);
    // mostly act on channels this user is in (and join ones it is not in)
    let mine: Vec<String> = view.members.iter().filter(|(_, m)| m.contains(me)).map(|(h, _)| h.clone()).collect();
    let wants_mine = !(r < 30);
    if wants_mine && !mine.is_empty() && self.rng.chance(3, 4) {
      chan = format!("!{}@{}", self.rng.pick(&mine), self.cfg.domain);
    } else if !wants_mine && self.rng.chance(1, 2) {
      let others: Vec<&&str> = CHANS[..4].iter().filter(|c| !mine.iter().any(|h| c.contains(h.as_str()))).collect();
      if !others.is_empty() {
        chan = (**self.rng.pick(&others)).to_string();
      }
    }
    let req = if r < 30 {
      let ob = if self.rng.chance(1, 5) {
        if self.rng.chance(1, 4) { Some(format!("{}@{}", me, self.cfg.domain)) } else { Some(self.nid()) }
      } else {
        None
      };
      Req::Join { id, chan, ob }
    } else if r < 42 {
      let ob = if self.rng.chance(1, 4) {
        // naming oneself is the interesting corner of on_behalf
        if self.rng.chance(1, 3) { Some(format!("{}@{}", me, self.cfg.domain)) } else { Some(self.nid()) }
      } else {
        None
      };
      Req::Leave { id, chan, ob }
    } else if r < 58 {
      let qos = match self.rng.below(30) {
        0..=4 => Some(0),
        5..=8 => Some(1),
        9 => Some(2),
        _ => None,
      };
      if self.cfg.modulator.is_some() {
        env.verdict = Some(match self.rng.below(9) {
          0 => VerdictS::Invalid,
          1 => VerdictS::Failed,
          // unreachable: only with an event-forwarding modulator, where the model knows that the notifications of a
          // clean-up fail as well (`evok=0`)
          8 => VerdictS::Failed,
          2 | 3 => {
            let mut p = self.payload();
            if p.len() > self.cfg.max_payload as usize {
              p = b"ALTERED".to_vec();
            }
            // (an empty alteration — a modulator that redacts the whole payload — stays in: a MESSAGE cannot carry it)
            if p.is_empty() {
              p = b"ALTERED".to_vec();
            }
            if self.rng.chance(1, 6) {
              p = Vec::new();
            }
            VerdictS::Altered(p)
          },
          _ => VerdictS::Valid,
        });
      }
      Req::Broadcast { id, chan, qos, payload: self.payload() }
    } else if r < 64 {
      Req::Members { id, chan, page: self.page(), size: self.size() }
    } else if r < 70 {
      Req::Channels { id, page: self.page(), size: self.size(), owner: self.rng.chance(1, 2) }
    } else if r < 76 {
      let ty = *self.rng.pick(&["join", "publish", "read"]);
      let (page, size) = if self.rng.chance(1, 3) { (self.page(), self.size()) } else { (None, None) };
      Req::GetAcl { id, chan, ty, page, size }
    } else if r < 86 {
      let ty = *self.rng.pick(&["join", "publish", "read"]);
      let act = if self.rng.chance(2, 3) { "add" } else { "remove" };
      let n = self.rng.below(4);
      let nids = (0..n).map(|_| self.nid()).collect();
      Req::SetAcl { id, chan, ty, act, nids }
    } else if r < 89 {
      Req::GetConfig { id, chan }
    } else if r < 94 {
      let mc = *self.rng.pick(&[0u32, 1, 2, 3, 0, 2, 3, self.cfg.max_clients, self.cfg.max_clients, self.cfg.max_clients + 1]);
      let mp = *self.rng.pick(&[0u32, 1, 8, 16, 0, 16, 64, self.cfg.max_payload, self.cfg.max_payload, self.cfg.max_payload + 1]);
      Req::SetConfig { id, chan, mc, mp }
    } else if r < 96 {
      env.direct = Some(match self.rng.below(4) {
        0 => Some(false),
        1 => None,
        _ => Some(true),
      });
      let idopt = if self.rng.chance(1, 6) { None } else { Some(id) };
      let mut p = self.payload();
      if p.is_empty() {
        p = b"d".to_vec();
      }
      Req::ModDirect { id: idopt, payload: p }
    } else if r < 97 || self.rng.chance(2, 3) {
      return self.authed_req(env, view, me);
    } else if r < 98 {
      match self.rng.below(5) {
        0 => Req::Other { kind: "CONNECT", wire: b"CONNECT version=1\n".to_vec() },
        1 => Req::Other { kind: "IDENTIFY", wire: b"IDENTIFY username=zed\n".to_vec() },
        2 => Req::Other { kind: "PING", wire: b"PING id=9\n".to_vec() },
        3 => Req::Other { kind: "JOIN_ACK", wire: b"JOIN_ACK id=9 channel=!c1@localhost\n".to_vec() },
        _ => Req::Other { kind: "AUTH", wire: b"AUTH token=t\n".to_vec() },
      }
    } else {
      match self.rng.below(4) {
        0 => Req::Malformed { wire: b"JOIN id=0 channel=!c1@localhost\n".to_vec() },
        1 => Req::Malformed { wire: b"WHAT is=this\n".to_vec() },
        2 => Req::Malformed { wire: b"GET_CHAN_ACL id=3 channel=!c1@localhost type=nope\n".to_vec() },
        _ => Req::Malformed { wire: b"JOIN id=1 channel=\\\"unterminated\n".to_vec() },
      }
    };
    let name = match &req {
      Req::Join { ob: Some(_), .. } => "join-onbehalf",
      Req::Join { .. } => "join",
      Req::Leave { ob: Some(_), .. } => "leave-onbehalf",
      Req::Leave { .. } => "leave",
      Req::Broadcast { .. } => "broadcast",
      Req::Members { .. } => "members",
      Req::Channels { .. } => "channels",
      Req::GetAcl { .. } => "getacl",
      Req::SetAcl { .. } => "setacl",
      Req::GetConfig { .. } => "getconfig",
      Req::SetConfig { .. } => "setconfig",
      Req::ModDirect { .. } => "moddirect",
      Req::Other { .. } => "other",
      Req::Malformed { .. } => "malformed",
      _ => "x",
    };
    self.bump(name);
    req
  }
}

/// owners announced by hand-over events in one step (channel handler, username)
pub fn owners_from(got: &BTreeMap<usize, (Vec<RFrame>, bool)>) -> Vec<(String, String)> {
  let mut v: Vec<(String, String)> = Vec::new();
  for (frames, _) in got.values() {
    for f in frames {
      if let Message::Event(p) = &f.msg {
        if p.kind.as_ref() == "MEMBER_JOINED" && p.owner == Some(true) {
          if let (Some(c), Some(n)) = (&p.channel, &p.nid) {
            let c = c.to_string();
            let h = c.trim_start_matches('!').split('@').next().unwrap_or("").to_string();
            let u = n.to_string().split('@').next().unwrap_or("").to_string();
            if !v.iter().any(|(a, _)| *a == h) {
              v.push((h, u));
            }
          }
        }
      }
    }
  }
  v
}

pub struct CaseResult {
  pub transcript: String,
  pub steps: usize,
  /// error-reason histogram etc.
  pub seen: BTreeMap<String, u64>,
  pub oracle_failures: Vec<String>,
}

/// runs one operation on the real server and appends `env`/`op`/`impl` lines to the transcript
pub async fn run_op(
  srv: &mut Srv,
  op: &Op,
  env: &EnvS,
  transcript: &mut String,
  seen: &mut BTreeMap<String, u64>,
) -> BTreeMap<usize, (Vec<RFrame>, bool)> {
  if let Some(m) = &srv.modulator {
    let mut s = m.script.lock().unwrap();
    s.ev_ok = env.ev_ok;
    s.handover_ok = !env.handover_fail;
    s.verdict = env.verdict.clone().unwrap_or(VerdictS::Valid);
    // the whole request (its clean-up included, if it ends the connection) finds the modulator unreachable
    s.down = env.down || matches!(env.verdict, Some(VerdictS::Down));
    s.auth = env.auth.clone().unwrap_or(AuthS::Failure);
    s.direct = env.direct.unwrap_or(Some(true));
  }
  let op_line = match op {
    Op::Open => {
      let k = srv.open();
      format!("op open {k}")
    },
    Op::Close(k) => {
      srv.close(*k);
      format!("op close {k}")
    },
    Op::Recv(k, r) => {
      let w = r.wire().expect("unencodable request reached run_op");
      srv.send(*k, &w).await;
      format!("op recv {k} {}", r.model())
    },
  };
  srv.quiesce(2).await;
  let got = srv.collect().await;
  let owners = owners_from(&got);
  transcript.push_str(&env.line(&owners));
  transcript.push('\n');
  transcript.push_str(&op_line);
  transcript.push('\n');
  let _ = writeln!(transcript, "impl {}", obs_line(&got));
  for (frames, _) in got.values() {
    for f in frames {
      let key = match &f.msg {
        Message::Error(p) => format!("ERROR:{}", p.reason),
        m => m.name().to_string(),
      };
      *seen.entry(key).or_insert(0) += 1;
    }
  }
  got
}

/// one random history
pub async fn run_case(cfg: SrvCfg, rng: Rng, max_steps: usize, mode: &str) -> (CaseResult, BTreeMap<String, u64>) {
  let panics_before = crate::PANICS.load(std::sync::atomic::Ordering::SeqCst);
  let mut srv = Srv::new(cfg.clone()).await;
  let mut g = Gen::new(rng, cfg.clone());
  if mode == "acl" {
    g.plan_acl_setup();
  }
  if mode == "churn" {
    g.mode = "churn".into();
    if cfg.has_op(Operation::ForwardEvent) && !cfg.has_op(Operation::Auth) && g.rng.chance(1, 2) {
      g.plan_name_reuse_after_failed_cleanup();
    }
  }
  if mode == "drift" {
    // churn-style traffic under tight limits with many failing / rolled-back operations: do the limits drift?
    g.mode = "drift".into();
  }
  if mode == "kf_cleanup" {
    g.plan_kf_cleanup();
  }
  let mut transcript = String::new();
  let mut seen = BTreeMap::new();
  let mut steps = 0;
  let mut oracle = crate::oracle::Oracle::new(&cfg);
  while steps < max_steps {
    if (g.mode.starts_with("kf_") || g.mode == "acl_aftermath") && g.plan.is_empty() {
      break;
    }
    let (op, env) = g.next(&oracle);
    if let Op::Recv(_, r) = &op {
      if r.wire().is_none() {
        continue;
      }
    }
    {
      let (kind, k) = match &op {
        Op::Open => ("open".to_string(), 0),
        Op::Close(k) => ("close".to_string(), *k),
        Op::Recv(k, r) => (r.kind_name().to_string(), *k),
      };
      let phase = oracle.conns.get(&k).map(|c| c.0).unwrap_or(0);
      let _ = writeln!(transcript, "tag kind={kind} phase={phase} conn={k}");
    }
    let got = run_op(&mut srv, &op, &env, &mut transcript, &mut seen).await;
    steps += 1;
    oracle.observe(&op, &env, &got, srv.next_handler - 1);
    // keep the generator's view of connection phases roughly right
    match &op {
      Op::Close(k) => g.note_closed(*k),
      Op::Recv(k, r) => {
        if let Some((frames, _)) = got.get(k) {
          for f in frames {
            match (&f.msg, r) {
              (Message::ConnectAck(_), _) => g.note_phase(*k, 1, None),
              (Message::IdentifyAck(p), _) => {
                g.note_phase(*k, 2, Some(p.nid.to_string().split('@').next().unwrap_or("").to_string()))
              },
              (Message::AuthAck(p), _) if p.succeeded == Some(true) => g.note_phase(
                *k,
                2,
                p.nid.as_ref().map(|n| n.to_string().split('@').next().unwrap_or("").to_string()),
              ),
              _ => {},
            }
          }
        }
      },
      _ => {},
    }
    let mut closed_any = false;
    for (k, (_, eof)) in &got {
      if *eof {
        g.note_closed(*k);
        closed_any = true;
      }
    }
    // a scenario whose scripted connections died has nothing left to say
    if g.mode == "acl" && closed_any {
      if !env.quiet() {
        g.plan_acl_aftermath();
      } else {
        break;
      }
    } else if g.mode == "acl_aftermath" && closed_any {
      break;
    }
    // without visible hand-over events the owner oracle is blind: end the history here
    // (a scripted prologue goes on: it is written so that the successor is the only remaining member)
    if env.quiet() && !g.harmless_quiet && g.plan.is_empty() && !g.mode.starts_with("kf_") && (closed_any || matches!(op, Op::Close(_) | Op::Recv(_, Req::Leave { .. }))) {
      break;
    }
  }
  let stats = g.stats.clone();
  if crate::PANICS.load(std::sync::atomic::Ordering::SeqCst) > panics_before {
    oracle.failures.push("C12: [server-panic] a task of the server panicked during this history: its request is never answered, and the real server's panic hook ends the process".into());
  }
  (CaseResult { transcript, steps, seen, oracle_failures: oracle.failures }, stats)
}

pub fn modulator_variants() -> Vec<Option<Vec<Operation>>> {
  vec![
    None,
    None,
    Some(vec![Operation::ForwardEvent]),
    Some(vec![Operation::Auth, Operation::ForwardBroadcastPayload, Operation::ForwardEvent, Operation::SendPrivatePayload]),
    Some(vec![Operation::ForwardBroadcastPayload]),
    Some(vec![Operation::Auth]),
    Some(vec![Operation::ForwardBroadcastPayload, Operation::SendPrivatePayload]),
  ]
}

pub fn scenario_cfg(rng: &mut Rng, mode: &str) -> SrvCfg {
  let mut cfg = random_cfg(rng);
  if mode == "acl" {
    cfg.max_clients = *rng.pick(&[3u32, 4, 5, 8, 100]);
    cfg.max_payload = cfg.max_payload.max(64);
    cfg.modulator = rng.pick(&[None, None, Some(vec![Operation::ForwardBroadcastPayload]), Some(vec![Operation::Auth])]).clone();
  }
  if mode == "kf_cleanup" {
    cfg = SrvCfg::default();
    cfg.modulator = Some(vec![Operation::ForwardEvent]);
  }
  if mode == "drift" {
    cfg.max_channels = *rng.pick(&[1u32, 1, 2]);
    cfg.max_clients = *rng.pick(&[1u32, 2, 3]);
    cfg.max_subs = *rng.pick(&[1u32, 2]);
    cfg.max_payload = 64;
    cfg.modulator = Some(vec![Operation::ForwardEvent]);
  }
  if mode == "churn" {
    cfg.max_channels = *rng.pick(&[2u32, 3, 50]);
    cfg.max_clients = *rng.pick(&[2u32, 3, 100]);
    cfg.max_subs = *rng.pick(&[1u32, 2, 2, 100]);
    cfg.max_payload = 64;
    cfg.modulator = rng.pick(&[None, None, None, Some(vec![Operation::ForwardEvent]), Some(vec![Operation::Auth])]).clone();
  }
  cfg
}

pub fn random_cfg(rng: &mut Rng) -> SrvCfg {
  let mut cfg = SrvCfg::default();
  cfg.max_channels = *rng.pick(&[1u32, 2, 3, 6, 50]);
  cfg.max_clients = *rng.pick(&[1u32, 2, 3, 4, 100]);
  cfg.max_subs = *rng.pick(&[1u32, 2, 3, 100]);
  cfg.max_payload = *rng.pick(&[16u32, 256, 300, 1000, 1024]);
  cfg.modulator = rng.pick(&modulator_variants()).clone();
  cfg
}

#[allow(dead_code)]
pub fn _unused(_: &str) -> String {
  hex(&[])
}
