//! splitmix64: every random choice of a suite derives from one state, so a case replays exactly.
#[derive(Clone)]
pub struct Rng(pub u64);

impl Rng {
  pub fn new(seed: u64) -> Self {
    Rng(seed ^ 0x9E37_79B9_7F4A_7C15)
  }
  pub fn next(&mut self) -> u64 {
    self.0 = self.0.wrapping_add(0x9E37_79B9_7F4A_7C15);
    let mut z = self.0;
    z = (z ^ (z >> 30)).wrapping_mul(0xBF58_476D_1CE4_E5B9);
    z = (z ^ (z >> 27)).wrapping_mul(0x94D0_49BB_1331_11EB);
    z ^ (z >> 31)
  }
  /// uniform in 0..n (n > 0)
  pub fn below(&mut self, n: u64) -> u64 {
    self.next() % n
  }
  pub fn range(&mut self, lo: u64, hi_incl: u64) -> u64 {
    lo + self.below(hi_incl - lo + 1)
  }
  pub fn chance(&mut self, num: u64, den: u64) -> bool {
    self.below(den) < num
  }
  pub fn pick<'a, T>(&mut self, xs: &'a [T]) -> &'a T {
    &xs[self.below(xs.len() as u64) as usize]
  }
  /// derive an independent stream
  pub fn fork(&mut self) -> Rng {
    Rng(self.next())
  }
}

pub fn hex(bs: &[u8]) -> String {
  let mut s = String::with_capacity(bs.len() * 2);
  for b in bs {
    s.push_str(&format!("{:02x}", b));
  }
  s
}

pub fn xhex(bs: &[u8]) -> String {
  format!("x{}", hex(bs))
}
