//! `nvh` — verification harness for narwhal: translator + correspondence suites.
//! Usage: nvh <suite> --seed N --cases N --out FILE [--steps N] [--only CASE]
mod client_mt_suite;
mod client_suite;
mod codec_suite;
mod direct_suite;
mod lat_suite;
mod limits_suite;
mod links_suite;
mod oracle;
mod pool_mt_suite;
mod pool_suite;
mod pressure_suite;
mod reader_suite;
mod rng;
mod s2m_suite;
mod srv;
mod srv_suite;
mod timers_suite;
mod toolarge_suite;
mod translate;
mod writer_suite;

use std::collections::BTreeMap;
use std::fmt::Write as _;

use rng::Rng;

pub struct Args {
  pub suite: String,
  pub seed: u64,
  pub cases: usize,
  pub steps: usize,
  pub out: String,
  pub only: Option<usize>,
  pub extra: BTreeMap<String, String>,
}

fn parse_args() -> Args {
  let av: Vec<String> = std::env::args().collect();
  let mut a = Args {
    suite: av.get(1).cloned().unwrap_or_default(),
    seed: 1,
    cases: 100,
    steps: 40,
    out: "/dev/stdout".into(),
    only: None,
    extra: BTreeMap::new(),
  };
  let mut i = 2;
  while i + 1 < av.len() + 1 && i < av.len() {
    let k = av[i].trim_start_matches("--").to_string();
    let v = av.get(i + 1).cloned().unwrap_or_default();
    match k.as_str() {
      "seed" => a.seed = v.parse().unwrap_or(1),
      "cases" => a.cases = v.parse().unwrap_or(100),
      "steps" => a.steps = v.parse().unwrap_or(40),
      "out" => a.out = v,
      "only" => a.only = v.parse().ok(),
      _ => {
        a.extra.insert(k, v);
      },
    }
    i += 2;
  }
  a
}

fn local_rt() -> (tokio::runtime::Runtime, tokio::task::LocalSet) {
  let rt = tokio::runtime::Builder::new_current_thread().enable_all().start_paused(true).build().unwrap();
  (rt, tokio::task::LocalSet::new())
}

/// JSON string escaping for the small stats files
pub fn js(s: &str) -> String {
  let mut o = String::from("\"");
  for c in s.chars() {
    match c {
      '"' => o.push_str("\\\""),
      '\\' => o.push_str("\\\\"),
      '\n' => o.push_str("\\n"),
      '\r' => o.push_str("\\r"),
      '\t' => o.push_str("\\t"),
      c if (c as u32) < 0x20 => {
        let _ = write!(o, "\\u{:04x}", c as u32);
      },
      c => o.push(c),
    }
  }
  o.push('"');
  o
}

pub fn js_map(m: &BTreeMap<String, u64>) -> String {
  let items: Vec<String> = m.iter().map(|(k, v)| format!("{}:{}", js(k), v)).collect();
  format!("{{{}}}", items.join(","))
}

fn suite_srv(a: &Args) {
  let (rt, local) = local_rt();
  let mut out = String::new();
  let mut stats: BTreeMap<String, u64> = BTreeMap::new();
  let mut seen: BTreeMap<String, u64> = BTreeMap::new();
  let mut oracle_failures: Vec<(usize, String)> = Vec::new();
  let mut steps_total = 0usize;
  let mut master = Rng::new(a.seed);
  for case in 0..a.cases {
    let mut crng = master.fork();
    if a.only.is_some_and(|o| o != case) {
      continue;
    }
    let mode = a.extra.get("mode").cloned().unwrap_or_else(|| "random".into());
    let cfg = srv_suite::scenario_cfg(&mut crng, &mode);
    let steps = a.steps;
    let cfg2 = cfg.clone();
    let (res, st) = local.block_on(&rt, async move { srv_suite::run_case(cfg2, crng, steps, &mode).await });
    let _ = writeln!(out, "case {case}");
    let _ = writeln!(out, "{}", cfg.line());
    out.push_str(&res.transcript);
    steps_total += res.steps;
    for (k, v) in st {
      *stats.entry(k).or_insert(0) += v;
    }
    for (k, v) in res.seen {
      *seen.entry(k).or_insert(0) += v;
    }
    for f in res.oracle_failures {
      oracle_failures.push((case, f));
    }
  }
  for (case, f) in &oracle_failures {
    let _ = writeln!(out, "oracle-failure case={case} {f}");
  }
  let _ = writeln!(
    out,
    "stats {{\"suite\":\"srv\",\"seed\":{},\"cases\":{},\"steps\":{},\"ops\":{},\"frames\":{},\"oracle_failures\":{}}}",
    a.seed,
    a.cases,
    steps_total,
    js_map(&stats),
    js_map(&seen),
    oracle_failures.len()
  );
  std::fs::write(&a.out, out).expect("write transcript");
}

/// panics of the code under test since start-up (the real server's panic hook ends the process on any of them)
pub static PANICS: std::sync::atomic::AtomicU64 = std::sync::atomic::AtomicU64::new(0);

fn main() {
  // panics of the code under test are caught and reported per case; keep their backtraces out of the transcript
  std::panic::set_hook(Box::new(|_| {
    PANICS.fetch_add(1, std::sync::atomic::Ordering::SeqCst);
  }));
  let a = parse_args();
  match a.suite.as_str() {
    "srv" => suite_srv(&a),
    "reader" => {
      let (rt, local) = local_rt();
      let exhaustive = a.extra.get("exhaustive").is_some_and(|v| v == "1");
      let (seed, cases) = (a.seed, a.cases);
      let out = local.block_on(&rt, async move { reader_suite::run_suite(seed, cases, exhaustive).await });
      let mut t = out.transcript;
      for f in &out.seg_dependent {
        t.push_str(&format!("oracle-failure case=0 {f}\n"));
      }
      t.push_str(&format!(
        "stats {{\"suite\":\"reader\",\"seed\":{},\"streams\":{},\"runs\":{},\"oracle_failures\":{}}}\n",
        a.seed,
        out.streams,
        out.runs,
        out.seg_dependent.len()
      ));
      std::fs::write(&a.out, t).expect("write transcript");
    },
    "client" => {
      let rt = tokio::runtime::Builder::new_current_thread().enable_all().start_paused(true).build().unwrap();
      let (seed, cases) = (a.seed, a.cases);
      let t = rt.block_on(async move { client_suite::run_suite(seed, cases).await });
      std::fs::write(&a.out, t).expect("write transcript");
    },
    "client_mt" => {
      let t = client_mt_suite::run_suite(a.seed, a.cases);
      std::fs::write(&a.out, t).expect("write transcript");
    },
    "client-debug" => {
      let rt = tokio::runtime::Builder::new_current_thread().enable_all().start_paused(true).build().unwrap();
      rt.block_on(async move { client_suite::debug_case().await });
    },
    "pool" => {
      let t = pool_suite::run_suite(a.seed, a.cases);
      std::fs::write(&a.out, t).expect("write transcript");
    },
    "pool_mt" => {
      let t = pool_mt_suite::run_suite(a.seed, a.cases);
      std::fs::write(&a.out, t).expect("write transcript");
    },
    "writer" => {
      let (rt, local) = local_rt();
      let (seed, cases) = (a.seed, a.cases);
      let mut t = local.block_on(&rt, async move { writer_suite::run_suite(seed, cases).await });
      t.push_str(&format!("stats {{\"suite\":\"writer\",\"seed\":{},\"cases\":{}}}\n", a.seed, a.cases));
      std::fs::write(&a.out, t).expect("write transcript");
    },
    "codec" => {
      let exhaustive = a.extra.get("exhaustive").is_some_and(|v| v == "1");
      let t = codec_suite::run_suite(a.seed, a.cases, exhaustive);
      std::fs::write(&a.out, t).expect("write transcript");
    },
    "s2m" => {
      let (rt, local) = local_rt();
      let (seed, cases) = (a.seed, a.cases);
      let t = local.block_on(&rt, async move { s2m_suite::run_suite(seed, cases).await });
      std::fs::write(&a.out, t).expect("write transcript");
    },
    "direct" => {
      let (rt, local) = local_rt();
      let (seed, cases) = (a.seed, a.cases);
      let t = local.block_on(&rt, async move { direct_suite::run_suite(seed, cases).await });
      std::fs::write(&a.out, t).expect("write transcript");
    },
    "lat" => {
      let (rt, local) = local_rt();
      let (seed, cases, only, path) = (a.seed, a.cases, a.only, a.out.clone());
      let out = local.block_on(&rt, async move { lat_suite::run_suite(seed, cases, only, path).await });
      let mut t = out.transcript;
      for (case, f) in &out.failures {
        t.push_str(&format!("oracle-failure case={case} {f}\n"));
      }
      t.push_str(&format!(
        "stats {{\"suite\":\"lat\",\"seed\":{},\"cases\":{},\"ops\":{},\"oracle_failures\":{}}}\n",
        a.seed,
        a.cases,
        js_map(&out.stats),
        out.failures.len()
      ));
      std::fs::write(&a.out, t).expect("write transcript");
    },
    "limits" => {
      let (rt, local) = local_rt();
      let (seed, cases) = (a.seed, a.cases);
      let t = local.block_on(&rt, async move { limits_suite::run_suite(seed, cases).await });
      std::fs::write(&a.out, t).expect("write transcript");
    },
    "micro" => {
      let (rt, local) = local_rt();
      let (seed, cases) = (a.seed, a.cases);
      let t = local.block_on(&rt, async move { lat_suite::run_micro_suite(seed, cases).await });
      std::fs::write(&a.out, t).expect("write transcript");
    },
    "readers" => {
      let (rt, local) = local_rt();
      let (seed, cases) = (a.seed, a.cases);
      let t = local.block_on(&rt, async move { lat_suite::run_readers_suite(seed, cases).await });
      std::fs::write(&a.out, t).expect("write transcript");
    },
    "probe_failed_loop" => {
      let (rt, local) = local_rt();
      let variant = a.extra.get("variant").cloned().unwrap_or_else(|| "oversize".into());
      let (log, fails) = local.block_on(&rt, async move { lat_suite::probe_failed_loop(&variant).await });
      let mut t = log;
      for f in &fails {
        t.push_str(&format!("oracle-failure case=0 {f}\n"));
      }
      std::fs::write(&a.out, t).expect("write transcript");
    },
    "probe_reuse" => {
      let (rt, local) = local_rt();
      let (log, fails) = local.block_on(&rt, async move { lat_suite::probe_reuse_during_cleanup().await });
      let mut t = log;
      for f in &fails {
        t.push_str(&format!("oracle-failure case=0 {f}\n"));
      }
      std::fs::write(&a.out, t).expect("write transcript");
    },
    "probe_stale" => {
      let (rt, local) = local_rt();
      let variant = a.extra.get("variant").cloned().unwrap_or_else(|| "join".into());
      let (log, fails) = local.block_on(&rt, async move { lat_suite::probe_stale_channel(&variant).await });
      let mut t = log;
      for f in &fails {
        t.push_str(&format!("oracle-failure case=0 {f}\n"));
      }
      std::fs::write(&a.out, t).expect("write transcript");
    },
    "pressure" => {
      let (rt, local) = local_rt();
      let (seed, cases, only) = (a.seed, a.cases, a.only);
      let t = local.block_on(&rt, async move { pressure_suite::run_suite(seed, cases, only).await });
      std::fs::write(&a.out, t).expect("write transcript");
    },
    "toolarge" => {
      let (rt, local) = local_rt();
      let (seed, cases) = (a.seed, a.cases);
      let t = local.block_on(&rt, async move { toolarge_suite::run_suite(seed, cases).await });
      std::fs::write(&a.out, t).expect("write transcript");
    },
    "links" => {
      let (rt, local) = local_rt();
      let (seed, cases) = (a.seed, a.cases);
      let t = local.block_on(&rt, async move { links_suite::run_suite(seed, cases).await });
      std::fs::write(&a.out, t).expect("write transcript");
    },
    "timers" => {
      let (rt, local) = local_rt();
      let (seed, cases) = (a.seed, a.cases);
      let mode = a.extra.get("mode").cloned().unwrap_or_else(|| "random".into());
      let t = if let Some(script) = a.extra.get("script").cloned() {
        let g = |k: &str, d: u64| a.extra.get(k).and_then(|v| v.parse().ok()).unwrap_or(d);
        let cfg = timers_suite::TCfg {
          link: match a.extra.get("link").map(|s| s.as_str()) {
            Some("s2m") => timers_suite::Link::S2m,
            Some("m2s") => timers_suite::Link::M2s,
            _ => timers_suite::Link::C2s,
          },
          auth: g("auth", 0) == 1,
          ct: g("ct", 100),
          at: g("at", 100),
          ka: g("ka", 50),
          minka: g("minka", 5),
          pipe: g("pipe", 1 << 20) as usize,
        };
        local.block_on(&rt, async move { timers_suite::run_script(cfg, &script).await })
      } else {
        local.block_on(&rt, async move { timers_suite::run_suite(seed, cases, &mode).await })
      };
      std::fs::write(&a.out, t).expect("write transcript");
    },
    "translate" => {
      let dir = a.extra.get("lean").cloned().unwrap_or_else(|| "/verif/lean".into());
      for (f, ch) in translate::run(&dir) {
        println!("generated {f}{}", if ch { " (changed)" } else { "" });
      }
    },
    other => {
      eprintln!("unknown suite {other:?}");
      std::process::exit(2);
    },
  }
}
