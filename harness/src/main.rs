use narwhal_protocol::*;
use std::io::Cursor;
fn rt(m: Message) {
  let mut buf = vec![0u8; 4096];
  match serialize(&m, &mut buf) {
    Ok(n) => {
      let line = &buf[..n-1];
      let r = std::panic::catch_unwind(|| deserialize(Cursor::new(line)));
      match r { Ok(Ok(m2)) => println!("{:?} -> {:?} => {}", String::from_utf8_lossy(line), m2, if m2==m {"SAME"} else {"DIFF"}),
        Ok(Err(e)) => println!("{:?} => ERR {}", String::from_utf8_lossy(line), e),
        Err(_) => println!("{:?} => PANIC", String::from_utf8_lossy(line)) }
    }
    Err(e) => println!("encode err {e}"),
  }
}
fn main(){
  rt(Message::Auth(AuthParameters{token: "\\".into()}));
  rt(Message::Auth(AuthParameters{token: "a\\".into()}));
  rt(Message::Auth(AuthParameters{token: "a b\\".into()}));
  rt(Message::Auth(AuthParameters{token: "\\\"x".into()}));
  rt(Message::JoinChannelAck(JoinChannelAckParameters{id:1, channel: "".into()}));
  rt(Message::Auth(AuthParameters{token: "a\0b".into()}));
  rt(Message::Auth(AuthParameters{token: "a\nb".into()}));
  rt(Message::Ping(PingParameters{id:0}));
  rt(Message::Error(ErrorParameters{id:None, reason:"X".into(), detail: Some("a b".into())}));
  let r = std::panic::catch_unwind(|| deserialize(Cursor::new(&b"PING id:0=1"[..]))); println!("{:?}", r.map(|x| x.map_err(|e| e.to_string())));
}
