//! Suite `pool_mt` (C19, oracle-only, real threads): several threads acquire (waiting and non-waiting), stamp, freeze,
//! clone, drop and batch-release buffers of one small real `Pool` concurrently.  Oracle: nobody ever sees another
//! holder's stamp in a buffer it holds exclusively, no call panics, and when every holder is gone all buffers and permits
//! are back (`available == capacity`, and the whole capacity can be acquired again without waiting).
//! A stress search over the thread interleavings the micro-step model quantifies over; not part of the proof.
use std::fmt::Write as _;
use std::sync::Arc;
use std::sync::atomic::{AtomicBool, AtomicUsize, Ordering};

use futures::FutureExt;
use narwhal_util::pool::{BucketedPool, Pool, PoolBuffer};

use crate::rng::Rng;

pub fn run_suite(seed: u64, cases: usize) -> String {
  let mut t = String::new();
  let mut fails: Vec<(usize, String)> = Vec::new();
  for case in 0..cases {
    let cap = [2usize, 4, 8, 32][(seed as usize + case) % 4];
    let pool = Pool::new(cap, 32);
    let threads = 6usize;
    let torn = Arc::new(AtomicBool::new(false));
    let panics = Arc::new(AtomicUsize::new(0));
    let mut hs = Vec::new();
    for th in 0..threads {
      let pool = pool.clone();
      let torn = torn.clone();
      let panics = panics.clone();
      let mut rng = Rng::new(seed ^ ((case as u64) << 16) ^ th as u64);
      hs.push(std::thread::spawn(move || {
        let r = std::panic::catch_unwind(std::panic::AssertUnwindSafe(|| {
          let mut shared: Vec<PoolBuffer> = Vec::new();
          for it in 0..4000u32 {
            let stamp = (th as u8) * 16 + (it % 13) as u8 + 1;
            let got = if rng.chance(1, 2) { pool.try_acquire_buffer() } else { pool.acquire_buffer().now_or_never() };
            if let Some(mut b) = got {
              b.as_mut_slice().fill(stamp);
              std::hint::spin_loop();
              if b.as_slice().iter().any(|x| *x != stamp) {
                torn.store(true, Ordering::SeqCst);
              }
              match rng.below(4) {
                0 => drop(b),
                1 => {
                  let f = b.freeze(8);
                  let c = f.clone();
                  drop(f);
                  if c.as_slice().iter().any(|x| *x != stamp) {
                    torn.store(true, Ordering::SeqCst);
                  }
                  drop(c);
                },
                _ => shared.push(b.freeze(16)),
              }
            }
            if shared.len() >= 1 + (it % 5) as usize || rng.chance(1, 8) {
              if rng.chance(1, 2) {
                pool.release_buffers(&mut shared);
              } else {
                shared.clear();
              }
            }
          }
          pool.release_buffers(&mut shared);
        }));
        if r.is_err() {
          panics.fetch_add(1, Ordering::SeqCst);
        }
      }));
    }
    for h in hs {
      let _ = h.join();
    }
    let avail = pool.available_count();
    let inuse = pool.in_use_count();
    // the whole capacity must be obtainable again, without waiting and without a panic
    let again = std::panic::catch_unwind(std::panic::AssertUnwindSafe(|| {
      let mut v = Vec::new();
      for _ in 0..cap {
        match pool.acquire_buffer().now_or_never() {
          Some(b) => v.push(b),
          None => break,
        }
      }
      let extra = pool.try_acquire_buffer().is_some();
      (v.len(), extra)
    }));
    let _ = writeln!(t, "case {case} cap={cap} avail={avail} inuse={inuse} again={again:?} panics={} torn={}", panics.load(Ordering::SeqCst), torn.load(Ordering::SeqCst));
    if panics.load(Ordering::SeqCst) > 0 {
      fails.push((case, format!("C19: [pool-panic] a pool operation panicked under concurrent use (capacity {cap}, {threads} threads)")));
    }
    if torn.load(Ordering::SeqCst) {
      fails.push((case, format!("C19: [pool-shared-write] a holder saw foreign bytes in a buffer it held (capacity {cap})")));
    }
    if avail != cap || inuse != 0 {
      fails.push((case, format!("C19: [pool-not-all-back] with every holder gone {avail} of {cap} buffers are available ({inuse} counted in use)")));
    }
    match again {
      Ok((n, extra)) if n == cap && !extra => {},
      Ok((n, extra)) => fails.push((case, format!("C19: [pool-capacity-drift] after the stress {n} of {cap} buffers could be acquired at once (one more: {extra})"))),
      Err(_) => fails.push((case, format!("C19: [pool-panic] acquiring the capacity again panicked (a permit without a buffer; capacity {cap})"))),
    }
  }
  // the bucketed pool under contention: a request within the largest size is always served (the caller waits while the pool
  // is empty), whatever the other threads do between its availability check and its acquisition
  for case in 0..cases {
    // one bucket of one buffer, or two buckets (64 and 128 bytes) of one buffer each
    let two = (seed as usize + case) % 2 == 1;
    let bp = Arc::new(if two { BucketedPool::new_with_memory_budget(64, 128, 256, 1, 2, 0.5) } else { BucketedPool::new_with_memory_budget(64, 64, 64, 1, 2, 0.5) });
    let largest = if two { 128usize } else { 64 };
    let threads = 4usize;
    let refused = Arc::new(AtomicUsize::new(0));
    let small = Arc::new(AtomicUsize::new(0));
    let panics = Arc::new(AtomicUsize::new(0));
    let mut hs = Vec::new();
    for th in 0..threads {
      let (bp, refused, small, panics) = (bp.clone(), refused.clone(), small.clone(), panics.clone());
      let mut rng = Rng::new(seed ^ 0xb0c4 ^ ((case as u64) << 16) ^ th as u64);
      hs.push(std::thread::spawn(move || {
        let r = std::panic::catch_unwind(std::panic::AssertUnwindSafe(|| {
          for _ in 0..20_000u32 {
            let req = if two && rng.chance(1, 2) { rng.range(65, 128) as usize } else { rng.range(1, 64) as usize };
            match futures::executor::block_on(bp.acquire_buffer(req)) {
              Some(mut b) => {
                if b.as_mut_slice().len() < req {
                  small.fetch_add(1, Ordering::SeqCst);
                }
                b.as_mut_slice()[0] = th as u8;
                drop(b);
              },
              None => {
                refused.fetch_add(1, Ordering::SeqCst);
              },
            }
          }
        }));
        if r.is_err() {
          panics.fetch_add(1, Ordering::SeqCst);
        }
      }));
    }
    for h in hs {
      let _ = h.join();
    }
    let (refused, small, panics) = (refused.load(Ordering::SeqCst), small.load(Ordering::SeqCst), panics.load(Ordering::SeqCst));
    let back = bp.total_available_count();
    let total = if two { 2 } else { 1 };
    let _ = writeln!(t, "case b{case} buckets={} refused={refused} small={small} panics={panics} back={back}", if two { "1x64 1x128" } else { "1x64" });
    if refused > 0 {
      fails.push((case, format!("C19: [bucketed-refused] BucketedPool::acquire_buffer returned None {refused} times for requests within its largest buffer size ({largest} bytes) while {threads} threads were acquiring and dropping buffers")));
    }
    if small > 0 {
      fails.push((case, format!("C19: [bucketed-small] a buffer smaller than requested was handed out {small} times")));
    }
    if panics > 0 {
      fails.push((case, "C19: [pool-panic] BucketedPool::acquire_buffer panicked under concurrent use".to_string()));
    }
    if back != total {
      fails.push((case, format!("C19: [pool-not-all-back] bucketed pool: {back} of {total} buffers available with every holder gone")));
    }
  }
  for (case, f) in &fails {
    let _ = writeln!(t, "oracle-failure case={case} {f}");
  }
  let _ = writeln!(t, "stats {{\"suite\":\"pool_mt\",\"seed\":{seed},\"cases\":{cases},\"oracle_failures\":{}}}", fails.len());
  t
}
