//! Suite `codec`: the real `deserialize` / `serialize` vs the Lean codec model, byte for byte.
//!   `dec <hex>`  : a line (without LF) through `deserialize`; an accepted message is shown by its canonical
//!                  re-encoding with the real `serialize` (so every accepted message also exercises the encoder)
//!   `encs <hex>` : `IDENTIFY username=<arbitrary UTF-8>` through `serialize` (every string straight into `fmt_param`)
//! plus implementation-only oracles: no panic, one LF-terminated line, decode(encode(m)) = m, determinism.
use std::fmt::Write as _;
use std::io::Cursor;
use std::panic::{AssertUnwindSafe, catch_unwind};

use narwhal_protocol::{IdentifyParameters, Message, deserialize, serialize};

use crate::rng::{Rng, hex};
use crate::translate::{MsgSpec, extract_schema};

const SPACES: &[u8] = &[b' ', b'\t', 0x0b, 0x0c, b'\r'];
const ALPHABET: &[&str] = &["a", "b", " ", "\t", "\x0b", "\x0c", "\r", "\n", "\0", "\\", "\"", "'", ":", "*", "=", "é", "漢", "\u{a0}", "\u{2003}", "1", "-"];

fn adversarial_string(r: &mut Rng) -> String {
  let n = match r.below(10) {
    0 => 0,
    1 => 1,
    2..=6 => r.range(2, 5),
    _ => r.range(5, 12),
  };
  // mostly without LF / NUL (which the encoder must refuse), so that the escaping logic is reached
  let clean = r.chance(5, 6);
  let mut s = String::new();
  for _ in 0..n {
    let mut c = *r.pick(ALPHABET);
    if clean && (c == "\n" || c == "\0") {
      c = "\\";
    }
    s.push_str(c);
  }
  s
}

/// a value as it may appear on the wire (not necessarily well-formed)
fn wire_value(r: &mut Rng, ty: &str, allowed: Option<&Vec<String>>) -> Vec<u8> {
  if let Some(a) = allowed {
    if r.chance(4, 5) && !a.is_empty() {
      return r.pick(a).as_bytes().to_vec();
    }
  }
  match ty {
    "u8" | "u16" | "u32" => (*r.pick(&[
      "0", "1", "2", "7", "255", "256", "65535", "65536", "4294967295", "4294967296", "+7", "007", "-1", "1a", "18446744073709551616", "١",
    ]))
    .as_bytes()
    .to_vec(),
    "bool" => (*r.pick(&["true", "false", "true", "false", "True", "1", "yes"])).as_bytes().to_vec(),
    _ => {
      let s = adversarial_string(r).replace(['\n', '\0'], "");
      let raw = s.as_bytes().to_vec();
      match r.below(12) {
        // plain token (may be broken up by its own spaces: that is the point)
        0..=2 => {
          if raw.is_empty() { b"x".to_vec() } else { raw }
        },
        // escaped with a random delimiter
        3..=8 => {
          let d = *r.pick(b"\"':*");
          let mut v = vec![b'\\', d];
          v.extend_from_slice(&raw);
          v.extend_from_slice(&[b'\\', d]);
          v
        },
        // unterminated / wrongly terminated escape
        9 => {
          let d = *r.pick(b"\"':*");
          let mut v = vec![b'\\', d];
          v.extend_from_slice(&raw);
          if r.chance(1, 2) {
            v.push(b'\\');
          }
          v
        },
        // invalid UTF-8
        10 => vec![b'a', 0xff, 0xc3, 0x28, b'b'],
        _ => (*r.pick(&["!c1@localhost", "alice@localhost", "localhost", "join", "add", "MEMBER_LEFT", "BAD_REQUEST", "TIMEOUT", "x"])).as_bytes().to_vec(),
      }
    },
  }
}

fn schema_line(r: &mut Rng, specs: &[MsgSpec]) -> Vec<u8> {
  let m = &specs[r.below(specs.len() as u64) as usize];
  let mut parts: Vec<Vec<u8>> = Vec::new();
  for (i, f) in m.fields.iter().enumerate() {
    let include = match f.kind.as_str() {
      "regular" => !r.chance(1, 12),
      _ => r.chance(2, 3),
    };
    if !include {
      continue;
    }
    let allowed = m.enums.iter().find(|e| e.0 == i).map(|e| &e.1);
    let mut p = f.name.as_bytes().to_vec();
    if f.kind == "vec" {
      let n = r.below(4) as usize;
      let declared: String = match r.below(10) {
        0 => "0".into(),
        1 => format!("{}", n + 1),
        2 => format!("+{n}"),
        3 => "18446744073709551615".into(),
        4 => "x".into(),
        _ => format!("{n}"),
      };
      if !(n == 0 && r.chance(1, 2)) {
        p.extend_from_slice(format!(":{declared}").as_bytes());
      }
      p.push(b'=');
      for j in 0..n {
        if j > 0 {
          p.push(*r.pick(SPACES));
        }
        p.extend_from_slice(&wire_value(r, &f.ty, allowed));
      }
    } else {
      p.push(b'=');
      p.extend_from_slice(&wire_value(r, &f.ty, allowed));
    }
    parts.push(p);
    if r.chance(1, 25) {
      // the same parameter again
      let mut q = f.name.as_bytes().to_vec();
      q.push(b'=');
      q.extend_from_slice(&wire_value(r, &f.ty, allowed));
      parts.push(q);
    }
  }
  if r.chance(1, 8) {
    parts.push(b"unknown_param=1".to_vec());
  }
  if r.chance(1, 30) {
    parts.push((*r.pick(&[&b"=x"[..], b"a:b=1", b"a-b=1", b"novalue", b"k=", b"k:2=a"])).to_vec());
  }
  // shuffle
  for i in (1..parts.len()).rev() {
    let j = r.below((i + 1) as u64) as usize;
    parts.swap(i, j);
  }
  let mut line = Vec::new();
  if r.chance(1, 10) {
    line.push(*r.pick(SPACES));
  }
  line.extend_from_slice(m.wire.as_bytes());
  for p in parts {
    line.push(*r.pick(SPACES));
    if r.chance(1, 10) {
      line.push(b' ');
    }
    line.extend_from_slice(&p);
  }
  if r.chance(1, 6) {
    line.push(*r.pick(SPACES));
  }
  line
}

fn mutate(r: &mut Rng, mut line: Vec<u8>) -> Vec<u8> {
  let n = r.range(1, 3);
  for _ in 0..n {
    if line.is_empty() {
      line.push(b'A');
      continue;
    }
    let i = r.below(line.len() as u64) as usize;
    match r.below(6) {
      0 => {
        line.remove(i);
      },
      1 => line.insert(i, *r.pick(b" \t\x0b\\\"':*=\0\n+-0a")),
      2 => line[i] = *r.pick(b" \\\"':*=\0a0:"),
      3 => line.truncate(i),
      4 => line[i] ^= 0x80,
      _ => line.insert(i, b'\\'),
    }
  }
  line
}

fn kind_index(specs: &[MsgSpec], m: &Message) -> usize {
  specs.iter().position(|s| s.wire == m.name()).unwrap_or(usize::MAX)
}

pub fn observe_dec(specs: &[MsgSpec], line: &[u8], fails: &mut Vec<String>) -> String {
  let res = catch_unwind(AssertUnwindSafe(|| deserialize(Cursor::new(line))));
  match res {
    Err(_) => {
      fails.push(format!("C11: [decode-panic] deserialize panicked on {}", hex(line)));
      "PANIC".into()
    },
    Ok(Err(_)) => "err".into(),
    Ok(Ok(m)) => {
      let mut buf = vec![0u8; 65536];
      match catch_unwind(AssertUnwindSafe(|| serialize(&m, &mut buf))) {
        Err(_) => {
          fails.push(format!("C11: [encode-panic] serialize panicked on the message decoded from {}", hex(line)));
          "PANIC".into()
        },
        Ok(Err(_)) => format!("ok-unencodable kind={}", kind_index(specs, &m)),
        Ok(Ok(n)) => {
          let out = &buf[..n];
          // ---- implementation-only oracles on the encoder's output
          if out.last() != Some(&b'\n') || out[..n - 1].contains(&b'\n') {
            fails.push(format!("C11: [not-one-line] serialize produced {} for the message decoded from {}", hex(out), hex(line)));
          }
          match catch_unwind(AssertUnwindSafe(|| deserialize(Cursor::new(&out[..n - 1])))) {
            Ok(Ok(m2)) if m2 == m => {},
            Ok(Ok(m2)) => fails.push(format!("C11: [roundtrip] {:?} encodes to {} which decodes to the different message {:?}", m, hex(out), m2)),
            Ok(Err(e)) => fails.push(format!("C11: [roundtrip] {:?} encodes to {} which does not decode: {e}", m, hex(out))),
            Err(_) => fails.push(format!("C11: [decode-panic] deserialize panicked on the encoder's own output {}", hex(out))),
          }
          let mut buf2 = vec![0u8; 65536];
          if let Ok(n2) = serialize(&m, &mut buf2) {
            if buf2[..n2] != *out {
              fails.push(format!("C11: [nondeterministic] two encodings of {:?} differ", m));
            }
          }
          format!("ok {}", hex(out))
        },
      }
    },
  }
}

pub fn observe_encs(s: &str, fails: &mut Vec<String>) -> String {
  let m = Message::Identify(IdentifyParameters { username: s.into() });
  let mut buf = vec![0u8; 65536];
  match catch_unwind(AssertUnwindSafe(|| serialize(&m, &mut buf))) {
    Err(_) => {
      fails.push(format!("C11: [encode-panic] serialize panicked on username {}", hex(s.as_bytes())));
      "PANIC".into()
    },
    Ok(Err(_)) => "err".into(),
    Ok(Ok(n)) => {
      let out = &buf[..n];
      if out.last() != Some(&b'\n') || out[..n - 1].contains(&b'\n') {
        fails.push(format!("C11: [not-one-line] serialize produced {} for username {}", hex(out), hex(s.as_bytes())));
      }
      match catch_unwind(AssertUnwindSafe(|| deserialize(Cursor::new(&out[..n - 1])))) {
        Ok(Ok(m2)) if m2 == m => {},
        Ok(Ok(m2)) => fails.push(format!("C11: [roundtrip] username {} encodes to {} which decodes to {:?}", hex(s.as_bytes()), hex(out), m2)),
        Ok(Err(e)) => fails.push(format!("C11: [roundtrip] username {} encodes to {} which does not decode: {e}", hex(s.as_bytes()), hex(out))),
        Err(_) => fails.push(format!("C11: [decode-panic] deserialize panicked on the encoder's own output {}", hex(out))),
      }
      format!("ok {}", hex(out))
    },
  }
}

pub fn run_suite(seed: u64, cases: usize, exhaustive: bool) -> String {
  let specs = extract_schema().expect("schema");
  let mut r = Rng::new(seed ^ 0xc0dec);
  let mut t = String::new();
  let mut fails: Vec<String> = Vec::new();
  let mut n_ok = 0u64;
  let mut n_err = 0u64;
  let mut n_unenc = 0u64;
  let mut emit = |t: &mut String, op: String, obs: String| {
    if obs.starts_with("ok ") {
      n_ok += 1;
    } else if obs.starts_with("ok-") {
      n_unenc += 1;
    } else {
      n_err += 1;
    }
    let _ = writeln!(t, "{op}\nimpl {obs}");
  };
  let _ = writeln!(t, "case 0");
  for _ in 0..cases {
    match r.below(10) {
      0..=4 => {
        let line = schema_line(&mut r, &specs);
        let obs = observe_dec(&specs, &line, &mut fails);
        emit(&mut t, format!("dec {}", hex(&line)), obs);
      },
      5..=6 => {
        let base = schema_line(&mut r, &specs);
        let line = mutate(&mut r, base);
        let obs = observe_dec(&specs, &line, &mut fails);
        emit(&mut t, format!("dec {}", hex(&line)), obs);
      },
      _ => {
        let s = adversarial_string(&mut r);
        let obs = observe_encs(&s, &mut fails);
        emit(&mut t, format!("encs {}", hex(s.as_bytes())), obs);
      },
    }
  }
  if exhaustive {
    // every username of up to 3 symbols of the adversarial alphabet; every tail of up to 2 bytes after `PING id=1`
    for a in ALPHABET {
      for b in ALPHABET.iter().chain(std::iter::once(&"")) {
        for c in ALPHABET.iter().chain(std::iter::once(&"")) {
          let s = format!("{a}{b}{c}");
          let obs = observe_encs(&s, &mut fails);
          emit(&mut t, format!("encs {}", hex(s.as_bytes())), obs);
        }
      }
    }
    let tails: &[u8] = b" \t\\\"':*=\0a1+:";
    for x in tails {
      for y in tails {
        let mut line = b"PING id=1".to_vec();
        line.push(*x);
        line.push(*y);
        let obs = observe_dec(&specs, &line, &mut fails);
        emit(&mut t, format!("dec {}", hex(&line)), obs);
        let mut line2 = b"ERROR reason=TIMEOUT detail=".to_vec();
        line2.extend_from_slice(&[b'\\', b'"', *x, *y, b'\\', b'"']);
        let obs = observe_dec(&specs, &line2, &mut fails);
        emit(&mut t, format!("dec {}", hex(&line2)), obs);
      }
    }
  }
  for f in &fails {
    let _ = writeln!(t, "oracle-failure case=0 {f}");
  }
  let _ = writeln!(
    t,
    "stats {{\"suite\":\"codec\",\"seed\":{seed},\"ops\":{},\"accepted\":{n_ok},\"accepted_unencodable\":{n_unenc},\"rejected\":{n_err},\"kinds\":{},\"oracle_failures\":{}}}",
    n_ok + n_err + n_unenc,
    specs.len(),
    fails.len()
  );
  t
}
