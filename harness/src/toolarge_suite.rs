//! Suite `toolarge` (C12, oracle-only): replies that do not fit `max_message_size`. The connection loop replaces such a
//! reply by `ERROR id=<same id> reason=RESPONSE_TOO_LARGE` and the connection stays usable.
use std::collections::BTreeMap;
use std::fmt::Write as _;

use narwhal_protocol::Message;

use crate::rng::Rng;
use crate::srv::*;

pub async fn run_suite(seed: u64, cases: usize) -> String {
  let mut master = Rng::new(seed ^ 0x70017);
  let mut t = String::new();
  let mut fails: Vec<(usize, String)> = Vec::new();
  let mut stats: BTreeMap<String, u64> = BTreeMap::new();
  for case in 0..cases {
    let mut r = master.fork();
    let mut cfg = SrvCfg::default();
    cfg.max_message = *r.pick(&[200u32, 256, 320, 512]);
    cfg.max_clients = 50;
    cfg.max_subs = 50;
    cfg.max_channels = 50;
    let n_users = r.range(2, 30) as usize;
    let mut srv = Srv::new(cfg.clone()).await;
    let _ = writeln!(t, "case {case} maxmsg={} users={n_users}", cfg.max_message);
    let mut ks = Vec::new();
    for i in 0..n_users {
      let k = srv.open();
      srv.send(k, format!("CONNECT version=1\nIDENTIFY username=member{i:02}\nJOIN id=1 channel=!room@localhost\n").as_bytes()).await;
      srv.settle(1).await;
      ks.push(k);
    }
    // the first user also joins several channels (long CHANNELS reply)
    let nch = r.range(1, 24);
    for c in 0..nch {
      srv.send(ks[0], format!("JOIN id={} channel=!channel{c:02}@localhost\n", 100 + c).as_bytes()).await;
    }
    srv.settle(2).await;
    let _ = srv.collect().await;
    // pipelined: MEMBERS, CHANNELS, GET_CHAN_ACL, then a small request that must still be answered
    let k = ks[0];
    srv.send(k, b"MEMBERS id=7001 channel=!room@localhost\nCHANNELS id=7002\nMEMBERS id=7003 channel=!room@localhost page=1 page_size=2\nGET_CHAN_CONFIG id=7004 channel=!room@localhost\n").await;
    srv.settle(3).await;
    let got = srv.collect().await;
    let (frames, eof) = got.get(&k).cloned().unwrap_or_default();
    for id in [7001u32, 7002, 7003, 7004] {
      let mine: Vec<&RFrame> = frames.iter().filter(|f| f.msg.correlation_id() == Some(id)).collect();
      *stats.entry(format!("replies:{}", mine.first().map(|f| f.msg.name()).unwrap_or("none"))).or_insert(0) += 1;
      if mine.len() != 1 {
        fails.push((case, format!(
          "C12: [too-large-reply] request id={id} (max_message_size {}, {n_users} members, {nch} channels) got {} frames with its id: {:?}{}",
          cfg.max_message, mine.len(), mine.iter().map(|f| f.text.clone()).collect::<Vec<_>>(), if eof { " and the connection was closed" } else { "" }
        )));
      } else if let Message::Error(p) = &mine[0].msg {
        let reason: &str = p.reason.as_ref();
        if reason != "RESPONSE_TOO_LARGE" {
          fails.push((case, format!("C12: [too-large-reply] request id={id} was answered with ERROR {reason}")));
        }
      } else if mine[0].text.len() + 1 > cfg.max_message as usize {
        fails.push((case, format!("C12: [too-large-reply] request id={id} got a reply of {} bytes with max_message_size {}", mine[0].text.len() + 1, cfg.max_message)));
      }
    }
    if eof {
      fails.push((case, "C12: [too-large-reply] the connection was closed although every request carried an id".to_string()));
    }
    // frames with ids the client never sent
    for f in &frames {
      if let Some(i) = f.msg.correlation_id() {
        if !(7001..=7004).contains(&i) {
          fails.push((case, format!("C12: [too-large-reply] a frame with foreign id {i}: {}", f.text)));
        }
      }
    }
  }
  for (case, f) in &fails {
    let _ = writeln!(t, "oracle-failure case={case} {f}");
  }
  let _ = writeln!(t, "stats {{\"suite\":\"toolarge\",\"seed\":{},\"cases\":{},\"ops\":{},\"oracle_failures\":{}}}", seed, cases, crate::js_map(&stats), fails.len());
  t
}
