//! Suite `direct` (C17): the real M2S dispatcher + the real private-payload routing task + the real C2S server.
//!   `m2s <id> <targets> <payload>`  : `M2S_MOD_DIRECT` written on a real M2S link; observed: the link's ACK and every
//!                                     client's MOD_DIRECT frames
//!   `c2s <user> <id> <payload> <outcome>` : a client's MOD_DIRECT; observed: its reply and what the modulator was asked
//! The router state (user ↦ live connections, as acknowledged by the handshakes) is given to the model as a `router` line.
use std::collections::BTreeMap;
use std::fmt::Write as _;
use std::sync::Arc;

use narwhal_modulator::conn::{M2sConnManager, M2sDispatcherFactory};
use narwhal_modulator::modulator::Operation;
use narwhal_modulator::{M2sServerConfig, OutboundPrivatePayload};
use narwhal_protocol::Message;
use tokio::io::{AsyncReadExt, AsyncWriteExt, DuplexStream};
use tokio_util::compat::TokioAsyncReadCompatExt;

use crate::rng::{Rng, hex, xhex};
use crate::srv::*;
use crate::srv_suite::Req;

const USERS: &[&str] = &["alice", "bob", "carol", "dave"];

struct Link {
  s: DuplexStream,
  inbuf: Vec<u8>,
}

impl Link {
  async fn send(&mut self, b: &[u8]) {
    let _ = self.s.write_all(b).await;
  }
  async fn drain(&mut self) -> Vec<RFrame> {
    let mut buf = [0u8; 65536];
    loop {
      match tokio::time::timeout(std::time::Duration::from_millis(0), self.s.read(&mut buf)).await {
        Ok(Ok(0)) | Ok(Err(_)) | Err(_) => break,
        Ok(Ok(n)) => self.inbuf.extend_from_slice(&buf[..n]),
      }
    }
    parse_frames(&mut self.inbuf)
  }
}

pub async fn run_suite(seed: u64, cases: usize) -> String {
  let mut master = Rng::new(seed ^ 0xd1ec7);
  let mut t = String::new();
  let mut fails: Vec<String> = Vec::new();
  let mut stats: BTreeMap<String, u64> = BTreeMap::new();
  for case in 0..cases {
    let mut r = master.fork();
    let mut cfg = SrvCfg::default();
    cfg.max_payload = 64;
    cfg.modulator = r
      .pick(&[
        Some(vec![Operation::Auth, Operation::SendPrivatePayload]),
        Some(vec![Operation::Auth, Operation::SendPrivatePayload]),
        Some(vec![Operation::Auth]),
        Some(vec![Operation::SendPrivatePayload]),
        None,
      ])
      .clone();
    let auth = cfg.has_op(Operation::Auth);
    let mut srv = Srv::new(cfg.clone()).await;
    // the M2S side: real dispatcher, real routing task, small broadcast channel
    let cap = *r.pick(&[1usize, 2, 16]);
    let (ptx, prx) = tokio::sync::broadcast::channel::<OutboundPrivatePayload>(cap);
    let (_h, token) = narwhal_server::c2s::route_m2s_private_payload(prx, srv.router.clone());
    let mcfg = M2sServerConfig::default();
    let m2s_mng = M2sConnManager::new(&mcfg);
    let factory = M2sDispatcherFactory::new(Arc::new(mcfg), ptx);
    let (a, b) = tokio::io::duplex(1 << 20);
    {
      let m = m2s_mng.clone();
      let f = factory.clone();
      tokio::task::spawn_local(async move {
        m.run_connection(b.compat(), f).await;
      });
    }
    let mut link = Link { s: a, inbuf: Vec::new() };
    link.send(b"M2S_CONNECT version=1 heartbeat_interval=0\n").await;
    srv.quiesce(1).await;
    let hello = link.drain().await;
    if !hello.iter().any(|f| matches!(f.msg, Message::M2sConnectAck(_))) {
      fails.push(format!("C17: [m2s-handshake] the M2S link was not acknowledged: {:?}", hello.iter().map(|f| f.text.clone()).collect::<Vec<_>>()));
    }
    let _ = writeln!(t, "case {case}");
    let _ = writeln!(
      t,
      "cfg hasmod={} sendprivate={} maxpayload={} domain={}",
      cfg.modulator.is_some() as u8,
      cfg.has_op(Operation::SendPrivatePayload) as u8,
      cfg.max_payload,
      cfg.domain
    );
    // connection -> user
    let mut users: BTreeMap<usize, String> = BTreeMap::new();
    let mut next_id = 1u32;
    let steps = r.range(6, 14);
    for _ in 0..steps {
      let live: Vec<(usize, String)> = users.iter().map(|(k, u)| (*k, u.clone())).collect();
      let choice = r.below(10);
      if live.len() < 2 || choice < 2 {
        // a new connection (a second one for the same user when the modulator authenticates)
        let u = *r.pick(USERS);
        if auth && r.chance(1, 3) {
          // two connections of one user, accepted in one order and authenticated in the other (the router lists a user's
          // connections in authentication order, their handlers are assigned at accept time)
          let k1 = srv.open();
          let k2 = srv.open();
          for k in [k1, k2] {
            srv.send(k, &Req::Connect { version: 1, hb: 0 }.wire().unwrap()).await;
          }
          srv.quiesce(1).await;
          for k in [k2, k1] {
            srv.modulator.as_ref().unwrap().script.lock().unwrap().auth = AuthS::Success(u.to_string());
            srv.send(k, &Req::Auth { token: "t".into() }.wire().unwrap()).await;
            srv.quiesce(1).await;
            let got = srv.collect().await;
            if let Some((frames, _)) = got.get(&k) {
              if frames.iter().any(|f| matches!(&f.msg, Message::AuthAck(p) if p.succeeded == Some(true))) {
                users.insert(k, u.to_string());
              }
            }
          }
          *stats.entry("open-pair-reversed".into()).or_insert(0) += 1;
          continue;
        }
        let k = srv.open();
        srv.send(k, &Req::Connect { version: 1, hb: 0 }.wire().unwrap()).await;
        srv.quiesce(1).await;
        if auth {
          srv.modulator.as_ref().unwrap().script.lock().unwrap().auth = AuthS::Success(u.to_string());
          srv.send(k, &Req::Auth { token: "t".into() }.wire().unwrap()).await;
        } else {
          srv.send(k, &Req::Identify { username: u.to_string() }.wire().unwrap()).await;
        }
        srv.quiesce(1).await;
        let got = srv.collect().await;
        if let Some((frames, _)) = got.get(&k) {
          if frames.iter().any(|f| matches!(&f.msg, Message::IdentifyAck(_)) || matches!(&f.msg, Message::AuthAck(p) if p.succeeded == Some(true))) {
            users.insert(k, u.to_string());
          }
        }
        *stats.entry("open".into()).or_insert(0) += 1;
        continue;
      }
      if choice == 2 {
        let (k, _) = live[r.below(live.len() as u64) as usize].clone();
        srv.close(k);
        users.remove(&k);
        srv.quiesce(1).await;
        let _ = srv.collect().await;
        *stats.entry("close".into()).or_insert(0) += 1;
        continue;
      }
      // router line (sorted, deterministic)
      let mut by_user: BTreeMap<String, Vec<usize>> = BTreeMap::new();
      for (k, u) in &users {
        by_user.entry(u.clone()).or_default().push(*k);
      }
      let rline: Vec<String> = by_user.iter().map(|(u, ks)| format!("{u}={}", ks.iter().map(|k| k.to_string()).collect::<Vec<_>>().join(","))).collect();
      let _ = writeln!(t, "router {}", rline.join(";"));
      let plen = *r.pick(&[1usize, 2, 7, 64]);
      let tag = r.next();
      let payload: Vec<u8> = (0..plen).map(|i| match (tag >> (i % 8)) & 7 { 0 => b'\n', 1 => 0, _ => (tag.wrapping_mul(i as u64 + 3) >> 9) as u8 }).collect();
      if choice == 3 && !live.is_empty() {
        // a burst of direct messages in one write, more than the routing task's queue holds: the routing task lags; what the
        // queue still holds when it catches up — the last `cap` of the burst — is delivered (oracle only; lag is not modelled)
        let (_, target) = live[r.below(live.len() as u64) as usize].clone();
        let k = cap + r.range(1, 3) as usize;
        let mut bytes = Vec::new();
        let mut pls: Vec<Vec<u8>> = Vec::new();
        for i in 0..k {
          let id = next_id;
          next_id += 1;
          let pl = format!("burst-{id}-{i}").into_bytes();
          bytes.extend_from_slice(format!("M2S_MOD_DIRECT id={id} length={} targets:1={target}\n", pl.len()).as_bytes());
          bytes.extend_from_slice(&pl);
          bytes.push(b'\n');
          pls.push(pl);
        }
        link.send(&bytes).await;
        srv.quiesce(3).await;
        let acks = link.drain().await;
        let got = srv.collect().await;
        let n_acks = acks.iter().filter(|f| matches!(f.msg, Message::M2sModDirectAck(_))).count();
        if n_acks != k {
          fails.push(format!("C17: [m2s-ack] a burst of {k} M2S_MOD_DIRECT was answered by {n_acks} acknowledgements"));
        }
        for (kc, u) in &users {
          let recv: Vec<Vec<u8>> = got
            .get(kc)
            .map(|g| g.0.iter().filter(|f| matches!(f.msg, Message::ModDirect(_))).map(|f| f.payload.clone().unwrap_or_default()).collect())
            .unwrap_or_default();
          if u != &target {
            if !recv.is_empty() {
              fails.push(format!("C17: [non-target] connection {kc} ({u}) received a direct payload addressed to {target}"));
            }
            continue;
          }
          // every payload at most once, in order; the retained tail of the burst exactly once
          for pl in &pls[k - cap.min(k)..] {
            let copies = recv.iter().filter(|x| *x == pl).count();
            if copies != 1 {
              fails.push(format!(
                "C17: [lagged-burst] connection {kc} of {target} received {copies} copies of `{}` — one of the last {cap} payloads of a burst of {k} (queue capacity {cap}), which the routing task still holds when it catches up",
                String::from_utf8_lossy(pl)
              ));
            }
          }
          for x in &recv {
            if recv.iter().filter(|y| *y == x).count() > 1 || !pls.contains(x) {
              fails.push(format!("C17: [copies] connection {kc} of {target} received a duplicated or foreign payload in a burst"));
            }
          }
        }
        *stats.entry("m2s-burst".into()).or_insert(0) += 1;
      } else if choice < 7 {
        // modulator -> clients
        let n = r.range(1, 5);
        // targets are usernames; a NID of another domain names nobody local, whichever way targets are interpreted
        // (local-domain NIDs are left out: whether `carol@localhost` means carol is not settled by the property)
        let pool = [
          "alice", "bob", "carol", "dave", "zed", "alice", "bob", "carol", "dave", "bob@elsewhere.org", "alice@example.com", "Alice", "bo",
        ];
        let targets: Vec<String> = (0..n).map(|_| r.pick(&pool).to_string()).collect();
        let id = next_id;
        next_id += 1;
        let mut frame = format!("M2S_MOD_DIRECT id={id} length={} targets:{}={}\n", payload.len(), targets.len(), targets.join(" ")).into_bytes();
        frame.extend_from_slice(&payload);
        frame.push(b'\n');
        link.send(&frame).await;
        srv.quiesce(2).await;
        let acks = link.drain().await;
        let got = srv.collect().await;
        let mut ents: Vec<String> = Vec::new();
        let ack = acks.iter().find_map(|f| if let Message::M2sModDirectAck(p) = &f.msg { Some(p.id) } else { None });
        ents.push(match ack {
          Some(i) => format!("ack={i}"),
          None => "ack=none".into(),
        });
        if acks.len() != 1 {
          fails.push(format!("C17: [m2s-ack] M2S_MOD_DIRECT id={id} was answered by {} frames on the modulator link", acks.len()));
        }
        for (k, (frames, _)) in &got {
          for f in frames {
            match &f.msg {
              Message::ModDirect(p) => {
                ents.push(format!("{k}:MOD_DIRECT from={} #{}", p.from, hex(f.payload.as_deref().unwrap_or(&[]))));
                // implementation-only oracle
                let ku = users.get(k);
                if !ku.is_some_and(|u| targets.contains(u)) {
                  fails.push(format!("C17: [non-target] connection {k} ({ku:?}) received a direct payload addressed to {targets:?}"));
                }
                if f.payload.as_deref() != Some(&payload[..]) {
                  fails.push(format!("C17: [altered] connection {k} received different bytes than the modulator sent"));
                }
              },
              _ => ents.push(format!("{k}:{}", f.text)),
            }
          }
        }
        for (k, u) in &users {
          let copies = got.get(k).map(|g| g.0.iter().filter(|f| matches!(f.msg, Message::ModDirect(_))).count()).unwrap_or(0);
          let want = targets.contains(u) as usize;
          if copies != want {
            fails.push(format!("C17: [copies] connection {k} of {u} received {copies} copies of the direct payload for targets {targets:?} (expected {want})"));
          }
        }
        let _ = writeln!(t, "m2s {id} {} {}", targets.iter().map(|x| hex(x.as_bytes())).collect::<Vec<_>>().join(","), hex(&payload));
        let _ = writeln!(t, "impl {}", ents.join(" | "));
        *stats.entry("m2s".into()).or_insert(0) += 1;
      } else {
        // client -> modulator
        let (k, u) = live[r.below(live.len() as u64) as usize].clone();
        let outcome = *r.pick(&["valid", "valid", "invalid", "failed"]);
        let id = if r.chance(1, 8) { None } else { Some(next_id) };
        next_id += 1;
        let before = srv.modulator.as_ref().map(|m| {
          let mut s = m.script.lock().unwrap();
          s.direct = match outcome {
            "valid" => Some(true),
            "invalid" => Some(false),
            _ => None,
          };
          s.calls.len()
        });
        srv.send(k, &Req::ModDirect { id, payload: payload.clone() }.wire().unwrap()).await;
        srv.quiesce(2).await;
        let got = srv.collect().await;
        let (frames, eof) = got.get(&k).cloned().unwrap_or_default();
        let mut rs = match frames.first().map(|f| &f.msg) {
          Some(Message::ModDirectAck(p)) => format!("MOD_DIRECT_ACK id={}", p.id),
          Some(Message::Error(p)) => match p.id {
            Some(i) => format!("ERROR id={i} reason={}", p.reason),
            None => format!("ERROR reason={}", p.reason),
          },
          Some(_) => frames[0].text.clone(),
          None => "nothing".into(),
        };
        if eof {
          rs.push_str(" closed");
          users.remove(&k);
        }
        let call = match (&srv.modulator, before) {
          (Some(m), Some(b)) => {
            let s = m.script.lock().unwrap();
            let new: Vec<&(String, String)> = s.calls[b..].iter().filter(|c| c.0 == "direct").collect();
            match new.len() {
              0 => "call=-".to_string(),
              1 => format!("call={}", new[0].1),
              n => format!("call=x{n}"),
            }
          },
          _ => "call=-".into(),
        };
        // the modulator must be told the sender's own username and exactly the client's bytes, whatever the frame claims
        if let Some(rest) = call.strip_prefix("call=") {
          if rest != "-" && !rest.starts_with('x') {
            let mut it = rest.splitn(2, '|');
            let (from, bytes) = (it.next().unwrap_or(""), it.next().unwrap_or(""));
            if from != u {
              fails.push(format!("C17: [forged-from] {u}'s MOD_DIRECT reached the modulator as from={from}"));
              fails.push(format!("C07: [forged-from] {u}'s MOD_DIRECT reached the modulator as from={from}"));
            }
            if bytes != hex(&payload) {
              fails.push(format!("C17: [direct-payload-changed] {u}'s MOD_DIRECT payload reached the modulator as {bytes}"));
            }
          }
        }
        let _ = writeln!(t, "c2s {} {} {} {outcome}", xhex(u.as_bytes()).trim_start_matches('x'), id.map(|i| i.to_string()).unwrap_or("-".into()), hex(&payload));
        let _ = writeln!(t, "impl {rs} | {call}");
        *stats.entry("c2s".into()).or_insert(0) += 1;
      }
    }
    token.cancel();
  }
  for f in &fails {
    let _ = writeln!(t, "oracle-failure case=0 {f}");
  }
  let _ = writeln!(t, "stats {{\"suite\":\"direct\",\"seed\":{seed},\"cases\":{cases},\"ops\":{},\"oracle_failures\":{}}}", crate::js_map(&stats), fails.len());
  t
}
